"""C16 - SPARQL result exchange formats: writer/reader table agreement (DESIGN.md §2 C16)."""
from __future__ import annotations

import ast

from vlib import truthy
from vlib.core import AnalysisError, Repo, Report, norm, own_nodes
from vlib.core import layer as _layer

EXPLANATION = (
    "(a) JSON: for every term class, the 'type' tag and the keys termToJSON writes are read back by parseJsonTerm into "
    "the same class with the same keys; (b) XML: the element names SPARQLXMLWriter.write_binding writes per term class "
    "are the tags parseTerm dispatches on, to the same class, and the literal attributes written (xml:lang, datatype) "
    "are the ones read; (c) in the JSON/XML/CSV/TSV/TXT writers an unbound cell is tested by identity, never by the "
    "truthiness of the term; (d) a term handed to the SAX writer's characters() (which skips falsy content) is passed "
    "as str(...); (e) the exchange-format writers enumerate rows through Result.bindings (which keeps rows in which "
    "nothing is bound), not by iterating the Result; (f) the line-oriented readers never split records with "
    "str.splitlines(), which also splits on characters that are legal inside literals; (n) a reader adds every record to "
    ".bindings independently of what the row binds, and skips an empty line only when the table does not have exactly one "
    "variable; (o) signed numeric terminals build the literal from the lexical form (no unary operator on a Literal); (p) "
    "no codecs stream reader under a line-wise consumer; (q) the string terminals accept after a backslash exactly the "
    "decoder's escape table; (r) text reaches a grammar element containing a string terminal only through a codepoint-"
    "escape expander; (s) presence of an IRI is decided by identity and URIRef() never receives None; (t) the CSV reader "
    "strips the marker the CSV writer puts before a blank node label. The remaining TSV grammar, CSV quoting and control "
    "characters are value-level and not decided."
)

TERM_CLASSES = ("URIRef", "BNode", "Literal")


def _isinstance_arms(repo: Repo, mod, fn: ast.AST, var: str):
    """yield (class name, code) for the classes that fn dispatches on with isinstance(var, ..): the arms of an if-chain or
    the rows of a constant table that a loop scans (vlib.h_c16.class_arms); `code` is the arm and what it calls in the module"""
    from vlib import h_c16 as H

    for cls, code, _arm in H.class_arms(repo, mod, fn, var):
        yield cls, code


def _top_functions(mod):
    """the functions of a module that are not nested in another function (those are walked with their parent)"""
    for q, f in mod.functions():
        if "." in q and isinstance(mod.defs.get(q.rsplit(".", 1)[0]), (ast.FunctionDef, ast.AsyncFunctionDef)):
            continue
        yield q, f


def _calls_of(fn: ast.AST, name: str) -> list:
    return [c for c in ast.walk(fn) if isinstance(c, ast.Call) and norm(c.func).split(".")[-1] == name]


def run(repo: Repo, rep: Report) -> None:
    """the first rules; every rule is a layer of its own (vlib.core.layer): one that loses its anchor on the tree as it is, or on
    one of its equivalent views, does not take the others with it"""
    rep.extra["explanation"] = EXPLANATION
    for f in (rule_a_json_tags_agree, rule_b_xml_tags_agree, rule_c_unbound_by_identity, more_rules,
              rule_d_sax_characters_get_str, rule_e_rows_from_bindings, rule_f_no_splitlines):
        _layer(rep, f, repo)


# ------------------------------------------------------------------------------------------------------------------ (a)
def rule_a_json_tags_agree(repo: Repo, rep: Report) -> None:
    from vlib import h_c16 as H

    RULE = "C16.a-json-tags-agree"
    rep.rule(RULE, "each term class's JSON 'type' tag and keys written by termToJSON are read back by parseJsonTerm into that class", floor=5)
    js = repo.mod("rdflib.plugins.sparql.results.jsonresults")
    tw = js.func("termToJSON")
    tr = js.func("parseJsonTerm")
    rep.analysed("rdflib/plugins/sparql/results/jsonresults.py:termToJSON", "rdflib/plugins/sparql/results/jsonresults.py:parseJsonTerm")
    tv = tw.args.args[1].arg
    written = {}
    for cls, code in _isinstance_arms(repo, js, tw, tv):
        tag = None
        keys = set()
        for n in [x for s in code for x in ast.walk(s)]:
            if isinstance(n, ast.Dict):
                for k, v in zip(n.keys, n.values):
                    if isinstance(k, ast.Constant):
                        keys.add(k.value)
                        if k.value == "type" and isinstance(v, ast.Constant):
                            tag = v.value
            if isinstance(n, ast.Assign) and isinstance(n.targets[0], ast.Subscript) and isinstance(n.targets[0].slice, ast.Constant):
                keys.add(n.targets[0].slice.value)
        written[cls] = (tag, keys)
    if set(written) != set(TERM_CLASSES):
        raise AnalysisError("termToJSON: expected arms for %s, found %s" % (TERM_CLASSES, sorted(written)))
    dv = tr.args.args[0].arg
    tvar = None
    for n in own_nodes(tr):
        if isinstance(n, ast.Assign) and norm(n.value) == "%s['type']" % dv:
            tvar = norm(n.targets[0])
    read = {}
    # the arms of the reader's dispatch on the tag: `if <tag> == "uri":` or `match <tag>: case "uri":` (vlib.h_c16.value_arms)
    for tag, arm_body in H.value_arms(tr, (tvar, "%s['type']" % dv)):
        if True:
            cls = None
            keys = set()
            for x in [y for s in arm_body for y in ast.walk(s)]:
                if isinstance(x, ast.Return) and isinstance(x.value, ast.Call):
                    cls = norm(x.value.func)
                if isinstance(x, ast.Subscript) and norm(x.value) == dv and isinstance(x.slice, ast.Constant):
                    keys.add(x.slice.value)
                if isinstance(x, ast.Call) and norm(x.func) == dv + ".get" and x.args and isinstance(x.args[0], ast.Constant):
                    keys.add(x.args[0].value)
            read[tag] = (cls, keys)
    for cls, (tag, keys) in sorted(written.items()):
        rc, rk = read.get(tag, (None, set()))
        ok = rc == cls and (keys - {"type"}) <= rk
        rep.ob(RULE, js, "termToJSON/parseJsonTerm", "%s <-> type %r keys %s" % (cls, tag, sorted(keys - {"type"})), ok,
               "read back as %s with keys %s" % (rc, sorted(rk)) if ok else "written as type %r with keys %s but read as %s with keys %s" % (tag, sorted(keys), rc, sorted(rk)), node=tw)
    # None -> None (unbound) by identity
    none_arm = any(isinstance(n, ast.If) and isinstance(n.test, ast.Compare) and isinstance(n.test.ops[0], ast.Is) and norm(n.test.left) == tv for n in ast.walk(tw))
    # `match <term>: case None:` is the same identity test (a singleton pattern compares with `is`)
    none_arm = none_arm or any(isinstance(n, ast.Match) and norm(n.subject) == tv and any(
        c.guard is None and isinstance(c.pattern, ast.MatchSingleton) and c.pattern.value is None for c in n.cases) for n in ast.walk(tw))
    rep.ob(RULE, js, "termToJSON", "%s is None -> None" % tv, none_arm, "" if none_arm else "termToJSON no longer maps exactly None to 'unbound'", node=tw)
    # whoever turns a row into its JSON object (the callers of termToJSON in the module) leaves a cell out only when it `is None`
    callers = [(q, f) for q, f in _top_functions(js) if f is not tw and _calls_of(f, "termToJSON")]
    if not callers:
        raise AnalysisError("nothing in %s calls termToJSON: the function that writes a row was not found" % js.rel)
    for q, bj in callers:
        rep.analysed("%s:%s" % (js.rel, q))
        # the tests that decide about one cell: those of the row loop the term is converted in (the whole function when there is none)
        scopes = []
        for c in _calls_of(bj, "termToJSON"):
            sc = next((p for p in js.parents(c) if isinstance(p, (ast.For, ast.While, ast.ListComp, ast.DictComp, ast.SetComp, ast.GeneratorExp)) or p is bj), bj)
            if not any(sc is x for x in scopes):
                scopes.append(sc)
        ok = True
        why = ""
        for sc in scopes:
            for n in ast.walk(sc):
                if not isinstance(n, (ast.If, ast.comprehension)):
                    continue
                tests = [n.test] if isinstance(n, ast.If) else n.ifs
                for t in tests:
                    ident = (isinstance(t, ast.Compare) and len(t.ops) == 1 and isinstance(t.ops[0], (ast.Is, ast.IsNot))
                             and isinstance(t.comparators[0], ast.Constant) and t.comparators[0].value is None)
                    # the same decision with the branches the other way round: under `<x> is None` nothing is done for the cell
                    # (the pass of the loop ends, or the other branch does the writing)
                    skips_none = ident and isinstance(t.ops[0], ast.Is) and isinstance(n, ast.If) and all(isinstance(s_, (ast.Continue, ast.Pass)) for s_ in n.body)
                    if not (ident and (isinstance(t.ops[0], ast.IsNot) or skips_none)):
                        ok = False
                        why = "cell skipped under `%s`" % norm(t)
        rep.ob(RULE, js, q, "a cell is omitted only when it `is None`", ok,
               "" if ok else why + ": a bound but falsy term (Literal(0), Literal('')) is written as unbound", node=bj)


# ------------------------------------------------------------------------------------------------------------------ (b)
def rule_b_xml_tags_agree(repo: Repo, rep: Report) -> None:
    """The names are compared as the texts they denote: a tag or attribute name may be written in place, built with + / % /
    an f-string, or be a module-level constant (vlib.h_c16.fold_text)."""
    from vlib import h_c16 as H

    RULE = "C16.b-xml-tags-agree"
    rep.rule(RULE, "element and attribute names written per term class by write_binding are those parseTerm reads, into the same class", floor=4)
    xm = repo.mod("rdflib.plugins.sparql.results.xmlresults")
    wb = xm.func("SPARQLXMLWriter.write_binding")
    pt = xm.func("parseTerm")
    rep.analysed("rdflib/plugins/sparql/results/xmlresults.py:SPARQLXMLWriter.write_binding", "rdflib/plugins/sparql/results/xmlresults.py:parseTerm")

    def qname(fn: ast.AST, ns: ast.expr, local: ast.expr, env=None):
        """ElementTree's spelling {namespace}local of a SAX name (namespace, local) written inside fn, whose parameters and
        table names stand for what env says; None when it is not constant"""
        ns, local = H.close(ns, env or {}, H.local_names(fn)), H.close(local, env or {}, H.local_names(fn))
        loc = H.fold_text(repo, xm, local)
        if loc is None:
            return None
        if isinstance(ns, ast.Constant) and ns.value is None:
            return loc
        n_ = H.fold_text(repo, xm, ns)
        return None if n_ is None else "{%s}%s" % (n_, loc)

    def sax_name(fn: ast.AST, e: ast.expr, env=None):
        """the SAX name (namespace, local) that the expression e denotes: a pair written in place, or a name that stands for one
        (a module-level constant, a parameter bound to one by the caller)"""
        pair = H.constant_tuple(repo, xm, H.close(e, env or {}, H.local_names(fn)))
        return qname(fn, pair[0], pair[1]) if pair is not None and len(pair) == 2 else None

    def local_of(q):
        return q.rsplit("}", 1)[-1] if isinstance(q, str) else q

    # The writer's dispatch on the class of the term: found from the public write_binding, in it or in the functions of the module
    # it hands the term to (vlib.h_c16.dispatch_arms).  What an arm writes is what the calls it reaches write (reached_calls): the
    # element may be opened in place or by a helper that is given the tag.
    vv = wb.args.args[2].arg
    wx = {}
    wattrs = set()
    for arm in H.dispatch_arms(repo, xm, wb, vv, follow=True):
        cls = arm.cls
        for c, cenv, cfn in H.reached_calls(xm, arm.body, arm.env, arm.fn):
            if isinstance(c.func, ast.Attribute) and c.func.attr == "startElementNS" and c.args:
                wx[cls] = sax_name(cfn, c.args[0], cenv)
        if cls != "Literal":
            continue
        nodes = [x for s in H.arm_code(xm, arm) for x in ast.walk(s)]
        attr_dicts = {norm(c.args[0]) for c in nodes if isinstance(c, ast.Call) and norm(c.func).endswith("AttributesNSImpl") and c.args and isinstance(c.args[0], ast.Name)}
        for n in nodes:
            if isinstance(n, ast.Assign) and isinstance(n.targets[0], ast.Subscript) and norm(n.targets[0].value) in attr_dicts:
                key = n.targets[0].slice
                pair = H.constant_tuple(repo, xm, key)
                if pair is not None and len(pair) == 2:
                    wattrs.add(qname(xm.tree, pair[0], pair[1]) or norm(key))
    rx = {}
    rattrs = set()
    elem = pt.args.args[0].arg
    hidden_pt = H.local_names(pt)
    tagvars = {elem + ".tag"}
    for n in own_nodes(pt):
        if isinstance(n, ast.Assign):
            tg, vals = n.targets[0], n.value
            if isinstance(tg, ast.Tuple) and isinstance(vals, ast.Tuple):
                for t_, v_ in zip(tg.elts, vals.elts):
                    if norm(v_) == elem + ".tag":
                        tagvars.add(norm(t_))
            elif norm(vals) == elem + ".tag":
                tagvars.add(norm(tg))
    for n in ast.walk(pt):
        if isinstance(n, ast.If) and isinstance(n.test, ast.Compare) and len(n.test.ops) == 1 and norm(n.test.left) in tagvars:
            full = H.fold_text(repo, xm, n.test.comparators[0], hidden_pt)
            if full is None:
                continue
            cls = None
            for x in [y for s in n.body for y in ast.walk(s)]:
                if isinstance(x, ast.Return):
                    if isinstance(x.value, ast.Call):
                        cls = norm(x.value.func)
                    elif isinstance(x.value, ast.Name):
                        for a in [y for s in n.body for y in ast.walk(s)]:
                            if isinstance(a, ast.Assign) and norm(a.targets[0]) == x.value.id and isinstance(a.value, ast.Call):
                                cls = norm(a.value.func)
                if isinstance(x, ast.Call) and norm(x.func) == elem + ".get" and x.args:
                    a0 = H.fold_text(repo, xm, x.args[0], hidden_pt)
                    if a0 is not None:
                        rattrs.add(a0)
            rx[full] = cls
    if set(wx) != set(TERM_CLASSES):
        raise AnalysisError("write_binding: expected arms for %s, found %s" % (TERM_CLASSES, sorted(wx)))
    for cls, q in sorted(wx.items()):
        ok = q is not None and rx.get(q) == cls
        rep.ob(RULE, xm, "write_binding/parseTerm", "%s <-> <%s>" % (cls, local_of(q)), ok,
               "read back as %s" % cls if ok else "written as <%s> but that element is read as %s" % (local_of(q), rx.get(q)), node=wb)
    ok = bool(wattrs) and wattrs <= rattrs
    rep.ob(RULE, xm, "write_binding/parseTerm", "literal attributes %s" % sorted(local_of(a) for a in wattrs), ok,
           "all read by parseTerm" if ok else "attributes written %s, read %s" % (sorted(wattrs), sorted(rattrs)), node=wb)


# ------------------------------------------------------------------------------------------------------------------ (c)
def rule_c_unbound_by_identity(repo: Repo, rep: Report) -> None:
    rep.rule("C16.c-unbound-by-identity", "in the result writers/readers a cell's None-ness is decided by identity, not by the truthiness of a term", floor=2)
    for name in ("jsonresults", "xmlresults", "csvresults", "tsvresults", "txtresults"):
        mod = repo.mod("rdflib.plugins.sparql.results." + name)
        for q, f in _top_functions(mod):
            truthy.scan(repo, rep, "C16.c-unbound-by-identity", mod, f, q, exempt=EXEMPT)
            rep.analysed("%s:%s" % (mod.rel, q))
    qm = repo.mod("rdflib.query")
    for q in ("ResultRow.__new__", "ResultRow.__getitem__", "ResultRow.get", "ResultRow.asdict", "Result.__eq__"):
        if qm.has(q):
            truthy.scan(repo, rep, "C16.c-unbound-by-identity", qm, qm.func(q), q, exempt=EXEMPT)


# ------------------------------------------------------------------------------------------------------------------ (d)
def rule_d_sax_characters_get_str(repo: Repo, rep: Report) -> None:
    xm = repo.mod("rdflib.plugins.sparql.results.xmlresults")
    typed = repo.typed
    rep.rule("C16.d-sax-characters-get-str",
             "xml.sax XMLGenerator.characters(content) ignores falsy content: every argument passed to <writer>.characters() that may be "
             "a Literal (falsy for 0/''/false) is wrapped in str(...)", floor=3)
    for q, f in xm.functions():
        for c in own_nodes(f):
            if isinstance(c, ast.Call) and isinstance(c.func, ast.Attribute) and c.func.attr == "characters" and c.args:
                a = c.args[0]
                tf = typed.type_of(xm.name, a)
                may_lit = tf is not None and bool(truthy.domain_hits(repo, tf))
                wrapped = isinstance(a, ast.Call) and norm(a.func) == "str"
                # which isinstance arm are we in?
                arm = None
                for p in xm.parents(c):
                    if isinstance(p, ast.If) and isinstance(p.test, ast.Call) and norm(p.test.func) == "isinstance":
                        if any(c is x for s in p.body for x in ast.walk(s)):
                            arm = norm(p.test.args[1])
                            break
                lit_arm = arm == "Literal"
                # an argument that the type checker knows to be exactly `str` (e.g. a piece of str(val).split(...)) is not a Literal either
                plain_str = tf is not None and not tf.any and set(tf.items) == {"builtins.str"}
                ok = wrapped or plain_str or not ((may_lit and not _narrowed_away_from_literal(repo, xm, f, c, a)) or lit_arm)
                rep.ob("C16.d-sax-characters-get-str", xm, q, c, ok,
                       "plain str / non-literal term" if ok else "a Literal is handed to characters(): Literal(0) / Literal(False) / Literal('') are falsy and written as empty content", node=c)


def _narrowed_away_from_literal(repo: Repo, mod, f: ast.AST, call: ast.Call, a: ast.expr) -> bool:
    """The argument `a` of `call` is a name that an isinstance test around the call narrows to classes none of which is
    Literal, a subclass or a superclass of it - also where the type checker does not follow the narrowing: the class tested
    is a loop name over a constant table of classes (`for K, tag in TABLE: if isinstance(val, K): ..characters(val)`), every
    row of which is then looked at (vlib.h_c16.dispatch_arms).  The name is not bound again inside the arm."""
    from vlib import h_c16 as H

    if not isinstance(a, ast.Name):
        return False
    try:
        arms = [arm for arm in H.dispatch_arms(repo, mod, f, a.id) if any(call is x for s in arm.body for x in ast.walk(s))]
    except AnalysisError:
        return False
    if not arms:
        return False
    # the innermost test around the call decides; all its rows count
    inner = min(arms, key=lambda arm: sum(1 for s in arm.body for _ in ast.walk(s)))
    arms = [arm for arm in arms if arm.test is inner.test]
    if any(a.id in H.bound_in(s) for arm in arms for s in arm.body):
        return False
    imps = H.imports(mod)
    lit = "rdflib.term.Literal"
    for arm in arms:
        name = arm.cls
        full = "%s.%s" % imps[name] if name in imps else ("%s.%s" % (mod.name, name) if isinstance(mod.defs.get(name), ast.ClassDef) else None)
        if full is None or full not in repo.typed.classes:
            return False  # a class the analysis does not know: it may be (a relative of) Literal
        if full == lit or lit in repo.typed.mro(full) or full in repo.typed.mro(lit):
            return False
    return True


# ------------------------------------------------------------------------------------------------------------------ (e)
def rule_e_rows_from_bindings(repo: Repo, rep: Report) -> None:
    """What `serialize` does is what it and the functions of its module that it calls do (vlib.h_c16.reached_code): the row
    loop may live in serialize or in a method it delegates to."""
    from vlib import h_c16 as H

    rep.rule("C16.e-rows-from-bindings",
             "the JSON/XML/CSV writers take the rows from self.result.bindings (all rows, including those binding nothing); none iterates the "
             "Result object, whose iterator omits all-unbound rows", floor=3)
    for name, cls in (("jsonresults", "JSONResultSerializer"), ("xmlresults", "XMLResultSerializer"), ("csvresults", "CSVResultSerializer")):
        mod = repo.mod("rdflib.plugins.sparql.results." + name)
        f = mod.func(cls + ".serialize")
        code = H.reached_code(mod, [f], mod.cls(cls))
        nodes = [n for d in code for n in ast.walk(d)]
        uses = [n for n in nodes if isinstance(n, ast.Attribute) and norm(n) == "self.result.bindings"]
        direct = [n for n in nodes if isinstance(n, (ast.For, ast.comprehension)) and norm(n.iter) in ("self.result", "iter(self.result)")]
        ok = bool(uses) and not direct
        rep.ob("C16.e-rows-from-bindings", mod, cls + ".serialize", "rows = self.result.bindings", ok,
               "every row is written" if ok else "the writer iterates the Result object (or not .bindings): rows in which nothing is bound are dropped", node=f)


# ------------------------------------------------------------------------------------------------------------------ (f)
def rule_f_no_splitlines(repo: Repo, rep: Report) -> None:
    rep.rule("C16.f-no-splitlines-in-record-readers",
             "the TSV/CSV result readers (and the N-Triples/N-Quads line readers) do not split records with str.splitlines(), which also "
             "splits on VT, FF, FS/GS/RS, NEL, LS and PS - characters that may appear raw inside a literal", floor=4)
    for name in ("rdflib.plugins.sparql.results.tsvresults", "rdflib.plugins.sparql.results.csvresults", "rdflib.plugins.parsers.ntriples", "rdflib.plugins.parsers.nquads"):
        mod = repo.mod(name)
        bad = [n for n in ast.walk(mod.tree) if isinstance(n, ast.Call) and isinstance(n.func, ast.Attribute) and n.func.attr == "splitlines"]
        rep.ob("C16.f-no-splitlines-in-record-readers", mod, "<module>", "no .splitlines() in %s" % mod.rel, not bad,
               "" if not bad else "%s splits records with splitlines(): a literal containing U+2028, \\x0b, \\x0c, \\x85 ... is cut in the middle" % norm(bad[0])[:60], node=bad[0] if bad else mod.tree)


def more_rules(repo: Repo, rep: Report) -> None:
    _layer(rep, lambda r_, p_: json_memo_rule(r_, p_, "C16.g-json-terms-parsed-individually"), repo)
    _layer(rep, rule_h_xml_datatype_written_when_present, repo)
    _layer(rep, rule_i_bindings_extend_not_replace, repo)


def json_memo_rule(repo: Repo, rep: Report, RULE: str) -> None:
    """The functions looked at are found by what they do - they call parseJsonTerm - not by a name: the row loop of the JSON
    reader may sit in a helper of JSONResult or in its constructor."""
    js = repo.mod("rdflib.plugins.sparql.results.jsonresults")
    # (g) no lossy memo in front of parseJsonTerm
    rep.rule(RULE,
             "the JSON result reader obtains every cell from parseJsonTerm(<that cell's object>); if parsed terms are memoised, the memo key contains "
             "all four fields parseJsonTerm reads (type, value, datatype, xml:lang)", floor=1)
    reader = js.func("parseJsonTerm")
    users = [(q, f) for q, f in _top_functions(js) if f is not reader and _calls_of(f, "parseJsonTerm")]
    if not users:
        raise AnalysisError("nothing in %s calls parseJsonTerm any more" % js.rel)
    for q, f in users:
        rep.analysed("%s:%s" % (js.rel, q))
        _json_memo_in(rep, RULE, js, q, f)


def _json_memo_in(rep: Report, RULE: str, js, q: str, f: ast.AST) -> None:
    memo_writes = [n for n in ast.walk(f) if isinstance(n, ast.Assign) and any(isinstance(t, ast.Subscript) for t in n.targets)
                   and any(isinstance(x, ast.Call) and norm(x.func) == "parseJsonTerm" for x in ast.walk(n.value))]
    memo_writes += [n for n in ast.walk(f) if isinstance(n, ast.Call) and isinstance(n.func, ast.Attribute) and n.func.attr == "setdefault"
                    and any(isinstance(x, ast.Call) and norm(x.func) == "parseJsonTerm" for a in n.args for x in ast.walk(a))]
    lossy = []
    for w in memo_writes:
        # the container written must not be the result row itself (row[var] = parseJsonTerm(...) is the normal form)
        tgt = ([t for t in w.targets if isinstance(t, ast.Subscript)] or [w.targets[0]])[0] if isinstance(w, ast.Assign) else w.func.value
        cont = tgt.value if isinstance(tgt, ast.Subscript) else tgt
        key = tgt.slice if isinstance(tgt, ast.Subscript) else (w.args[0] if isinstance(w, ast.Call) else None)
        reads = [x for x in ast.walk(f) if (isinstance(x, ast.Subscript) and x is not tgt and norm(x.value) == norm(cont) and isinstance(x.ctx, ast.Load))
                 or (isinstance(x, ast.Call) and isinstance(x.func, ast.Attribute) and x.func.attr == "get" and norm(x.func.value) == norm(cont))
                 or (isinstance(x, ast.Compare) and isinstance(x.ops[0], (ast.In, ast.NotIn)) and norm(x.comparators[0]) == norm(cont))]
        if not reads:
            continue  # a plain result container
        keytxt = norm(key) if key is not None else ""
        src = keytxt
        for n in ast.walk(f):
            if isinstance(n, ast.Assign) and norm(n.targets[0]) == keytxt:
                src = norm(n.value)
        if not all(k in src for k in ("type", "value", "datatype", "xml:lang")):
            lossy.append((w, src))
    rep.ob(RULE, js, q, "parseJsonTerm results are not memoised under a partial key", not lossy,
           "each cell parsed from its own JSON object" if not lossy else "parsed terms are cached under the key %s, which omits a field parseJsonTerm reads: cells differing only in that field collapse to the first one" % lossy[0][1][:80],
           node=lossy[0][0] if lossy else f)



def rule_h_xml_datatype_written_when_present(repo: Repo, rep: Report) -> None:
    xm = repo.mod("rdflib.plugins.sparql.results.xmlresults")
    # (h) the literal's datatype attribute is written whenever the literal has a datatype
    rep.rule("C16.h-xml-datatype-written-when-present",
             "write_binding adds the datatype attribute under a test of the literal's datatype alone (`val.datatype` / `is not None`), not depending on "
             "which datatype it is: the reader builds an untyped literal whenever the attribute is absent", floor=1)
    from vlib import h_c16 as H

    wb = xm.func("SPARQLXMLWriter.write_binding")
    nd = 0

    def names_datatype(key: ast.expr) -> bool:
        """the key under which the attribute is stored denotes the name `datatype`: written in place, or a module-level constant"""
        if "datatype" in norm(key):
            return True
        pair = H.constant_tuple(repo, xm, key) if isinstance(key, ast.Name) else None
        return pair is not None and any(H.fold_text(repo, xm, x) == "datatype" for x in pair)

    # what write_binding does is what it and the functions of the module it calls do (vlib.h_c16.reached_code)
    for n in [x for d in H.reached_code(xm, [wb], xm.cls("SPARQLXMLWriter")) for x in ast.walk(d)]:
        if isinstance(n, ast.If) and any(isinstance(a, ast.Assign) and isinstance(a.targets[0], ast.Subscript) and names_datatype(a.targets[0].slice) for a in n.body):
            nd += 1
            t = n.test
            simple = (isinstance(t, ast.Attribute) and t.attr == "datatype") or (
                isinstance(t, ast.Compare) and isinstance(t.ops[0], ast.IsNot) and isinstance(t.left, ast.Attribute) and t.left.attr == "datatype")
            rep.ob("C16.h-xml-datatype-written-when-present", xm, "SPARQLXMLWriter.write_binding", t, simple,
                   "written for every datatype" if simple else "the datatype attribute is omitted under `%s`: a literal of that datatype is read back as a plain literal (a different term)" % norm(t)[:80], node=n)
    if nd == 0:
        raise AnalysisError("write_binding: datatype attribute write not found")


def rule_i_bindings_extend_not_replace(repo: Repo, rep: Report) -> None:
    qm = repo.mod("rdflib.query")
    # (i) rows already handed out are kept
    rep.rule("C16.i-bindings-extend-not-replace",
             "Result.bindings, when it drains the pending generator, extends the list of rows already collected (Result.__iter__ appends the rows it "
             "has yielded to the same list) instead of replacing it", floor=1)
    getter = None
    for n in ast.walk(qm.cls("Result")):
        if isinstance(n, ast.FunctionDef) and n.name == "bindings" and any(norm(d) == "property" for d in n.decorator_list):
            getter = n
    if getter is None:
        raise AnalysisError("Result.bindings getter not found")
    drains = [n for n in ast.walk(getter) if isinstance(n, (ast.Assign, ast.AugAssign)) and "_genbindings" in norm(n.value) and "_bindings" in norm(n.targets[0] if isinstance(n, ast.Assign) else n.target)]
    drains += [n for n in ast.walk(getter) if isinstance(n, ast.Call) and isinstance(n.func, ast.Attribute) and n.func.attr == "extend" and "_bindings" in norm(n.func.value)]
    if not drains:
        raise AnalysisError("Result.bindings: draining of _genbindings not found")
    for d in drains:
        ok = isinstance(d, ast.AugAssign) or isinstance(d, ast.Call) or (isinstance(d, ast.Assign) and "self._bindings" in norm(d.value).replace("self._genbindings", ""))
        rep.ob("C16.i-bindings-extend-not-replace", qm, "Result.bindings", d, ok,
               "keeps the rows collected so far" if ok else "the rows already yielded by a partial iteration are discarded: every serializer then omits them", node=d)


EXEMPT: dict = {}


_run_base = run


def run(repo: Repo, rep: Report) -> None:  # noqa: F811
    _layer(rep, _run_base, repo)
    rep.rule("C16.j-carriage-return-as-character-reference",
             "XML line-end normalisation (XML 1.0 2.11) turns a raw CR, and CR LF, in element content into LF before the reader sees it; a writer of literal text therefore emits "
             "CR as the character reference &#13;. The repository's XMLWriter.text does (escape(text, {'\\r': '&#13;'})); the SPARQL XML results writer, which uses "
             "xml.sax's XMLGenerator.characters (no CR escaping), must do the same for literal content", floor=2)
    xw = repo.mod("rdflib.plugins.serializers.xmlwriter")
    tf = xw.func("XMLWriter.text")
    ent = None
    for st in xw.tree.body:
        if isinstance(st, ast.Assign) and isinstance(st.value, ast.Dict):
            for k, v in zip(st.value.keys, st.value.values):
                if isinstance(k, ast.Constant) and k.value == "\r" and isinstance(v, ast.Constant) and v.value == "&#13;":
                    ent = norm(st.targets[0])
    ok = ent is not None and any(isinstance(c, ast.Call) and norm(c.func) == "escape" and len(c.args) == 2 and norm(c.args[1]) == ent for c in own_nodes(tf))
    rep.ob("C16.j-carriage-return-as-character-reference", xw, "XMLWriter.text", "escape(text, %s) with '\\r' -> '&#13;'" % ent, ok,
           "" if ok else "XMLWriter.text no longer escapes CR", node=tf)
    xr = repo.mod("rdflib.plugins.sparql.results.xmlresults")
    from vlib import h_c16 as H

    # the code that writes a literal: the Literal arm of the writer's dispatch on the class of the term, found from the public
    # write_binding - in it or in a function of the module it hands the term to - with what the arm calls in the module
    wb = xr.func("SPARQLXMLWriter.write_binding")
    lit = [a for a in H.dispatch_arms(repo, xr, wb, wb.args.args[2].arg, follow=True) if a.cls == "Literal"]
    if not lit:
        raise AnalysisError("write_binding: literal branch not found")
    for arm in lit:
        code = H.arm_code(xr, arm)
        body_consts = [c.value for s in code for c in ast.walk(s) if isinstance(c, ast.Constant) and isinstance(c.value, str)]
        raw = [c for s in code for c in ast.walk(s) if isinstance(c, ast.Call) and isinstance(c.func, ast.Attribute) and c.func.attr == "characters"]
        ok = "&#13;" in body_consts and "\r" in body_consts
        rep.ob("C16.j-carriage-return-as-character-reference", xr, "SPARQLXMLWriter.write_binding", raw[0] if raw else "literal text written", ok,
               "CR is split off and written as &#13;" if ok else
               "the literal's text goes to XMLGenerator.characters() with its carriage returns raw: Literal('x\\ry') is read back as Literal('x\\ny') by every conforming XML parser", node=raw[0] if raw else arm.test)


_run_base2 = run


def run(repo: Repo, rep: Report) -> None:  # noqa: F811
    _layer(rep, _run_base2, repo)
    for f in (rule_k_text_layer_keeps_line_ends, rule_l_results_element_on_every_select_path, rule_m_row_recorded_before_handed_out):
        _layer(rep, f, repo)


def rule_k_text_layer_keeps_line_ends(repo: Repo, rep: Report) -> None:
    # ------------------------------------------------------------------ (k)
    rep.rule("C16.k-text-layer-keeps-line-ends",
             "a result reader that wraps a binary source in a text layer does not let that layer translate line ends: io.TextIOWrapper without newline='' (its default is universal "
             "newlines: every CR and CR LF, also inside a quoted CSV field, becomes LF before the csv module sees it); codecs.getreader() does not translate", floor=1)
    n_wrap = 0
    for name in ("rdflib.plugins.sparql.results.csvresults", "rdflib.plugins.sparql.results.tsvresults", "rdflib.plugins.sparql.results.jsonresults", "rdflib.plugins.sparql.results.xmlresults"):
        mod = repo.mod(name)
        for c in ast.walk(mod.tree):
            if isinstance(c, ast.Call) and norm(c.func).split(".")[-1] == "TextIOWrapper":
                n_wrap += 1
                nl = [k for k in c.keywords if k.arg == "newline"]
                ok = bool(nl) and isinstance(nl[0].value, ast.Constant) and nl[0].value.value == ""
                rep.ob("C16.k-text-layer-keeps-line-ends", mod, mod.qual_of(c) or "<module>", c, ok,
                       "newline=''" if ok else "TextIOWrapper with default newline translation: a literal containing CR or CR LF parsed from a binary source comes back with LF", node=c)
            if isinstance(c, ast.Call) and norm(c.func) == "codecs.getreader":
                n_wrap += 1
                rep.ob("C16.k-text-layer-keeps-line-ends", mod, mod.qual_of(c) or "<module>", c, True, "codecs stream readers do not translate line ends", node=c)
    if n_wrap == 0:
        rep.ob("C16.k-text-layer-keeps-line-ends", repo.mod("rdflib.plugins.sparql.results.csvresults"), "<module>", "no text layer over binary sources", True, "", node=repo.mod("rdflib.plugins.sparql.results.csvresults").tree)


def rule_l_results_element_on_every_select_path(repo: Repo, rep: Report) -> None:
    from vlib.cfg import CFG

    # ------------------------------------------------------------------ (l)
    rep.rule("C16.l-results-element-on-every-select-path",
             "XMLResultSerializer.serialize opens the <results> element (write_results_header) on every path of the SELECT branch before the rows are written - not on demand from "
             "the per-row code: a result with no rows still needs <results/>, without it the reader finds neither <results> nor <boolean> and rejects the document", floor=1)
    xr = repo.mod("rdflib.plugins.sparql.results.xmlresults")
    sf = xr.func("XMLResultSerializer.serialize")
    g = CFG(sf)
    hdr = [c for c in own_nodes(sf) if isinstance(c, ast.Call) and isinstance(c.func, ast.Attribute) and c.func.attr == "write_results_header"]
    loops_ = [n for n in own_nodes(sf) if isinstance(n, ast.For) and "bindings" in norm(n.iter)]
    if not loops_:
        raise AnalysisError("XMLResultSerializer.serialize: loop over the rows not found")
    ok = bool(hdr) and all(g.must_pass_before(g.node_of(l, xr), [g.node_of(h, xr) for h in hdr]) for l in loops_) and not any(any(h is x for x in ast.walk(l)) for h in hdr for l in loops_)
    rep.ob("C16.l-results-element-on-every-select-path", xr, "XMLResultSerializer.serialize", hdr[0] if hdr else "writer.write_results_header() before the row loop", ok,
           "<results> opened before the rows, also for zero rows" if ok else
           "serialize does not open <results> itself: with zero rows the document has no <results> element and cannot be read back", node=hdr[0] if hdr else sf)


def rule_m_row_recorded_before_handed_out(repo: Repo, rep: Report) -> None:
    # ------------------------------------------------------------------ (m)
    rep.rule("C16.m-row-recorded-before-it-is-handed-out",
             "Result.__iter__ (draining the lazy solution generator) appends a row to the collected list BEFORE yielding it: a consumer that stops after the first row closes the "
             "generator while it is suspended at the yield, and a row recorded only after the yield would be missing from .bindings and from every serialisation", floor=1)
    qm = repo.mod("rdflib.query")
    it = qm.func("Result.__iter__")
    pairs = 0
    for blk in ast.walk(it):
        body = getattr(blk, "body", None)
        if not isinstance(body, list):
            continue
        for b in (body, getattr(blk, "orelse", []) or []):
            idx_app = [i for i, st in enumerate(b) if isinstance(st, ast.Expr) and isinstance(st.value, ast.Call) and isinstance(st.value.func, ast.Attribute) and st.value.func.attr == "append" and "_bindings" in norm(st.value.func.value)]
            idx_y = [i for i, st in enumerate(b) if isinstance(st, ast.Expr) and isinstance(st.value, ast.Yield)]
            for ia in idx_app:
                pairs += 1
                ys = [iy for iy in idx_y]
                # the yield of the same row: in this block or in a nested `if` that precedes the append
                nested_before = any(isinstance(st, (ast.If, ast.For, ast.While, ast.With)) and any(isinstance(x, ast.Yield) for x in ast.walk(st)) for st in b[:ia])
                ok = not any(iy < ia for iy in ys) and not nested_before
                rep.ob("C16.m-row-recorded-before-it-is-handed-out", qm, "Result.__iter__", b[ia], ok,
                       "recorded first" if ok else "the row is appended after it was yielded: `next(iter(result))` followed by result.serialize() loses the first row", node=b[ia])
    if pairs == 0:
        raise AnalysisError("Result.__iter__: recording of drained rows not found")


# =====================================================================================================================
# rules n..t: structural conditions behind the defects F76-F82 (each was found on the pinned tree and repaired there)

_run_base3 = run

RESULT_READERS = ("jsonresults", "xmlresults", "csvresults", "tsvresults")
RESULTS_PKG = "rdflib.plugins.sparql.results."
GRAMMAR = "rdflib.plugins.sparql.parser"


def run(repo: Repo, rep: Report) -> None:  # noqa: F811
    _layer(rep, _run_base3, repo)
    found: dict = {}

    def rule_q(r_: Repo, p_: Report) -> None:
        found["terminals"] = rule_q_string_terminals_accept_what_is_decoded(r_, p_)

    def rule_r(r_: Repo, p_: Report) -> None:
        rule_r_codepoint_escapes_expanded_before_grammar(r_, p_, found.get("terminals"))

    for f in (rule_n_reader_keeps_every_row, rule_o_signed_numbers_from_lexical_form, rule_p_no_codecs_reader_under_line_consumer, rule_q, rule_r,
              rule_s_iri_presence_by_identity, rule_t_csv_marker_stripped):
        _layer(rep, f, repo)


# ---------------------------------------------------------------------------------------------------------------- (n)
def rule_n_reader_keeps_every_row(repo: Repo, rep: Report) -> None:
    """F76.  A reader's row loop appends every record to .bindings: the append does not depend on what the row binds, and a
    line reader skips an empty record only when the table does not have exactly one variable."""
    from vlib import h_c16 as H

    RULE = "C16.n-reader-keeps-every-row"
    rep.rule(RULE,
             "in every result reader the statement that adds a row to .bindings is not control-dependent on the content of that row (no `if row:` / `if len(row) > 0` "
             "around it, no `continue` on it before it, no filter in a comprehension): a row that binds nothing is a row (SELECT ?x WHERE { OPTIONAL {..} } -> the "
             "row count must survive). A line-oriented reader that skips an empty record does so under a test that also looks at the number of variables: with "
             "exactly one variable the empty line IS the row that leaves it unbound ('?x\\n\\n<a>\\n' has two rows)", floor=5)

    def comp_ob(mod, q: str, comp: ast.AST, at: ast.AST) -> None:
        elt_names = H.names_in(comp.elt)  # type: ignore[attr-defined]
        gens_bound = set()
        for g in comp.generators:  # type: ignore[attr-defined]
            gens_bound |= H.bound_in(g.target)
        bad = [t for g in comp.generators for t in g.ifs if H.names_in(t) & elt_names & gens_bound]  # type: ignore[attr-defined]
        rep.ob(RULE, mod, q, comp, not bad, "every record becomes a row" if not bad else
               "rows are filtered by `%s`: a row in which nothing is bound is dropped" % norm(bad[0])[:60], node=at)

    for short in RESULT_READERS:
        mod = repo.mod(RESULTS_PKG + short)
        # functions whose return value is stored into <x>.bindings (JSONResult._get_bindings)
        feeders = set()
        for n in ast.walk(mod.tree):
            if isinstance(n, ast.Assign) and any(isinstance(t, ast.Attribute) and t.attr == "bindings" for t in n.targets) and isinstance(n.value, ast.Call):
                feeders.add(norm(n.value.func).split(".")[-1])
            # comprehension form: <x>.bindings = [row for ... if <test on the row>]
            if isinstance(n, ast.Assign) and any(isinstance(t, ast.Attribute) and t.attr == "bindings" for t in n.targets):
                comp = H.row_comprehension(n.value)
                if comp is not None:
                    comp_ob(mod, mod.qual_of(n) or "<module>", comp, n)
        for q, f in mod.functions():
            returned = {r.value.id for r in own_nodes(f) if isinstance(r, ast.Return) and isinstance(r.value, ast.Name)}
            # local lists that become <x>.bindings inside this very function (the row loop written in place, or inlined)
            stored = {a.value.id for a in own_nodes(f) if isinstance(a, ast.Assign) and isinstance(a.value, ast.Name)
                      and any(isinstance(t, ast.Attribute) and t.attr == "bindings" for t in a.targets)}
            # the same comprehension where the list of rows gets to .bindings through a local name of this function or as the
            # value a feeder returns (`rows = [.. for ..]; return rows`, `return [.. for ..]`): one obligation per comprehension
            row_lists = set(stored) | (returned if f.name in feeders else set())
            for a in own_nodes(f):
                val = None
                if isinstance(a, ast.Return) and f.name in feeders:
                    val = a.value
                elif isinstance(a, ast.Assign) and any(isinstance(t, ast.Name) and t.id in row_lists for t in a.targets):
                    val = a.value
                elif isinstance(a, ast.AnnAssign) and isinstance(a.target, ast.Name) and a.target.id in row_lists:
                    val = a.value
                comp = H.row_comprehension(val) if val is not None else None
                if comp is not None:
                    rep.analysed("%s:%s" % (mod.rel, q))
                    comp_ob(mod, q, comp, a)
            for c in own_nodes(f):
                if not (isinstance(c, ast.Call) and isinstance(c.func, ast.Attribute) and c.func.attr == "append" and len(c.args) == 1):
                    continue
                recv = c.func.value
                is_rows = (isinstance(recv, ast.Attribute) and recv.attr == "bindings") or (
                    isinstance(recv, ast.Name) and ((recv.id in returned and f.name in feeders) or recv.id in stored))
                if not is_rows:
                    continue
                loop = H.innermost_loop(mod, c, f)
                if loop is None:
                    continue
                rep.analysed("%s:%s" % (mod.rel, q))
                variant = H.bound_in(loop)
                row_names = H.derived_names(loop, H.names_in(c.args[0]) & variant)
                # Among the names the row is computed from, those that hold the record as it was read (the line, the csv row) may be
                # tested for ONE thing: emptiness, in a condition that also looks at the number of variables - that is the skip of
                # an empty record of the second clause (decided below and by rule y), not a dependence on what the row binds.
                records = H.record_names(loop) & row_names
                var_count_names = _var_count_names(f)

                def is_record_skip(test: ast.expr, negated: bool) -> bool:
                    leaves = H.conj_leaves(test, negated)
                    if leaves is None:
                        return False
                    on_row = [(l, ng) for l, ng in leaves if H.names_in(l) & row_names]
                    counts = [l for l, ng in leaves if not (H.names_in(l) & row_names) and _looks_at_var_count(l, var_count_names)]
                    return bool(counts) and all(H.names_in(l) & row_names <= records and H.is_emptiness_test(l, ng, records) for l, ng in on_row)

                bad = [t for t, ng in _branch_tests(mod, c, loop, taken=False) if H.names_in(t) & row_names and not is_record_skip(t, ng)]
                jumps = [s for s in ast.walk(loop) if isinstance(s, (ast.Continue, ast.Break)) and H.innermost_loop(mod, s, f) is loop]
                for s in jumps:
                    bad += [t for t, ng in _branch_tests(mod, s, loop, taken=True) if H.names_in(t) & row_names and not is_record_skip(t, ng)]
                rep.ob(RULE, mod, q, c, not bad, "unconditional in the row loop" if not bad else
                       "the row is added only under `%s`: a row in which no variable is bound is dropped by the reader" % norm(bad[0])[:80], node=c)
                # skipped empty records: every way in which a pass of the row loop does not reach the append (a `continue` is taken, or
                # an `if` around the append goes the other way - vlib.h_c16.skip_ways) and on which the record is known to be empty
                feeding = {x for x in _feeds(loop, row_names | H.names_in(c.args[0])) if x in records or x not in row_names}
                for w in H.skip_ways(mod, c, loop, f):
                    if not H.empty_record_leaves(w, variant, feeding):
                        continue
                    looks = any(_looks_at_var_count(l, var_count_names) for l, _ng in w.leaves)  # on this way, a conjunct on the number of variables holds too
                    how = "if %s: continue" if isinstance(w.where, ast.Continue) else "the row is passed over if %s"
                    rep.ob(RULE, mod, q, "skip of an empty record: " + how % w.text()[:120], looks,
                           "only when the table does not have exactly one variable" if looks else
                           "an empty record is skipped whatever the number of variables: in a one-variable table the empty line is the row that leaves the variable unbound, it is lost", node=w.where)


def _var_count_names(f: ast.AST) -> set:
    """local names of f that are computed from <x>.vars (the list of variables, its length)"""
    return {t.id for a in own_nodes(f) if isinstance(a, ast.Assign) and any(isinstance(x, ast.Attribute) and x.attr == "vars" for x in ast.walk(a.value))
            for t in a.targets if isinstance(t, ast.Name)}


def _looks_at_var_count(test: ast.AST, var_count_names: set) -> bool:
    return any((isinstance(x, ast.Attribute) and x.attr == "vars") or (isinstance(x, ast.Name) and x.id in var_count_names) for x in ast.walk(test))


def _branch_tests(mod, node: ast.AST, stop: ast.AST, taken: bool) -> list:
    """[(test, negated)] for the if statements between node and stop: the condition (`not test` when negated) under which node is
    reached (taken=True) or is passed over (taken=False) as far as that `if` is concerned"""
    out = []
    child = node
    for p in mod.parents(node):
        if p is stop:
            break
        if isinstance(p, ast.If):
            in_body = any(child is x for x in p.body)
            out.append((p.test, in_body != taken))
        child = p
    return out


def _feeds(loop: ast.AST, sinks: set) -> set:
    """names bound in loop from which (through assignments inside loop) one of sinks is computed"""
    out = set(sinks)
    changed = True
    while changed:
        changed = False
        for n in ast.walk(loop):
            tg, val = None, None
            if isinstance(n, ast.Assign):
                tg, val = n.targets, n.value
            elif isinstance(n, (ast.For, ast.comprehension)):
                tg, val = [n.target], n.iter
            if tg is None:
                continue
            tnames = {x.id for t in tg for x in ast.walk(t) if isinstance(x, ast.Name)}
            if tnames & out:
                for x in ast.walk(val):
                    if isinstance(x, ast.Name) and x.id not in out:
                        out.add(x.id)
                        changed = True
    return out


# ---------------------------------------------------------------------------------------------------------------- (o)
def rule_o_signed_numbers_from_lexical_form(repo: Repo, rep: Report) -> None:
    """F77.  The token a signed numeric terminal hands to its parse action is the Literal built by the unsigned terminal;
    Literal's unary operators raise TypeError unless the Python value is int/float (xsd:decimal -> Decimal)."""
    from vlib import h_c16 as H

    RULE = "C16.o-signed-number-from-lexical-form"
    rep.rule(RULE,
             "the parse action of a signed numeric terminal of the SPARQL grammar (Suppress('-'|'+') + <number>) - shared by the TSV result reader - builds the literal "
             "from the sign and the lexical form; it applies no unary operator (-x, +x, ~x, abs(x)) to the token, which is a Literal: Literal.__neg__/__pos__/__abs__/"
             "__invert__ raise TypeError for every value that is not int/float, so the TSV cell -0.5 (xsd:decimal) cannot be read. No function of the grammar module "
             "or of a result reader applies such an operator to a Literal-typed value", floor=4)
    gm = repo.mod(GRAMMAR)
    vals = H.module_values(gm)
    signed = {}
    for name, exprs in vals.items():
        for e in exprs:
            for c in ast.walk(e):
                if isinstance(c, ast.Call) and norm(c.func).split(".")[-1] in ("Suppress", "Literal") and c.args and H.const_str(c.args[0]) in ("-", "+"):
                    # a sign in front of a numeric terminal: the rest of the expression refers to a number terminal
                    signed[name] = H.const_str(c.args[0])

    def unary_uses(code: list) -> list:
        out = []
        for blk in code:
            for n in ast.walk(blk):
                if isinstance(n, ast.UnaryOp) and isinstance(n.op, (ast.USub, ast.UAdd, ast.Invert)) and not isinstance(n.operand, ast.Constant):
                    out.append(n)
                if isinstance(n, ast.Call) and norm(n.func) == "abs" and n.args and not isinstance(n.args[0], ast.Constant):
                    out.append(n)
        return out

    numeric_signed = 0
    for name, call in H.method_calls_on(gm, H.PARSE_ACTION):
        if name not in signed or not call.args:
            continue
        # only terminals over numbers: the element refers to a terminal whose own action builds a Literal with an XSD numeric datatype
        numeric_signed += 1
        code = H.action_code(gm, call.args[0])
        bad = unary_uses(code)
        rep.ob(RULE, gm, "<module>", "%s (sign %r): %s" % (name, signed[name], norm(call.args[0])[:80]), not bad,
               "built from the lexical form" if not bad else
               "the action computes `%s` on the token: a Literal whose value is a Decimal (or an ill-formed lexical form) raises TypeError - the cell -0.5 of a TSV result cannot be read" % norm(bad[0])[:40],
               node=bad[0] if bad else call)
    if numeric_signed == 0:
        raise AnalysisError("no signed numeric terminal with a parse action found in %s" % gm.rel)
    # package part: no unary operator on a Literal-typed operand in the grammar module and the result readers
    typed = repo.typed
    for mod in [gm] + [repo.mod(RESULTS_PKG + s) for s in RESULT_READERS]:
        for n in ast.walk(mod.tree):
            opnd = None
            if isinstance(n, ast.UnaryOp) and isinstance(n.op, (ast.USub, ast.UAdd, ast.Invert)):
                opnd = n.operand
            elif isinstance(n, ast.Call) and norm(n.func) == "abs" and n.args:
                opnd = n.args[0]
            if opnd is None:
                continue
            tf = typed.type_of(mod.name, opnd)
            if tf is not None and any("rdflib.term.Literal" in typed.mro(i) for i in tf.items):
                # (the terminals' actions above already report theirs)
                if mod is gm and any(n is x for name, call in H.method_calls_on(gm, H.PARSE_ACTION) if name in signed and call.args
                                     for blk in H.action_code(gm, call.args[0]) for x in ast.walk(blk)):
                    continue
                rep.ob(RULE, mod, mod.qual_of(n) or "<module>", n, False,
                       "unary operator on %s : %s - raises TypeError unless the literal's Python value is int/float" % (norm(opnd), tf.text), node=n)


# ---------------------------------------------------------------------------------------------------------------- (p)
def rule_p_no_codecs_reader_under_line_consumer(repo: Repo, rep: Report) -> None:
    """F78.  codecs.StreamReader.readline()/iteration splits with str.splitlines(): same hazard as rule f, hidden in the text layer."""
    from vlib import h_c16 as H

    RULE = "C16.p-no-codecs-reader-under-line-consumer"
    rep.rule(RULE,
             "in the record readers (TSV/CSV results, N-Triples/N-Quads) nothing that may be a codecs stream reader (codecs.getreader(enc)(src), codecs.open, "
             "codecs.StreamReader, <CodecInfo>.streamreader) is consumed line-wise - .readline(), .readlines() (called, or handed on as a bound method: iter(src.readline, '')), iteration, next(), csv.reader(src): StreamReader.readline "
             "splits with str.splitlines(), i.e. also at VT, FF, FS/GS/RS, NEL, LS, PS, so the row '\"a\\u2028b\"' is cut in two (reading it with .read(n) is fine)", floor=3)
    CODECS_CTORS = ("open", "StreamReader", "StreamReaderWriter", "EncodedFile")
    for name in (RESULTS_PKG + "tsvresults", RESULTS_PKG + "csvresults", "rdflib.plugins.parsers.ntriples", "rdflib.plugins.parsers.nquads"):
        mod = repo.mod(name)
        imps = H.imports(mod)

        def from_codecs(fn_expr: ast.expr, attrs: tuple) -> bool:
            if isinstance(fn_expr, ast.Attribute) and fn_expr.attr in attrs and norm(fn_expr.value) == "codecs":
                return True
            return isinstance(fn_expr, ast.Name) and imps.get(fn_expr.id, ("", ""))[0] == "codecs" and imps[fn_expr.id][1] in attrs

        def is_reader_ctor(e: ast.AST) -> bool:
            if not isinstance(e, ast.Call):
                return False
            if isinstance(e.func, ast.Call) and from_codecs(e.func.func, ("getreader",)):
                return True
            if from_codecs(e.func, CODECS_CTORS):
                return True
            return isinstance(e.func, ast.Attribute) and e.func.attr == "streamreader"

        # may-hold-a-codecs-reader: (function qualname, local name) and attribute texts `self.x` (module-wide)
        tainted: set = set()
        funcs = list(mod.functions())
        for q, f in funcs:
            for a in f.args.posonlyargs + f.args.args + f.args.kwonlyargs:
                if a.annotation is not None and "StreamReader" in norm(a.annotation):
                    tainted.add((q, a.arg))

        def key(q: str, t: ast.AST):
            if isinstance(t, ast.Name):
                return (q, t.id)
            if isinstance(t, ast.Attribute):
                return ("<attr>", norm(t))
            return None

        def holds(q: str, e: ast.AST) -> bool:
            if is_reader_ctor(e):
                return True
            if isinstance(e, ast.IfExp):
                return holds(q, e.body) or holds(q, e.orelse)
            if isinstance(e, ast.Call) and norm(e.func) in ("cast", "typing.cast") and len(e.args) == 2:
                return holds(q, e.args[1])
            k = key(q, e)
            return k is not None and k in tainted

        changed = True
        while changed:
            changed = False
            for q, f in funcs:
                for n in own_nodes(f):
                    tg, val = [], None
                    if isinstance(n, ast.Assign):
                        tg, val = n.targets, n.value
                    elif isinstance(n, (ast.AnnAssign, ast.NamedExpr)) and n.value is not None:
                        tg, val = [n.target], n.value
                    if val is None or not holds(q, val):
                        continue
                    for t in tg:
                        k = key(q, t)
                        if k is not None and k not in tainted:
                            tainted.add(k)
                            changed = True
        for q, f in funcs:
            cls = mod.defs.get(q.rsplit(".", 1)[0]) if "." in q else None
            selfname = f.args.args[0].arg if f.args.args else None
            for n in own_nodes(f):
                src, how, always = None, "", False
                if isinstance(n, ast.Attribute) and isinstance(n.ctx, ast.Load) and n.attr in ("readline", "readlines", "__next__", "__iter__"):
                    # the line-wise read of <src>: the method called in place - <src>.readline() - or taken as a value that something
                    # else calls - iter(<src>.readline, ""), map(..), an alias: whoever calls it reads <src> line-wise
                    if isinstance(n.value, ast.Name) and n.value.id == selfname and isinstance(cls, ast.ClassDef):
                        continue  # a method of the reader class itself (own or inherited), not a file
                    par = mod.parent.get(id(n))
                    called = isinstance(par, ast.Call) and par.func is n
                    src, how, always = n.value, "." + n.attr + ("()" if called else " (the bound method, handed on)"), n.attr.startswith("readline")
                    if called:
                        n = par
                elif isinstance(n, ast.Call) and norm(n.func).split(".")[-1] in ("reader", "DictReader") and (norm(n.func).startswith("csv.") or imps.get(norm(n.func), ("", ""))[0] == "csv") and n.args:
                    src, how, always = n.args[0], "csv.%s(...)" % norm(n.func).split(".")[-1], True
                elif isinstance(n, ast.Call) and norm(n.func) in ("next", "iter", "list", "enumerate") and n.args:
                    src, how = n.args[0], norm(n.func) + "(...)"
                elif isinstance(n, (ast.For, ast.comprehension)):
                    src, how = n.iter, "iteration"
                if src is None:
                    continue
                bad = holds(q, src)
                if not (bad or always):
                    continue
                rep.analysed("%s:%s" % (mod.rel, q))
                rep.ob(RULE, mod, q, "%s of %s" % (how, norm(src)[:60]), not bad, "not a codecs stream reader" if not bad else
                       "%s may be a codecs stream reader and is read line-wise: its readline() splits with str.splitlines(), a record containing U+000B, U+000C, U+001C-1E, U+0085, "
                       "U+2028 or U+2029 inside a literal is cut there" % norm(src)[:40], node=n)


# ---------------------------------------------------------------------------------------------------------------- (q)
def rule_q_string_terminals_accept_what_is_decoded(repo: Repo, rep: Report) -> set:
    """F79.  Terminal and decoder are siblings: the characters a string terminal accepts after a backslash are the keys of the decoder's table."""
    from vlib import h_c16 as H

    RULE = "C16.q-string-terminal-escapes-agree-with-decoder"
    rep.rule(RULE,
             "every SPARQL string terminal (a Regex whose parse action unescapes its text with rdflib.compat.decodeUnicodeEscape; the TSV result reader is built on "
             "STRING_LITERAL1/2) accepts after a backslash exactly the characters of the decoder's escape table - ECHAR ::= '\\' [tbnrf\\\"'] whatever the quoting of "
             "the string: the conformant TSV cell \"it\\'s\" must be read, and an escape the terminal accepts but the decoder does not know stays undecoded", floor=4)
    gm = repo.mod(GRAMMAR)
    # the decoder's table: the module-level dict with one-character keys indexed by the substitution function of decodeUnicodeEscape
    res = H.resolve_function(repo, gm, "decodeUnicodeEscape")
    if res is None:
        raise AnalysisError("decodeUnicodeEscape is no longer imported by %s" % gm.rel)
    dm, dfn = res
    dvals = H.module_values(dm)
    reach, work = set(), [dfn]
    while work:
        fn_ = work.pop()
        for x in ast.walk(fn_):
            if isinstance(x, ast.Name) and x.id not in reach:
                reach.add(x.id)
                if isinstance(dm.defs.get(x.id), ast.FunctionDef):
                    work.append(dm.defs[x.id])
    table = None
    for nm in sorted(reach):
        for v in dvals.get(nm, []):
            if isinstance(v, ast.Dict) and v.keys and all(isinstance(k, ast.Constant) and isinstance(k.value, str) and len(k.value) == 1 for k in v.keys):
                table = {k.value for k in v.keys}  # type: ignore[union-attr]
    if not table:
        raise AnalysisError("escape table of decodeUnicodeEscape not found in %s" % dm.rel)
    vals = H.module_values(gm)
    terminals = set()
    for name, call in H.method_calls_on(gm, H.PARSE_ACTION):
        if not call.args or not any(isinstance(c, ast.Call) and norm(c.func).split(".")[-1] == "decodeUnicodeEscape" for blk in H.action_code(gm, call.args[0]) for c in ast.walk(blk)):
            continue
        for v in vals.get(name, []):
            if not (isinstance(v, ast.Call) and norm(v.func).split(".")[-1] == "Regex" and v.args):
                continue
            pat = H.const_str(v.args[0])
            if pat is None:
                raise AnalysisError("%s: the pattern of the string terminal is not a string constant" % name)
            classes = H.escape_classes(pat, H.re_flags(v))
            if not classes:
                rep.ob(RULE, gm, "<module>", "%s = Regex(...)" % name, False, "the terminal accepts no escape at all, the decoder knows %s" % "".join(sorted(table)), node=v)
                continue
            terminals.add(name)
            for cs in classes:
                missing, extra = table - cs, cs - table
                ok = not missing and not extra
                rep.ob(RULE, gm, "<module>", "%s: after a backslash [%s]" % (name, "".join(sorted(cs)).replace("\\", "\\\\")), ok,
                       "the decoder's table" if ok else
                       ("the terminal does not accept the escape(s) %s that ECHAR and the decoder know: a string containing \\%s is a syntax error - a W3C-conformant TSV cell "
                        "such as \"a\\%sb\" cannot be read" % (" ".join("\\" + c for c in sorted(missing)), sorted(missing)[0], sorted(missing)[0]) if missing else
                        "the terminal accepts %s, which the decoder leaves undecoded" % " ".join("\\" + c for c in sorted(extra))), node=v)
    if not terminals:
        raise AnalysisError("no string terminal (Regex + decodeUnicodeEscape action) found in %s" % gm.rel)
    return terminals


# ---------------------------------------------------------------------------------------------------------------- (r)
def rule_r_codepoint_escapes_expanded_before_grammar(repo: Repo, rep: Report, terminals) -> None:
    """F80.  The string terminals do not know \\uXXXX / \\UXXXXXXXX (rule q: their escape class has no u/U): whoever hands text
    to a grammar element that reaches them expands those escapes first - parseQuery/parseUpdate do, every other entry must too."""
    from vlib import h_c16 as H
    from vlib.cfg import CFG, reaching_defs

    RULE = "C16.r-codepoint-escapes-expanded-before-grammar"
    rep.rule(RULE,
             "the SPARQL string terminals do not accept the codepoint escapes \\uXXXX and \\UXXXXXXXX; every <element>.parse_string(text) in the SPARQL package whose "
             "element reaches a string terminal therefore gets text that has passed through a codepoint-escape expander (a function substituting chr(int(hex, 16)) for a "
             "pattern with \\\\u) on every path - as parseQuery and parseUpdate do, so does the TSV result reader, or the conformant cell \"caf\\u00E9\" is a parse error", floor=3)
    if terminals is None:
        raise AnalysisError("the string terminals of the grammar were not found (rule q)")
    gm = repo.mod(GRAMMAR)
    targets = {(gm.name, t) for t in terminals}
    n_sites = 0
    for mname, mod in sorted(repo.modules.items()):
        if not mname.startswith("rdflib.plugins.sparql"):
            continue
        for q, f in mod.functions():
            g = None
            for c in own_nodes(f):
                if not (isinstance(c, ast.Call) and isinstance(c.func, ast.Attribute) and c.func.attr in ("parse_string", "parseString") and isinstance(c.func.value, ast.Name) and c.args):
                    continue
                hit = H.grammar_reaches(repo, mod, c.func.value.id, targets)
                if hit is None:
                    continue
                n_sites += 1
                rep.analysed("%s:%s" % (mod.rel, q))

                def expanded(e: ast.AST, depth: int = 0) -> bool:
                    nonlocal g
                    if isinstance(e, ast.Call) and isinstance(e.func, ast.Name):
                        r = H.resolve_function(repo, mod, e.func.id)
                        if r is not None and H.is_codepoint_expander(repo, r[0], r[1]):
                            return True
                    # text operations that keep an expanded text expanded
                    if isinstance(e, ast.Call) and isinstance(e.func, ast.Attribute) and e.func.attr in ("strip", "rstrip", "lstrip") :
                        return expanded(e.func.value, depth)
                    if isinstance(e, ast.Name) and depth < 4:
                        if g is None:
                            g = CFG(f)
                        at = g.node_of(c, mod)
                        defs = reaching_defs(g, at, e.id)
                        if not defs or g.entry in defs:
                            return False
                        for d in defs:
                            st = g.nodes[d].ast
                            if not (isinstance(st, ast.Assign) and len(st.targets) == 1 and isinstance(st.targets[0], ast.Name) and st.targets[0].id == e.id):
                                return False
                            v = st.value
                            if isinstance(v, ast.Name):
                                return False
                            if not expanded(v, depth + 1):
                                return False
                        return True
                    return False

                ok = expanded(c.args[0])
                rep.ob(RULE, mod, q, c, ok, "the text is expanded first (the element reaches %s)" % hit[1] if ok else
                       "%s reaches the string terminal %s, which does not know \\u / \\U, and the text handed to it has not passed through a codepoint-escape expander: "
                       "\"\\u00E9\" in it is a syntax error" % (c.func.value.id, hit[1]), node=c)
    if n_sites == 0:
        raise AnalysisError("no parse_string call on a grammar element that reaches a string terminal")


# ---------------------------------------------------------------------------------------------------------------- (s)
def rule_s_iri_presence_by_identity(repo: Repo, rep: Report) -> None:
    """F81.  <> (the empty relative IRI) is a falsy URIRef / an element without text: presence of an IRI is decided by identity."""
    from vlib import h_c16 as H

    RULE = "C16.s-iri-presence-by-identity"
    rep.rule(RULE,
             "in the result readers and writers (1) an Optional[URIRef] (a literal's datatype) is tested `is None`, never for truth - URIRef('') is falsy; (2) whatever "
             "is handed to URIRef(...) cannot be None there (an Optional value is defaulted, `text or ''`, or guarded), and where the guard is a test of the very "
             "expression it is `is not None`, not truthiness: <uri></uri> has text None and is the IRI <>, datatype=\"\" is a datatype", floor=5)
    typed = repo.typed
    for short in RESULT_READERS + ("txtresults",):
        mod = repo.mod(RESULTS_PKG + short)
        for q, f in mod.functions():
            if "." in q and isinstance(mod.defs.get(q.rsplit(".", 1)[0]), ast.FunctionDef):
                continue  # nested defs are walked with their parent

            def is_opt_iri(e: ast.AST) -> bool:
                tf = typed.type_of(mod.name, e)
                return tf is not None and tf.optional and any("rdflib.term.URIRef" in typed.mro(i) for i in tf.items) \
                    and not any("rdflib.term.Literal" in typed.mro(i) or i in truthy.SUPER_OF_LITERAL for i in tf.items)  # those are rule c's

            # (1)
            for n in own_nodes(f, include_nested=True):
                if isinstance(n, ast.Compare) and len(n.ops) == 1 and isinstance(n.ops[0], (ast.Is, ast.IsNot, ast.Eq, ast.NotEq)):
                    sides = [n.left, n.comparators[0]]
                    if any(isinstance(x, ast.Constant) and x.value is None for x in sides):
                        for x in sides:
                            if not isinstance(x, ast.Constant) and is_opt_iri(x):
                                rep.ob(RULE, mod, q, n, True, "presence of the IRI %s decided by identity" % norm(x), node=n)
            for e, owner, kind in truthy.bool_contexts(f):
                if isinstance(e, (ast.Compare, ast.Constant)):
                    continue
                if is_opt_iri(e):
                    rep.ob(RULE, mod, q, "%s [in %s: %s]" % (norm(e), kind, norm(getattr(owner, "test", owner))[:100]), False,
                           "truthiness of %s : %s conflates `no IRI` with the empty IRI <>: a literal typed with it loses its datatype" % (norm(e), typed.type_of(mod.name, e)), node=e)
            # (2)
            if short == "txtresults":
                continue
            for c in own_nodes(f, include_nested=True):
                if not (isinstance(c, ast.Call) and norm(c.func).split(".")[-1] == "URIRef" and c.args):
                    continue
                a = c.args[0]
                tf = typed.type_of(mod.name, a)
                rep.analysed("%s:%s" % (mod.rel, q))
                want = H.strip_none_default(a)

                def same(e: ast.AST) -> bool:
                    """e denotes the value handed to URIRef: the same expression, or the walrus that binds the name"""
                    if isinstance(e, ast.NamedExpr):
                        return (isinstance(a, ast.Name) and isinstance(e.target, ast.Name) and e.target.id == a.id) or same(e.value)
                    return H.strip_none_default(e) == want

                def may_be_none(e: ast.AST) -> bool:
                    t_ = typed.type_of(mod.name, e.value if isinstance(e, ast.NamedExpr) else e)
                    return t_ is None or t_.optional or (t_.any and not t_.items)

                ident, truth = [], []
                child = c
                for p in mod.parents(c):
                    if p is f:
                        break
                    if isinstance(p, ast.If) and any(child is s for s in p.body):
                        for leaf in _and_leaves(p.test):
                            if isinstance(leaf, ast.Compare) and len(leaf.ops) == 1 and isinstance(leaf.ops[0], (ast.IsNot, ast.NotEq)) and isinstance(leaf.comparators[0], ast.Constant) \
                                    and leaf.comparators[0].value is None and same(leaf.left):
                                ident.append(leaf)
                            elif not isinstance(leaf, ast.Compare) and same(leaf) and may_be_none(leaf):
                                truth.append(leaf)
                    child = p
                if truth:
                    ok, why = False, "the IRI is built only if `%s` is true: an empty value (the IRI <>, datatype=\"\") is treated as absent" % norm(truth[0])[:60]
                elif tf is None or not tf.optional:
                    ok, why = True, "the argument %s cannot be None" % (tf.text if tf else "(untyped)")
                elif ident:
                    ok, why = True, "guarded by `%s`" % norm(ident[0])
                else:
                    ok, why = False, "%s : %s may be None here (an element without text): URIRef(None) is not the empty IRI" % (norm(a)[:40], tf.text)
                rep.ob(RULE, mod, q, c, ok, why, node=c)


def _and_leaves(test: ast.expr):
    """conjuncts of a test that hold on its true branch"""
    if isinstance(test, ast.BoolOp) and isinstance(test.op, ast.And):
        for v in test.values:
            yield from _and_leaves(v)
    else:
        yield test


# ---------------------------------------------------------------------------------------------------------------- (t)
def rule_t_csv_marker_stripped(repo: Repo, rep: Report) -> None:
    """F82.  A marker the CSV writer puts in front of a term's text is syntax: the reader arm that recognises it strips it."""
    from vlib import h_c16 as H

    RULE = "C16.t-csv-marker-stripped-by-reader"
    rep.rule(RULE,
             "for every term class that CSVResultSerializer.serializeTerm writes as <constant marker> + text (blank nodes: '_:' + label), CSVResultParser.convertTerm has "
             "an arm `<cell>.startswith(<marker>)` that builds that class from the cell WITHOUT the marker (cell[len(marker):] / removeprefix): built from the whole cell, "
             "BNode('b1') comes back as BNode('_:b1') and grows another '_:' on each round trip", floor=1)
    mod = repo.mod(RESULTS_PKG + "csvresults")
    w = mod.func("CSVResultSerializer.serializeTerm")
    r = mod.func("CSVResultParser.convertTerm")
    rep.analysed("%s:CSVResultSerializer.serializeTerm" % mod.rel, "%s:CSVResultParser.convertTerm" % mod.rel)
    tv = w.args.args[1].arg
    markers = {}
    for cls, _code, arm_if in H.class_arms(repo, mod, w, tv):
        # the marker is recognised as <constant> + <the term>, in terms of serializeTerm's own parameter, in what the arm hands back
        # (a `return` of the arm, or the arm's branch of a returned conditional expression - vlib.h_c16.arm_results)
        if True:
            for v in H.arm_results(mod, arm_if):
                m = None
                if isinstance(v, ast.JoinedStr) and len(v.values) >= 2 and H.const_str(v.values[0]) and tv in H.names_in(v):
                    m = H.const_str(v.values[0])
                elif isinstance(v, ast.BinOp) and isinstance(v.op, ast.Add) and H.const_str(v.left) and tv in H.names_in(v.right):
                    m = H.const_str(v.left)
                elif isinstance(v, ast.BinOp) and isinstance(v.op, ast.Mod) and H.const_str(v.left) and "%" in H.const_str(v.left) and tv in H.names_in(v.right):
                    m = H.const_str(v.left).split("%", 1)[0] or None
                if m:
                    markers[cls] = m
    if not markers:
        raise AnalysisError("serializeTerm: no term class is written with a constant marker (blank nodes were written as '_:' + label)")
    cell = r.args.args[1].arg
    for cls, m in sorted(markers.items()):
        arms = [n for n in ast.walk(r) if isinstance(n, ast.If) and any(
            isinstance(c, ast.Call) and isinstance(c.func, ast.Attribute) and c.func.attr == "startswith" and norm(c.func.value) == cell and c.args and H.const_str(c.args[0]) == m
            for c in ast.walk(n.test))]
        if not arms:
            rep.ob(RULE, mod, "CSVResultParser.convertTerm", "%s written as %r + text" % (cls, m), False, "convertTerm has no arm for cells starting with %r: the term is read as a Literal" % m, node=r)
            continue
        for arm in arms:
            ctors = [c for s in arm.body for c in ast.walk(s) if isinstance(c, ast.Call) and norm(c.func).split(".")[-1] == cls]
            ok = bool(ctors)
            why = "no %s is built in the arm" % cls
            for c in ctors:
                a = c.args[0] if c.args else None
                stripped = False
                if isinstance(a, ast.Subscript) and norm(a.value) == cell and isinstance(a.slice, ast.Slice) and a.slice.upper is None and a.slice.step is None and a.slice.lower is not None:
                    lo = a.slice.lower
                    stripped = (isinstance(lo, ast.Constant) and lo.value == len(m)) or (
                        isinstance(lo, ast.Call) and norm(lo.func) == "len" and lo.args and H.const_str(lo.args[0]) == m)
                elif isinstance(a, ast.Call) and isinstance(a.func, ast.Attribute) and a.func.attr == "removeprefix" and norm(a.func.value) == cell and a.args and H.const_str(a.args[0]) == m:
                    stripped = True
                elif isinstance(a, ast.Call) and isinstance(a.func, ast.Attribute) and a.func.attr in ("split", "partition") and norm(a.func.value) == cell:
                    stripped = False
                if not stripped:
                    ok = False
                    why = "%s is built from `%s`, which still carries the marker %r: BNode('b1') -> '_:b1' -> BNode('_:b1')" % (cls, norm(a) if a is not None else "", m)
            rep.ob(RULE, mod, "CSVResultParser.convertTerm", "%s written as %r + text, read by %s" % (cls, m, norm(ctors[0]) if ctors else "?"), ok,
                   "the marker is stripped" if ok else why, node=ctors[0] if ctors else arm)


# =====================================================================================================================
# rules u..y: structural conditions behind the defects F215-F219 (each was found on the repaired tree and repaired there)

_run_base4 = run

EXPLANATION_UY = (
    "(u) whatever consumes a csv.reader in a result reader runs after csv.field_size_limit has been raised to the largest portable value; (v) the JSON "
    "text handed to json.loads is the source's own bytes/str, never a transcoding under a fixed codec; (w) a JSON text that is encoded with a caller-chosen "
    "encoding was dumped with ensure_ascii depending on that encoding (or on); (x) a line read with readline() reaches the row/header grammar only after a "
    "trailing carriage return was removed on every path; (y) the header grammar is applied only to a non-empty header (or is nullable) and an empty record is "
    "never skipped in a table with no or one variable. "
)


def run(repo: Repo, rep: Report) -> None:  # noqa: F811
    _layer(rep, _run_base4, repo)
    rep.extra["explanation"] = rep.extra["explanation"].replace("The remaining TSV grammar", EXPLANATION_UY + "The remaining TSV grammar")
    for f in (rule_u_csv_field_limit_raised, rule_v_json_source_not_transcoded, rule_w_json_escaped_for_non_unicode_encoding,
              rule_x_carriage_return_dropped_before_grammar, rule_y_table_without_variables, rule_m_on_the_cfg):
        _layer(rep, f, repo)


def rule_m_on_the_cfg(repo: Repo, rep: Report) -> None:
    """Rule m, decided on the control-flow graph instead of on the statement order inside one block (Result.__iter__ was rewritten
    into a replay loop, where the late append can sit in an `if` of its own after the yield): a statement that records a row in
    ._bindings is not reachable from a yield without a fetch of the next row from the generator in between."""
    from vlib.cfg import CFG

    RULE = "C16.m-row-recorded-before-it-is-handed-out"
    qm = repo.mod("rdflib.query")
    it = qm.func("Result.__iter__")
    g = CFG(it)

    def fetches(node: ast.AST) -> bool:
        return any((isinstance(x, ast.Call) and norm(x.func) == "next" and x.args and "_genbindings" in norm(x.args[0]))
                   or (isinstance(x, ast.Call) and isinstance(x.func, ast.Attribute) and x.func.attr == "__next__" and "_genbindings" in norm(x.func.value)) for x in ast.walk(node))

    fetch_nodes = set()
    for n in g.stmts():
        st = n.ast
        if n.kind == "iter":
            if "_genbindings" in norm(st.iter) or fetches(st.iter):  # type: ignore[attr-defined]
                fetch_nodes.add(n.id)
        elif n.kind == "test":
            if fetches(st.test):  # type: ignore[attr-defined]
                fetch_nodes.add(n.id)
        elif n.kind == "stmt" and st is not None and fetches(st):
            fetch_nodes.add(n.id)
    yields = {g.node_of(y, qm) for y in own_nodes(it) if isinstance(y, (ast.Yield, ast.YieldFrom))}
    records = [c for c in own_nodes(it) if isinstance(c, ast.Call) and isinstance(c.func, ast.Attribute) and c.func.attr in ("append", "extend", "insert") and "_bindings" in norm(c.func.value)]
    if not fetch_nodes or not records or not yields:
        raise AnalysisError("Result.__iter__: fetch from _genbindings / recording in _bindings / yield not found")
    for c in records:
        a = g.node_of(c, qm)
        late = [y for y in yields if a not in fetch_nodes and a in g.reach(y, avoid=fetch_nodes)]
        rep.ob(RULE, qm, "Result.__iter__", "%s [no yield between the fetch and it]" % norm(c), not late,
               "recorded as soon as it is fetched" if not late else
               "the row is recorded only after it was yielded (no fetch of the next row in between): a consumer that stops there closes the generator at the yield, "
               "`next(iter(result))` followed by result.serialize() loses that row", node=c)


def _exchange_modules(repo: Repo) -> list:
    """the modules in which SPARQL results are read or written: the SPARQL package, the stores (remote endpoints), rdflib.query"""
    return [m for name, m in sorted(repo.modules.items())
            if name.startswith("rdflib.plugins.sparql") or name.startswith("rdflib.plugins.stores") or name == "rdflib.query"]


# ---------------------------------------------------------------------------------------------------------------- (u)
def rule_u_csv_field_limit_raised(repo: Repo, rep: Report) -> None:
    """F215.  The CSV writer puts a term of any length into one field; the csv module refuses to READ a field longer than
    csv.field_size_limit() (default 131072) - a module-wide setting that has to be raised before the reader is consumed."""
    from vlib import h_c16 as H
    from vlib.cfg import CFG

    RULE = "C16.u-csv-reader-field-limit-raised"
    rep.rule(RULE,
             "wherever SPARQL results are read, every use of a csv.reader / csv.DictReader object (next(), iteration, handing it on) is preceded on every path by "
             "csv.field_size_limit(N) with N a constant >= 2**31 - 1 (or sys.maxsize) - called there, or in a function of the module (or one it imports by name from a module of the tree) on every path to its return, or in a "
             "@contextmanager of that kind on every path to its yield when the use is inside the `with`: the csv module raises _csv.Error('field larger than field limit (131072)') on "
             "a longer field, so a result holding Literal('x' * 200000) - which CSVResultSerializer writes as one field - could not be parsed back", floor=2)
    BIG = 2 ** 31 - 1

    def big(mod, e: ast.expr, fn: ast.AST) -> bool:
        """e, read inside fn, is a constant >= 2**31 - 1: written in place or a module-level constant"""
        v = H.fold_int_in(repo, mod, e, H.local_names(fn))
        return (v is not None and v >= BIG) or norm(e) in ("sys.maxsize", "maxsize")

    def sets_limit(caller: ast.AST, caller_mod):
        """for vlib.h_c16.call_establishes: csv.field_size_limit(N) puts the large limit in force when N is big - N as written,
        or the argument that the caller hands in for the parameter N of the helper the call sits in - and takes it back otherwise"""
        def sets(mod, call: ast.Call, env, fn):
            if not (H.denotes(mod, call.func, "csv", ("field_size_limit",)) and len(call.args) == 1 and not call.keywords):
                return None
            a = call.args[0]
            if env is not None and isinstance(a, ast.Name) and a.id in env:
                return big(caller_mod, env[a.id], caller)  # the argument is an expression of the caller, read in the caller's module
            return big(mod, a, fn if fn is not None else caller)
        return sets

    n_ctor = 0
    for mod in _exchange_modules(repo):
        for q, f in mod.functions():
            ctors = [c for c in own_nodes(f) if isinstance(c, ast.Call) and H.denotes(mod, c.func, "csv", ("reader", "DictReader"))]
            if not ctors:
                continue
            rep.analysed("%s:%s" % (mod.rel, q))
            g = CFG(f)
            # the statements after which the large limit is in force: csv.field_size_limit(<big>) itself, a call of a helper of the module
            # that leaves it raised, a `with` whose context manager raises it on entry
            owner = H.class_of_function(mod, f)
            raised = []
            for c in own_nodes(f):
                if isinstance(c, ast.Call):
                    par = mod.parent.get(id(c))
                    if H.call_establishes(mod, c, owner, sets_limit(f, mod), isinstance(par, ast.withitem) and par.context_expr is c, repo=repo):
                        raised.append(g.node_of(c, mod))
            for ctor in ctors:
                n_ctor += 1
                st = H.stmt_of(mod, ctor, f)
                if isinstance(st, ast.Assign) and len(st.targets) == 1 and isinstance(st.targets[0], ast.Name) and (
                        st.value is ctor or (isinstance(st.value, ast.Call) and norm(st.value.func) in ("iter", "enumerate") and st.value.args and st.value.args[0] is ctor)):
                    nm = st.targets[0].id
                    uses = [x for x in own_nodes(f, include_nested=True) if isinstance(x, ast.Name) and x.id == nm and isinstance(x.ctx, ast.Load)]
                    if not uses:
                        raise AnalysisError("%s:%s: the csv reader is built but its use was not found" % (mod.rel, q))
                else:
                    uses = [ctor]  # consumed (or handed on) where it is built
                for u in uses:
                    at = g.node_of(u, mod)
                    ok = bool(raised) and g.must_pass_before(at, raised)
                    where = H.stmt_of(mod, u, f)
                    if isinstance(where, (ast.For, ast.AsyncFor)):
                        head = "for %s in %s" % (norm(where.target), norm(where.iter))
                    elif isinstance(where, (ast.While, ast.If)):
                        head = norm(where.test)
                    else:
                        head = norm(where) if where is not None and not isinstance(where, (ast.With, ast.Try)) else norm(u)
                    rep.ob(RULE, mod, q, "csv reader consumed: %s" % head[:120], ok,
                           "after csv.field_size_limit(<largest portable value>)" if ok else
                           "the csv reader is consumed under the csv module's default field limit of 128 KiB: a bound term longer than that, written by the CSV serializer "
                           "as one field, makes Result.parse(format='csv') raise _csv.Error", node=u)
    if n_ctor == 0:
        raise AnalysisError("no csv.reader in the modules that read SPARQL results")


# ---------------------------------------------------------------------------------------------------------------- (v)
def rule_v_json_source_not_transcoded(repo: Repo, rep: Report) -> None:
    """F216.  json.loads(bytes) detects UTF-8/-16/-32 itself; a `.decode('utf-8')` in front of it undoes that for exactly
    the encodings the sibling serializer can be asked for (encoding='utf-16')."""
    from vlib import h_c16 as H
    from vlib.cfg import CFG, reaching_defs

    RULE = "C16.v-json-source-not-transcoded"
    rep.rule(RULE,
             "wherever SPARQL results are read, what reaches json.loads / json.load is what was read from the source: on no def-use path has it been passed through a "
             "decoding under a fixed codec (x.decode(...), str(x, enc), codecs.decode, a TextIOWrapper / codecs reader) - json.loads detects the Unicode encoding of "
             "bytes (UTF-8, -16, -32, with or without BOM), while .decode('utf-8') raises UnicodeDecodeError on what JSONResultSerializer writes for encoding='utf-16'", floor=2)

    def transcodes(mod, n: ast.AST) -> bool:
        if not isinstance(n, ast.Call):
            return False
        if any(isinstance(x, (ast.Name, ast.Attribute)) and norm(x).split(".")[-1] == "detect_encoding" for a in list(n.args) + [k.value for k in n.keywords] for x in ast.walk(a)):
            return False
        if isinstance(n.func, ast.Attribute) and n.func.attr == "decode":
            return True
        if isinstance(n.func, ast.Name) and n.func.id == "str" and (len(n.args) >= 2 or any(k.arg in ("encoding", "errors") for k in n.keywords)):
            return True
        last = norm(n.func).split(".")[-1]
        return last in ("TextIOWrapper", "getreader", "StreamReader", "EncodedFile") or H.denotes(mod, n.func, "codecs", ("decode", "open", "iterdecode"))

    n_sites = 0
    for mod in _exchange_modules(repo):
        for q, f in mod.functions():
            g = None
            for c in own_nodes(f):
                if not (isinstance(c, ast.Call) and H.denotes(mod, c.func, "json", ("loads", "load")) and c.args):
                    continue
                n_sites += 1
                rep.analysed("%s:%s" % (mod.rel, q))
                if g is None:
                    g = CFG(f)
                bad: list = []
                seen: set = set()
                work = [(c.args[0], g.node_of(c, mod))]
                while work:
                    e, at = work.pop()
                    for x in ast.walk(e):
                        if transcodes(mod, x):
                            bad.append(x)
                        if isinstance(x, ast.Name) and isinstance(x.ctx, ast.Load) and (x.id, at) not in seen:
                            seen.add((x.id, at))
                            for d in reaching_defs(g, at, x.id):
                                st = g.nodes[d].ast
                                if d != g.entry and isinstance(st, (ast.Assign, ast.AnnAssign)) and st.value is not None:
                                    work.append((st.value, d))
                rep.ob(RULE, mod, q, c, not bad, "the source's own text" if not bad else
                       "the JSON text passes through `%s` before json.loads: a result serialised with encoding='utf-16' (or utf-32), which json.loads alone would read, raises "
                       "UnicodeDecodeError" % norm(bad[0])[:60], node=bad[0] if bad else c)
    if n_sites == 0:
        raise AnalysisError("no json.loads / json.load where SPARQL results are read")


# ---------------------------------------------------------------------------------------------------------------- (w)
def rule_w_json_escaped_for_non_unicode_encoding(repo: Repo, rep: Report) -> None:
    """F217.  JSON has no encoding declaration: its readers detect UTF-8/-16/-32 only.  A text that is encoded with any other
    codec is readable only if it is pure ASCII, i.e. was dumped with ensure_ascii on."""
    from vlib import h_c16 as H
    import codecs as _codecs

    RULE = "C16.w-json-escaped-for-non-unicode-encoding"
    rep.rule(RULE,
             "in the result writers, a text produced by json.dumps and then encoded - <text>.encode(E) - with an encoding E the caller chooses is dumped with ensure_ascii "
             "absent / True / an expression computed from E; never the constant False (and with a constant non-UTF E never False either): serialize(format='json', "
             "encoding='latin-1') of Literal('caf\\u00e9') otherwise writes the byte E9, which no JSON reader can detect or decode", floor=1)
    for short in RESULT_READERS + ("txtresults",):
        mod = repo.mod(RESULTS_PKG + short)
        for q, f in mod.functions():
            for c in own_nodes(f):
                if not (isinstance(c, ast.Call) and H.denotes(mod, c.func, "json", ("dumps",))):
                    continue
                encs = []
                par = mod.parent.get(id(c))
                if isinstance(par, ast.Attribute) and par.attr == "encode" and isinstance(mod.parent.get(id(par)), ast.Call):
                    encs.append(mod.parent[id(par)])
                st = H.stmt_of(mod, c, f)
                if isinstance(st, (ast.Assign, ast.AnnAssign)) and st.value is c:
                    tg = st.targets if isinstance(st, ast.Assign) else [st.target]
                    held = {t.id for t in tg if isinstance(t, ast.Name)}
                    encs += [x for x in own_nodes(f) if isinstance(x, ast.Call) and isinstance(x.func, ast.Attribute) and x.func.attr == "encode"
                             and isinstance(x.func.value, ast.Name) and x.func.value.id in held]
                kw = [k.value for k in c.keywords if k.arg == "ensure_ascii"]
                for e in encs:
                    rep.analysed("%s:%s" % (mod.rel, q))
                    E = e.args[0] if e.args else next((k.value for k in e.keywords if k.arg == "encoding"), None)
                    const_false = bool(kw) and isinstance(kw[0], ast.Constant) and not kw[0].value
                    if E is None:
                        ok, why = True, "encoded as UTF-8"
                    elif H.const_str(E) is not None:
                        try:
                            uni = _codecs.lookup(H.const_str(E)).name.startswith("utf")
                        except LookupError:
                            uni = False
                        ok, why = uni or not const_false, "a Unicode encoding, or escaped"
                    elif not kw or (isinstance(kw[0], ast.Constant) and kw[0].value):
                        ok, why = True, "every non-ASCII character is escaped"
                    elif const_false:
                        ok, why = False, "ensure_ascii=False whatever the encoding"
                    else:
                        dep = H.names_in(kw[0]) & H.derived_names(f, H.names_in(E))
                        ok, why = bool(dep), "ensure_ascii is computed from the encoding (%s)" % ", ".join(sorted(dep)) if dep else "ensure_ascii=%s does not depend on the encoding %s" % (norm(kw[0])[:40], norm(E))
                    rep.ob(RULE, mod, q, "%s ... %s" % (norm(c)[:90], norm(e)[:60]), ok, why if ok else
                           why + ": for a non-Unicode encoding (latin-1, cp1252, ...) the non-ASCII characters of literals are written as raw bytes of that codec, which "
                           "json.loads / any JSON reader rejects or misreads", node=c)


# ---------------------------------------------------------------------------------------------------------------- (x)
def rule_x_carriage_return_dropped_before_grammar(repo: Repo, rep: Report) -> None:
    """F218.  A TSV document may end its lines in CR LF; readline() keeps both, the grammar knows neither as whitespace
    (setDefaultWhitespaceChars(' \\n')) nor inside a term: the CR has to go before the text is parsed."""
    from vlib import h_c16 as H

    RULE = "C16.x-carriage-return-dropped-before-grammar"
    rep.rule(RULE,
             "in the result readers, a text that comes from a line-wise read (<src>.readline(), next(), iteration) and is handed to <element>.parse_string() has lost a "
             "trailing carriage return on every def-use path: through .strip()/.rstrip() without argument or with one containing '\\r', .removesuffix/.replace of "
             "'\\r', or `if t.endswith('\\r'): t = t[:-1]` that every path passes after the last other binding. '?x\\r\\n<a>\\r\\n' is a conformant TSV document; with "
             "the CR left on the row the grammar raises ParseException", floor=2)
    n = 0
    for short in RESULT_READERS:
        mod = repo.mod(RESULTS_PKG + short)
        for q, f in mod.functions():
            for c in own_nodes(f):
                if not (isinstance(c, ast.Call) and isinstance(c.func, ast.Attribute) and c.func.attr in ("parse_string", "parseString") and c.args):
                    continue
                tr = H.LineTrace(mod, f)
                ok = tr.cr_free(c.args[0], tr.g.node_of(c, mod))
                if "readline" not in tr.sources:
                    continue
                n += 1
                rep.analysed("%s:%s" % (mod.rel, q))
                rep.ob(RULE, mod, q, c, ok, "the carriage return of a CR LF line end is removed first" if ok else
                       "the line reaches %s.parse_string with the carriage return of a CR LF line end still on it: every row of a TSV document with CR LF line ends "
                       "raises ParseException" % norm(c.func.value), node=c)
    if n == 0:
        raise AnalysisError("no parse_string on a line read with readline() in the result readers")


# ---------------------------------------------------------------------------------------------------------------- (y)
def rule_y_table_without_variables(repo: Repo, rep: Report) -> None:
    """F219.  SELECT * {} has no variables and one solution: CSV/TSV render it as an empty header line and one empty line.
    The CSV reader takes that (next(reader) == []); the TSV reader must not hand the empty header to a grammar that wants a variable,
    and must not skip the empty lines that ARE the rows."""
    from vlib import h_c16 as H

    RULE = "C16.y-table-without-variables"
    rep.rule(RULE,
             "in the line-oriented result readers (1) the statement that sets .vars from <HEADER>.parse_string(text) is control-dependent on a test of that text (the "
             "empty header line is a table without variables), unless the header element can match the empty string - Var + ZeroOrMore(tab + Var) cannot; (2) the "
             "test under which an empty record is skipped is false both for a table with 0 and with 1 variable: there the empty line is the row ('\\n\\n' is SELECT * {} "
             "with its one solution, as the CSV reader reads it)", floor=2)
    n1 = n2 = 0
    for short in RESULT_READERS:
        mod = repo.mod(RESULTS_PKG + short)
        for q, f in mod.functions():
            prm = H.params(f)
            # (1)
            for st in own_nodes(f):
                if not (isinstance(st, (ast.Assign, ast.AnnAssign)) and st.value is not None):
                    continue
                tg = st.targets if isinstance(st, ast.Assign) else [st.target]
                if not any(isinstance(t, ast.Attribute) and t.attr == "vars" for t in tg):
                    continue
                for c in ast.walk(st.value):
                    if not (isinstance(c, ast.Call) and isinstance(c.func, ast.Attribute) and c.func.attr in ("parse_string", "parseString") and c.args):
                        continue
                    n1 += 1
                    rep.analysed("%s:%s" % (mod.rel, q))
                    if H.grammar_nullable(repo, mod, c.func.value):
                        rep.ob(RULE, mod, q, c, True, "%s can match the empty header" % norm(c.func.value), node=c)
                        continue
                    text_names = (_feeds(f, H.names_in(c.args[0])) - prm)
                    text_names |= H.derived_names(f, text_names) - prm
                    guards = [t for t in H.guard_tests(mod, st, f) if H.names_in(t) & text_names]
                    rep.ob(RULE, mod, q, c, bool(guards), "only under a test of the header text: %s" % norm(guards[0])[:60] if guards else
                           "%s needs at least one variable and is applied to the header line unconditionally: the table without variables (an empty header line, what "
                           "SELECT * {} gives and the CSV reader accepts) raises ParseException" % norm(c.func.value), node=c)
            # (2)
            var_lists = {t.id for a in own_nodes(f) if isinstance(a, ast.Assign) and isinstance(a.value, ast.Attribute) and a.value.attr == "vars" for t in a.targets if isinstance(t, ast.Name)}

            def is_vars(e: ast.AST) -> bool:
                return (isinstance(e, ast.Attribute) and e.attr == "vars") or (isinstance(e, ast.Name) and e.id in var_lists)

            counts = {t.id for a in own_nodes(f) if isinstance(a, ast.Assign) and isinstance(a.value, ast.Call) and norm(a.value.func) == "len" and a.value.args
                      and is_vars(a.value.args[0]) for t in a.targets if isinstance(t, ast.Name)}

            def is_count(e: ast.AST) -> bool:
                return (isinstance(e, ast.Call) and norm(e.func) == "len" and len(e.args) == 1 and is_vars(e.args[0])) or (isinstance(e, ast.Name) and e.id in counts)

            # the ways in which a pass of the row loop does not reach the statement that records the row (a `continue` is taken, or an
            # `if` around that statement goes the other way - vlib.h_c16.skip_ways), on which the record is known to be empty
            seen_ways: set = set()
            for a in own_nodes(f):
                if not (isinstance(a, ast.Call) and isinstance(a.func, ast.Attribute) and a.func.attr == "append"
                        and isinstance(a.func.value, ast.Attribute) and a.func.value.attr == "bindings"):
                    continue
                loop = H.innermost_loop(mod, a, f)
                if loop is None:
                    continue
                variant = H.bound_in(loop)
                # names of the loop that can hold the record: not the row that is recorded and what is computed from it (rule n's)
                row_names = H.derived_names(loop, H.names_in(a.args[0]) & variant) if a.args else set()
                holders = (variant - row_names) | (H.record_names(loop) & variant)
                for w in H.skip_ways(mod, a, loop, f):
                    key = (id(w.where), tuple((id(l), ng) for l, ng in w.leaves))
                    if key in seen_ways or not H.empty_record_leaves(w, variant, holders):
                        continue
                    seen_ways.add(key)
                    n2 += 1
                    cnt = [(l, ng) for l, ng in w.leaves if isinstance(l, ast.Compare) and any(is_count(x) for x in [l.left] + l.comparators)]
                    verdicts = {}
                    for nvars in (0, 1):
                        vals = [H.eval_count_test(l, is_count, nvars) for l, _ng in cnt]
                        if any(v is None for v in vals):
                            raise AnalysisError("%s:%s: the test on the number of variables `%s` is not a comparison with integer constants" % (mod.rel, q, " and ".join(norm(l) for l, _ng in cnt)[:80]))
                        verdicts[nvars] = bool(cnt) and not all(v != ng for v, (_l, ng) in zip(vals, cnt))  # a conjunct is false: the skip cannot happen
                    ok = verdicts[0] and verdicts[1]
                    lost = [k for k in (0, 1) if not verdicts[k]]
                    how = "if %s: continue" if isinstance(w.where, ast.Continue) else "the row is passed over if %s"
                    rep.ob(RULE, mod, q, "skip of an empty record: " + how % w.text()[:120], ok,
                           "never in a table with 0 or 1 variable" if ok else
                           "an empty record is skipped in a table with %s variable(s), where the empty line is a row: %s" % (
                               " or ".join(str(k) for k in lost), "'\\n\\n' (SELECT * {} with one solution) is read as a table without rows" if 0 in lost else "'?x\\n\\n' loses the row that leaves ?x unbound"), node=w.where)
    if n1 == 0:
        raise AnalysisError("no <x>.vars = <HEADER>.parse_string(...) in the result readers")
    if n2 == 0:
        raise AnalysisError("no skip of an empty record in the row loop of a line-oriented result reader (the TSV reader skipped '' when the table has more than one variable)")
