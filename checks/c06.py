"""C06 - quad syntaxes round-trip a Dataset: necessary structural clauses (DESIGN.md §2 C06)."""
from __future__ import annotations

import ast

from vlib import truthy
from vlib.core import AnalysisError, Repo, Report, norm, own_nodes

EXPLANATION = (
    "(a) no context folding: inside the quad serializers (nquads, trig, trix, json-ld, hext, patch) no statement copies the "
    "triples of a context enumerated from the source into a graph that was created/selected outside that loop (which "
    "would emit them under another graph's name); (b) in the quad serializers and quad parsers a graph / graph name that "
    "may be None is tested by identity, never by truthiness (an empty graph or a default-graph marker is falsy); "
    "(c) the TriX reader resets its per-graph state when a graph element ends, so an unnamed graph never inherits the "
    "previous graph; (d) RDF Patch: delete rows address exactly one graph (get_context(name) or the default context), "
    "never the whole dataset. Value-level round trip and the RDF Patch diff algebra are not decided."
)

QUAD_SER = ("nquads", "trig", "trix", "jsonld", "hext", "patch")
QUAD_PAR = ("nquads", "trig", "trix", "jsonld", "hext", "patch")


def run(repo: Repo, rep: Report) -> None:
    rep.extra["explanation"] = EXPLANATION
    typed = repo.typed

    # ------------------------------------------------------------------ (a)
    rep.rule("C06.a-no-context-folding",
             "in a quad serializer, a graph-to-graph copy (`X += g`, X.addN/add in a loop over g) whose data comes from the loop "
             "variable of an enumeration of the source's contexts never targets a graph X defined outside that loop", floor=3)
    n_loops = 0
    for name in QUAD_SER:
        mod = repo.mod("rdflib.plugins.serializers." + name)
        for q, f in mod.functions():
            if "." in q and isinstance(mod.defs.get(q.rsplit(".", 1)[0]), ast.FunctionDef):
                continue
            rep.analysed("%s:%s" % (mod.rel, q))
            # names bound to an enumeration of contexts
            ctx_lists = set()
            for n in own_nodes(f):
                if isinstance(n, ast.Assign) and isinstance(n.targets[0], (ast.Name, ast.Attribute)):
                    if any(isinstance(c, ast.Call) and isinstance(c.func, ast.Attribute) and c.func.attr in ("contexts", "graphs") for c in ast.walk(n.value)):
                        ctx_lists.add(norm(n.targets[0]))
            for loop in [n for n in own_nodes(f) if isinstance(n, ast.For)]:
                it = loop.iter
                is_ctx_enum = any(isinstance(c, ast.Call) and isinstance(c.func, ast.Attribute) and c.func.attr in ("contexts", "graphs") for c in ast.walk(it)) \
                    or norm(it) in ctx_lists or (isinstance(it, ast.Call) and it.args and norm(it.args[0]) in ctx_lists)
                if not is_ctx_enum or not isinstance(loop.target, ast.Name):
                    continue
                n_loops += 1
                g = loop.target.id
                assigned_in_loop = {t.id for s in loop.body for n in ast.walk(s) if isinstance(n, ast.Assign) for t in n.targets if isinstance(t, ast.Name)}
                folds = []
                for s in loop.body:
                    for n in ast.walk(s):
                        tgt = None
                        if isinstance(n, ast.AugAssign) and isinstance(n.op, ast.Add) and any(isinstance(x, ast.Name) and x.id == g for x in ast.walk(n.value)):
                            tgt = n.target
                        if isinstance(n, ast.Call) and isinstance(n.func, ast.Attribute) and n.func.attr in ("addN", "__iadd__") \
                                and any(isinstance(x, ast.Name) and x.id == g for a in n.args for x in ast.walk(a)):
                            tgt = n.func.value
                        if tgt is None:
                            continue
                        root = tgt
                        while isinstance(root, (ast.Attribute, ast.Subscript)):
                            root = root.value
                        # a target (re)created for this context inside the loop *before* the copy, on every path, is not a fold
                        defined_outside = not (isinstance(root, ast.Name) and root.id in assigned_in_loop and _assigned_unconditionally_before(loop, root.id, n))
                        if defined_outside:
                            folds.append((n, norm(tgt)))
                if folds:
                    for n, t in folds:
                        rep.ob("C06.a-no-context-folding", mod, q, n, False,
                               "the triples of each enumerated context %s are copied into %s, which exists across iterations: those contexts are emitted under %s's name, not their own" % (g, t, t), node=n)
                else:
                    rep.ob("C06.a-no-context-folding", mod, q, "for %s in %s" % (g, norm(it)[:60]), True, "each context is emitted on its own", node=loop)
    if n_loops < 3:
        raise AnalysisError("expected >= 3 context enumerations in quad serializers, found %d" % n_loops)

    # ------------------------------------------------------------------ (b)
    rep.rule("C06.b-graph-names-by-identity",
             "in quad serializers and quad parsers, a graph or graph name that may be None is tested by identity, never by truthiness", floor=2)
    for kind, names in (("serializers", QUAD_SER), ("parsers", QUAD_PAR)):
        for name in names:
            mod = repo.mod("rdflib.plugins.%s.%s" % (kind, name))
            for q, f in mod.functions():
                if "." in q and isinstance(mod.defs.get(q.rsplit(".", 1)[0]), ast.FunctionDef):
                    continue
                before = len(rep.instances)
                truthy.scan(repo, rep, "C06.b-graph-names-by-identity", mod, f, q)
                # keep only graph-domain hits (term truthiness belongs to other properties)
                kept = [i for i in rep.instances[before:] if "Graph" in i["detail"]]
                dropped = [i for i in rep.instances[before:] if i not in kept]
                rep.instances[before:] = kept
                rep.findings[:] = [x for x in rep.findings if x not in dropped]

    # (b2) optional keyword arguments that are graphs by use
    rep.rule("C06.b2-untyped-graph-arguments-by-identity",
             "a value read from **kwargs (untyped) that is used as a graph (operand of +/- with the store, receiver of "
             ".contexts()/.quads(), or passed to a method that uses it so) is tested with `is None`, not by truthiness", floor=1)
    for name in QUAD_SER:
        mod = repo.mod("rdflib.plugins.serializers." + name)
        for q, f in mod.functions():
            if "." in q and isinstance(mod.defs.get(q.rsplit(".", 1)[0]), ast.FunctionDef):
                continue
            kw = {n.targets[0].id for n in own_nodes(f) if isinstance(n, ast.Assign) and isinstance(n.targets[0], ast.Name) and isinstance(n.value, ast.Call)
                  and isinstance(n.value.func, ast.Attribute) and n.value.func.attr == "get" and norm(n.value.func.value) in ("kwargs", "args", "kw")}
            if not kw:
                continue
            cls = q.rsplit(".", 1)[0] if "." in q else None

            def graph_by_use(var: str, fn: ast.AST, depth: int = 0) -> bool:
                for n in own_nodes(fn, include_nested=True):
                    if isinstance(n, ast.BinOp) and isinstance(n.op, (ast.Sub, ast.Add)):
                        ops = [norm(n.left), norm(n.right)]
                        if var in ops and any("store" in o for o in ops):
                            return True
                    if isinstance(n, ast.Call) and isinstance(n.func, ast.Attribute) and n.func.attr in ("contexts", "quads", "graphs", "triples") and norm(n.func.value) == var:
                        return True
                    if depth < 3 and isinstance(n, ast.Call) and isinstance(n.func, ast.Name):
                        # a helper defined inside the function
                        for h in own_nodes(fn, include_nested=True):
                            if isinstance(h, ast.FunctionDef) and h.name == n.func.id and h is not fn:
                                for i, a in enumerate(n.args):
                                    if norm(a) == var and i < len(h.args.args) and graph_by_use(h.args.args[i].arg, h, depth + 1):
                                        return True
                    if depth < 2 and isinstance(n, ast.Call) and isinstance(n.func, ast.Attribute) and isinstance(n.func.value, ast.Name) and n.func.value.id == "self" and cls:
                        callee = mod.defs.get("%s.%s" % (cls, n.func.attr))
                        if isinstance(callee, ast.FunctionDef):
                            for i, a in enumerate(n.args):
                                if norm(a) == var and i + 1 < len(callee.args.args):
                                    if graph_by_use(callee.args.args[i + 1].arg, callee, depth + 1):
                                        return True
                return False

            for v in sorted(kw):
                if not graph_by_use(v, f):
                    continue
                for e, owner, kind in truthy.bool_contexts(f):
                    if isinstance(e, ast.Name) and e.id == v:
                        rep.ob("C06.b2-untyped-graph-arguments-by-identity", mod, q, "%s [in %s: %s]" % (v, kind, norm(getattr(owner, "test", owner))[:60]), False,
                               "%s is used as a graph/dataset but tested by truthiness: an empty dataset is treated as `not given`" % v, node=e)
                for n in own_nodes(f, include_nested=True):
                    if isinstance(n, ast.Compare) and isinstance(n.left, ast.Name) and n.left.id == v and isinstance(n.ops[0], (ast.Is, ast.IsNot)):
                        rep.ob("C06.b2-untyped-graph-arguments-by-identity", mod, q, n, True, "%s tested by identity" % v, node=n)

    # ------------------------------------------------------------------ (c)
    rep.rule("C06.c-trix-graph-state-reset",
             "TriXHandler: the current-graph attribute that start handlers lazily create (`if self.graph is None: self.graph = Graph(...)`) "
             "is reset to None when a graph element ends", floor=1)
    tx = repo.mod("rdflib.plugins.parsers.trix")
    start = tx.func("TriXHandler.startElementNS")
    end = tx.func("TriXHandler.endElementNS")
    lazy = set()
    for n in own_nodes(start):
        if isinstance(n, ast.If) and isinstance(n.test, ast.Compare) and isinstance(n.test.ops[0], ast.Is) and isinstance(n.test.comparators[0], ast.Constant) \
                and n.test.comparators[0].value is None and norm(n.test.left).startswith("self."):
            attr = norm(n.test.left)
            if any(isinstance(s, ast.Assign) and norm(s.targets[0]) == attr for s in n.body):
                lazy.add(attr)
    if not lazy:
        raise AnalysisError("TriXHandler.startElementNS: lazy per-graph state not found")
    for attr in sorted(lazy):
        ok = False
        for n in own_nodes(end):
            if isinstance(n, ast.If) and "'graph'" in norm(n.test):
                if any(isinstance(s, ast.Assign) and norm(s.targets[0]) == attr and isinstance(s.value, ast.Constant) and s.value.value is None for s in n.body):
                    ok = True
        rep.ob("C06.c-trix-graph-state-reset", tx, "TriXHandler.endElementNS", "%s = None at </graph>" % attr, ok,
               "reset when the graph element ends" if ok else "%s survives the end of a graph element: the triples of a following unnamed graph land in the previous graph" % attr, node=end)

    # ------------------------------------------------------------------ (d)
    rep.rule("C06.d-patch-delete-is-graph-scoped",
             "RDF Patch parser: every removal addresses one graph view (get_context(name) / default_context), never the dataset "
             "object itself (Dataset.remove with no graph removes from every graph)", floor=1)
    pp = repo.mod("rdflib.plugins.parsers.patch")
    nrem = 0
    for q, f in pp.functions():
        for c in own_nodes(f):
            if isinstance(c, ast.Call) and isinstance(c.func, ast.Attribute) and c.func.attr == "remove":
                tf = typed.type_of(pp.name, c.func.value)
                recv = norm(c.func.value)
                if tf is None and "sink" not in recv and "context" not in recv:
                    continue
                nrem += 1
                is_ds = (tf is not None and any(typed.is_subclass(i, "rdflib.graph.ConjunctiveGraph") for i in tf.items)) or recv in ("self.sink",)
                view = recv.endswith(".default_context") or ".get_context(" in recv or ".graph(" in recv
                ok = view or not is_ds
                rep.ob("C06.d-patch-delete-is-graph-scoped", pp, q, c, ok,
                       "removes from one graph view" if ok else "removes through the dataset object %s: a delete row without a graph name removes the triple from every graph" % recv, node=c)
    if nrem < 1:
        raise AnalysisError("RDF Patch parser: expected a remove site, found %d" % nrem)

    # ------------------------------------------------------------------ (e)
    rep.rule("C06.e-trig-graph-label-is-a-reference",
             "TriG serializer: the Turtle writer abbreviates a blank node as `[ ... ]` when its reference count is at most 1 (p_squared); a blank node that "
             "labels a graph block keeps its label there, so preprocess counts the label as a reference of that node for every graph it writes - otherwise "
             "a statement whose object is the blank-node name of a graph is written with an anonymous node and the link to the graph is lost", floor=2)
    tg = repo.mod("rdflib.plugins.serializers.trig")
    tu = repo.mod("rdflib.plugins.serializers.turtle")
    psq = tu.func("TurtleSerializer.p_squared")
    uses_count = any(isinstance(n, ast.Compare) and "_references[" in norm(n.left) for n in own_nodes(psq))
    rep.ob("C06.e-trig-graph-label-is-a-reference", tu, "TurtleSerializer.p_squared", "inlining is decided by self._references[node]", True,
           "reference-count based inlining" if uses_count else "p_squared no longer inlines by reference count: the label obligation below is moot", node=psq)
    pre = tg.func("TrigSerializer.preprocess")
    loops = [n for n in own_nodes(pre) if isinstance(n, ast.For) and "contexts" in norm(n.iter)]
    if not loops:
        raise AnalysisError("TrigSerializer.preprocess: loop over the contexts not found")
    if uses_count:
        lp = loops[0]
        cvar = norm(lp.target)
        hit = None
        for st in lp.body:  # top level of the loop body: executed for every context that is not skipped
            cand = [st] if isinstance(st, (ast.AugAssign, ast.Assign)) else ([x for x in st.body if isinstance(x, (ast.AugAssign, ast.Assign))] if isinstance(st, ast.If) and not st.orelse and "BNode" in norm(st.test) else [])
            for x in cand:
                tgt = x.target if isinstance(x, ast.AugAssign) else x.targets[0]
                if isinstance(tgt, ast.Subscript) and norm(tgt.value).endswith("_references") and norm(tgt.slice) == "%s.identifier" % cvar:
                    hit = x
        rep.ob("C06.e-trig-graph-label-is-a-reference", tg, "TrigSerializer.preprocess", hit if hit is not None else "self._references[%s.identifier] is incremented per written graph" % cvar,
               hit is not None, "graph label counted" if hit is not None else
               "the graph label is not counted as a reference: `<s> <p> _:g` inside one graph, with _:g also the name of another graph, is written as `<s> <p> [ ]` while the graph block keeps `_:g {`: after parsing, the object and the graph name are different blank nodes", node=hit or pre)


def _assigned_unconditionally_before(loop: ast.For, name: str, site: ast.AST) -> bool:
    for s in loop.body:
        if any(site is x for x in ast.walk(s)):
            return False
        if isinstance(s, ast.Assign) and any(isinstance(t, ast.Name) and t.id == name for t in s.targets):
            return True
    return False


_run_base = run


def run(repo: Repo, rep: Report) -> None:  # noqa: F811
    _run_base(repo, rep)
    from vlib import argswap

    rep.rule("C06.f-no-swapped-graph-arguments",
             "in the quad parsers and serializers (where `dataset`, `graph`, `context` arguments all have type Graph), a call that passes two local names which are also parameter "
             "names of the resolved callee passes each at its own parameter's position: `self._to_object(graph, dataset, ...)` for `_to_object(self, dataset, graph, ...)` type-checks "
             "and makes nested values land in the dataset-wide graph instead of the named graph", floor=20)
    mods = sorted(m for m in repo.modules if m.startswith("rdflib.plugins.parsers.") or m.startswith("rdflib.plugins.serializers.") or m.startswith("rdflib.plugins.shared.jsonld."))
    argswap.scan(repo, rep, "C06.f-no-swapped-graph-arguments", mods)


_run_base2 = run


def run(repo: Repo, rep: Report) -> None:  # noqa: F811
    _run_base2(repo, rep)
    typed = repo.typed
    # ------------------------------------------------------------------ (g)
    rep.rule("C06.g-rows-of-a-graph-come-from-its-own-view",
             "a quad serializer enumerates the triples of one graph through that graph's view (iterating the Graph / graph.triples(...)); it does not ask the DATASET for "
             "`triples(pattern, context=g)`: ConjunctiveGraph.triples widens the default graph to the union of all graphs when default_union is on, so every named-graph triple "
             "would also be written into the default graph", floor=1)
    n_ser = 0
    for name in QUAD_SER:
        mod = repo.mod("rdflib.plugins.serializers." + name)
        for q, f in mod.functions():
            for c in own_nodes(f):
                if isinstance(c, ast.Call) and isinstance(c.func, ast.Attribute) and c.func.attr in ("triples", "triples_choices") and any(k.arg == "context" for k in c.keywords):
                    tf = typed.type_of(mod.name, c.func.value)
                    is_ds = tf is not None and any(typed.is_subclass(i, "rdflib.graph.ConjunctiveGraph") for i in tf.items) or norm(c.func.value) in ("self.store",) and tf is None
                    # in serializers `self.store` is the graph being written (a Dataset for quad formats)
                    if norm(c.func.value) == "self.store" or is_ds:
                        n_ser += 1
                        rep.ob("C06.g-rows-of-a-graph-come-from-its-own-view", mod, q, c, False,
                               "%s asks the dataset for the triples of one context: with default_union=True the default graph's rows are the union of all graphs" % norm(c)[:70], node=c)
        n_ser += 1
        rep.ob("C06.g-rows-of-a-graph-come-from-its-own-view", mod, "<module>", "graphs are enumerated through their own views in %s" % mod.rel, True, "", node=mod.tree)


_run_base3 = run


def run(repo: Repo, rep: Report) -> None:  # noqa: F811
    _run_base3(repo, rep)
    rep.rule("C06.h-trix-unnamed-graph-is-a-fresh-blank-node-graph",
             "the TriX writer names the default graph explicitly (<uri>) and writes a blank-node-named graph WITHOUT a name element; the TriX reader therefore gives a <graph> "
             "element without a name a graph of its own with a fresh blank-node identifier (Graph(store=...) without identifier), never the dataset's default graph - otherwise "
             "blank-node-named graphs are merged into the default graph on the way back", floor=2)
    ts = repo.mod("rdflib.plugins.serializers.trix")
    wg = ts.func("TriXSerializer._writeGraph")
    named_only_uri = any(isinstance(n, ast.If) and "isinstance" in norm(n.test) and "URIRef" in norm(n.test) and ".identifier" in norm(n.test) for n in own_nodes(wg))
    rep.ob("C06.h-trix-unnamed-graph-is-a-fresh-blank-node-graph", ts, "TriXSerializer._writeGraph", "a name element is written only for IRI-named graphs", named_only_uri,
           "" if named_only_uri else "the writer's naming scheme changed: re-derive the reader's obligation", node=wg)
    tp = repo.mod("rdflib.plugins.parsers.trix")
    sh = tp.func("TriXHandler.startElementNS")
    creations = [c for c in own_nodes(sh) if isinstance(c, ast.Call) and norm(c.func) == "Graph"]
    if not creations:
        raise AnalysisError("TriXHandler.startElementNS: graph creation not found")
    for c in creations:
        ident = [k.value for k in c.keywords if k.arg == "identifier"] + (c.args[1:2] if len(c.args) > 1 else [])
        anon = not ident or (isinstance(ident[0], ast.Call) and norm(ident[0].func) == "BNode" and not ident[0].args)
        named_from_doc = bool(ident) and not anon and "DEFAULT" not in norm(ident[0]).upper()
        ok = anon or named_from_doc
        rep.ob("C06.h-trix-unnamed-graph-is-a-fresh-blank-node-graph", tp, "TriXHandler.startElementNS", c, ok,
               "fresh blank-node graph" if anon else ("named from the document" if named_from_doc else
               "an unnamed <graph> is mapped to %s: every blank-node-named graph the writer produced comes back merged into the default graph" % norm(ident[0])), node=c)


_run_base4 = run


def _is_dataset(typed, modname: str, e: ast.AST) -> bool:
    tf = typed.type_of(modname, e)
    return tf is not None and any(typed.is_subclass(i, "rdflib.graph.ConjunctiveGraph") for i in tf.items)


def _has_type(typed, modname: str, e: ast.AST, base: str) -> bool:
    tf = typed.type_of(modname, e)
    return tf is not None and any(typed.is_subclass(i, base) for i in tf.items)


def run(repo: Repo, rep: Report) -> None:  # noqa: F811
    _run_base4(repo, rep)
    from vlib import h_c06 as H
    from vlib.cfg import CFG

    typed = repo.typed

    # ------------------------------------------------------------------ (i)  F65
    rep.rule("C06.i-no-dataset-set-algebra-in-quad-serializers",
             "a quad serializer never decides which quads two datasets share through Graph set algebra (`a - b`, `a * b`, `a ^ b`, `a & b`) or `quad in <dataset>` on a "
             "ConjunctiveGraph/Dataset operand: those go through ConjunctiveGraph.__contains__ = triples(pattern, context=c), which for a default_union dataset looks for a "
             "default-graph quad in every graph - `ds1.serialize(format='patch', target=ds2)` with ds1 = {<s> <p> <o> <g>}, ds2 = ds1 + {<s> <p> <o>} (default graph), both "
             "default_union, found the new default-graph quad `in` ds1 and wrote no `A` row; the stored quads are compared instead (sets of quads())", floor=7)
    pser = repo.mod("rdflib.plugins.serializers.patch")
    pser.func("PatchSerializer._diff")  # the two-dataset comparison lives here: anchor
    for name in QUAD_SER:
        mod = repo.mod("rdflib.plugins.serializers." + name)
        bad = 0
        for q, f in mod.functions():
            for n in own_nodes(f):
                ops: list[ast.AST] = []
                if isinstance(n, ast.BinOp) and isinstance(n.op, (ast.Sub, ast.Mult, ast.BitXor, ast.BitAnd)):
                    ops = [n.left, n.right]
                elif isinstance(n, ast.Compare) and any(isinstance(o, (ast.In, ast.NotIn)) for o in n.ops):
                    ops = [c for o, c in zip(n.ops, n.comparators) if isinstance(o, (ast.In, ast.NotIn))]
                hit = [o for o in ops if _is_dataset(typed, mod.name, o)]
                if hit:
                    bad += 1
                    rep.ob("C06.i-no-dataset-set-algebra-in-quad-serializers", mod, q, n, False,
                           "%s is a Dataset/ConjunctiveGraph: membership of a quad is decided by triples(pattern, context=c), which widens the default graph to the union of all "
                           "graphs when default_union is on - rows of the patch are dropped" % norm(hit[0]), node=n)
        rep.ob("C06.i-no-dataset-set-algebra-in-quad-serializers", mod, "<module>", "no dataset-level set algebra / membership in %s" % mod.rel, True,
               "" if not bad else "see the sites reported", node=mod.tree)
    d = pser.func("PatchSerializer._diff")
    nset = 0
    for n in own_nodes(d, include_nested=True):
        if isinstance(n, ast.Compare) and any(isinstance(o, (ast.In, ast.NotIn)) for o in n.ops) and not any(_is_dataset(typed, pser.name, c) for c in n.comparators):
            nset += 1
    rep.ob("C06.i-no-dataset-set-algebra-in-quad-serializers", pser, "PatchSerializer._diff", "the difference is taken over plain collections of the stored quads", True,
           "%d membership test(s), none on a dataset" % nset, node=d)

    # ------------------------------------------------------------------ (j)  F64
    rep.rule("C06.j-document-text-trimmed-by-the-formats-white-space-only",
             "in the parsers (all of rdflib.plugins.parsers), text of the document that becomes a term (flows into a call that yields an rdflib.term.Node: URIRef(...), BNode(...), self.get_bnode(...)) is "
             "trimmed only with an explicit character set made of characters that cannot be part of an IRI (XML white space ...): the argument-less str.strip()/lstrip()/rstrip() "
             "removes every Unicode white-space character, so the TriX element <uri>http://example.org/a&#xA0;</uri> came back as <http://example.org/a> (U+00A0, U+2003, U+3000 "
             "are legal ucschar of an IRI and legal in a blank node label)", floor=4)
    for name in QUAD_PAR:
        repo.mod("rdflib.plugins.parsers." + name)  # anchors
    # (every parser module and the JSON-LD helpers are looked at: the same slip in another reader is the same defect)
    for mname in sorted(m for m in repo.modules if m.startswith("rdflib.plugins.parsers.") or m.startswith("rdflib.plugins.shared.jsonld.")):
        mod = repo.mod(mname)
        for q, f in mod.functions():
            for c in own_nodes(f):
                if not (isinstance(c, ast.Call) and isinstance(c.func, ast.Attribute) and c.func.attr in ("strip", "lstrip", "rstrip")):
                    continue
                tf = typed.type_of(mod.name, c.func.value)
                if tf is not None and not tf.any and "builtins.str" not in tf.items:
                    continue
                if not _flows_into_term(repo, mod, f, q, c):
                    continue
                if not c.args and not c.keywords:
                    rep.ob("C06.j-document-text-trimmed-by-the-formats-white-space-only", mod, q, c, False,
                           "argument-less %s() on text that becomes a term: a leading/trailing U+00A0 (or any other Unicode space) of the IRI / label is silently removed" % c.func.attr, node=c)
                    continue
                cs = H.const_str(mod, c.args[0]) if c.args else None
                if cs is None:
                    rep.ob("C06.j-document-text-trimmed-by-the-formats-white-space-only", mod, q, c, True, "explicit character set (not a constant)", node=c)
                    continue
                extra = sorted(set(cs) - H.IRI_ILLEGAL)
                rep.ob("C06.j-document-text-trimmed-by-the-formats-white-space-only", mod, q, c, not extra,
                       "explicit set of characters that cannot occur in an IRI" if not extra else
                       "the trimmed set contains %s, which can begin or end an IRI: such an IRI is changed on the way in" % ", ".join("U+%04X" % ord(x) for x in extra), node=c)

    # ------------------------------------------------------------------ (k)  F147
    rep.rule("C06.k-recursion-over-graph-members-keeps-an-open-set",
             "a quad serializer function that calls itself on values taken from the graph (JSON-LD Converter.to_raw_value on the members of a collection) registers the value it "
             "is expanding in a set before the recursive call (`S.add(x)` on every path to the call) and that set is consulted by a membership test in the function or in a method it "
             "calls: the data can be cyclic (`_:l rdf:first _:l ; rdf:rest rdf:nil` - a list that is its own member), and without the guard serialisation ends in RecursionError", floor=1)
    for name in QUAD_SER:
        mod = repo.mod("rdflib.plugins.serializers." + name)
        for q, f in mod.functions():
            calls = [c for c in own_nodes(f) if H.is_self_call(c, f.name)]
            if not calls:
                continue
            cls = q.rsplit(".", 1)[0] if "." in q else None
            g = CFG(f)
            # membership tests visible from f: in f itself and in the methods of its class it calls (two levels)
            scope = [f]
            if cls and isinstance(mod.defs.get(cls), ast.ClassDef):
                meths = mod.methods(cls)
                for _ in range(2):
                    for fn in list(scope):
                        for c in own_nodes(fn, include_nested=True):
                            if isinstance(c, ast.Call) and isinstance(c.func, ast.Attribute) and norm(c.func.value) == "self" and c.func.attr in meths and meths[c.func.attr] not in scope:
                                scope.append(meths[c.func.attr])
            tested = {norm(cmp) for fn in scope for n in own_nodes(fn, include_nested=True) if isinstance(n, ast.Compare)
                      for o, cmp in zip(n.ops, n.comparators) if isinstance(o, (ast.In, ast.NotIn))}
            for c in calls:
                tgt = g.node_of(c, mod)
                guards = []
                for n in own_nodes(f):
                    if isinstance(n, ast.Expr) and isinstance(n.value, ast.Call) and isinstance(n.value.func, ast.Attribute) and n.value.func.attr == "add" and n.value.args:
                        recv = n.value.func.value
                        shared = norm(recv).startswith("self.") or (isinstance(recv, ast.Name) and any(isinstance(a, ast.Name) and a.id == recv.id for a in list(c.args) + [k.value for k in c.keywords]))
                        if shared and norm(recv) in tested and g.must_pass_before(tgt, [g.node_of(n)]):
                            guards.append(norm(recv))
                rep.ob("C06.k-recursion-over-graph-members-keeps-an-open-set", mod, q, c, bool(guards),
                       "open set %s: added to before the call, tested by membership" % guards[0] if guards else
                       "%s calls itself on values read from the graph and no set that is added to before the call is tested for membership: a list that has one of its own cells (or a "
                       "list it is a member of) as a member is expanded without end (RecursionError)" % f.name, node=c)

    js = repo.mod("rdflib.plugins.serializers.jsonld")

    # ------------------------------------------------------------------ (l)  F151
    rep.rule("C06.l-jsonld-list-cells-are-anonymous-only-if-unused-in-other-graphs",
             "JSON-LD Converter.to_collection folds the cells of an rdf:List into an anonymous @list graph by graph; besides the reference count inside the one graph it therefore "
             "asks the DATASET (the attribute Converter.convert binds when the source is context aware) whether the cell is used, as subject or as object, in another graph and "
             "does not fold then: `_:c rdf:first 1; rdf:rest rdf:nil` in <g1> with `<x> <p> _:c` also in <g2> came back as two different blank nodes", floor=2)
    conv = js.func("Converter.convert")
    if len(conv.args.args) < 2:
        raise AnalysisError("Converter.convert: source parameter not found")
    src = conv.args.args[1].arg
    aware = [n for n in own_nodes(conv) if isinstance(n, ast.If) and any(isinstance(x, ast.Attribute) and x.attr == "context_aware" and norm(x.value) == src for x in ast.walk(n.test))]
    if not aware:
        raise AnalysisError("Converter.convert: the context_aware branch was not found")
    ds_attrs = {norm(s.targets[0]) for n in aware for b in n.body for s in ast.walk(b) if isinstance(s, ast.Assign) and norm(s.targets[0]).startswith("self.")
                and isinstance(s.value, ast.Name) and s.value.id == src}
    tc = js.func("Converter.to_collection")
    if len(tc.args.args) < 3:
        raise AnalysisError("Converter.to_collection: (graph, head) parameters not found")
    gpar = tc.args.args[1].arg
    walks = []
    for w in own_nodes(tc):
        if isinstance(w, ast.While):
            assigned = {t.id for s in ast.walk(w) if isinstance(s, ast.Assign) for t in s.targets if isinstance(t, ast.Name)}
            cur = [x.id for x in ast.walk(w.test) if isinstance(x, ast.Name) and x.id in assigned]
            if cur:
                walks.append((w, cur[0]))
    if not walks:
        raise AnalysisError("Converter.to_collection: the walk over the cells was not found")
    defs = H.local_defs(tc, mutators=True)
    for w, cur in walks:
        def mentions(call: ast.Call) -> set[str]:
            """positions (s/o) at which a lookup names the cursor"""
            pos = set()
            meth = call.func.attr  # type: ignore[attr-defined]
            for i, a in enumerate(call.args):
                if isinstance(a, ast.Tuple):
                    for j, e in enumerate(a.elts):
                        if isinstance(e, ast.Name) and e.id == cur:
                            pos.add("s" if j == 0 else "o" if j == 2 else "p")
                elif isinstance(a, ast.Name) and a.id == cur:
                    if meth in ("subject_predicates", "subjects") or (meth in ("subjects", "predicates") and i == 1):
                        pos.add("o")
                    elif meth in ("predicate_objects", "value", "objects", "predicates"):
                        pos.add("s")
            return pos

        ifs = [n for n in ast.walk(w) if isinstance(n, ast.If) and any(isinstance(s, ast.Return) and (s.value is None or (isinstance(s.value, ast.Constant) and s.value.value is None)) for s in n.body)]
        effective = {id(x) for n in ifs for x in H.expand(n.test, defs)}
        own = [c for c in ast.walk(w) if isinstance(c, ast.Call) and isinstance(c.func, ast.Attribute) and norm(c.func.value) == gpar and id(c) in effective and "o" in mentions(c)]
        if not own:
            raise AnalysisError("Converter.to_collection: the reference count of a cell inside its graph was not found")
        rep.ob("C06.l-jsonld-list-cells-are-anonymous-only-if-unused-in-other-graphs", js, "Converter.to_collection", own[0], True,
               "a cell referenced more than once inside the graph is not folded", node=own[0])
        pos: set[str] = set()
        first = None
        for c in ast.walk(w):
            if isinstance(c, ast.Call) and isinstance(c.func, ast.Attribute) and norm(c.func.value) in ds_attrs and id(c) in effective:
                pos |= mentions(c)
                first = first or c
        ok = {"s", "o"} <= pos
        rep.ob("C06.l-jsonld-list-cells-are-anonymous-only-if-unused-in-other-graphs", js, "Converter.to_collection",
               "the use of the cell in the other graphs of the dataset (as subject and as object) decides a `return None`", ok,
               "dataset consulted through %s" % sorted(ds_attrs)[0] if ok else
               ("the walk folds a cell by looking at one graph only (%s): a blank node that is a list cell in <g1> and is also used in <g2> is written as an anonymous @list member in <g1> and "
                "under its label in <g2> - after parsing they are two different blank nodes" % ("no attribute holds the dataset" if not ds_attrs else "dataset lookups cover %s only" % (sorted(pos) or "nothing"))),
               node=first or w)

    # ------------------------------------------------------------------ (m)  F153
    rep.rule("C06.m-jsonld-list-container-term-only-for-a-foldable-value",
             "JSON-LD Converter.add_to_node: the branch `LIST in term.container` writes a JSON array only when the foldability test (self.to_collection(...) is not None) succeeds and "
             "otherwise writes a node reference under the same key; the reader wraps whatever stands under a @list-container term in a NEW list. Every place that offers LIST as "
             "a container when the term is chosen is therefore governed by the same foldability test - a list whose tail is shared by two lists was written as {\"@id\": \"_:b\"} under "
             "the list term and read back as a one-member list containing _:b", floor=2)
    an = js.func("Converter.add_to_node")

    def is_list_test(e: ast.AST) -> bool:
        return isinstance(e, ast.Compare) and len(e.ops) == 1 and isinstance(e.ops[0], ast.In) and isinstance(e.left, ast.Name) and e.left.id == "LIST"

    branches = [n for n in own_nodes(an) if isinstance(n, ast.If) and is_list_test(n.test)]
    if not branches:
        raise AnalysisError("Converter.add_to_node: the `LIST in term.container` branch was not found")
    adefs = H.local_defs(an)
    fold: set[str] = set()
    for br in branches:
        for n in [x for s in br.body for x in ast.walk(s)]:
            if isinstance(n, ast.If):
                for x in ast.walk(n.test):
                    if isinstance(x, ast.Compare) and isinstance(x.ops[0], ast.IsNot) and isinstance(x.comparators[0], ast.Constant) and x.comparators[0].value is None:
                        for y in H.expand(x.left, adefs):
                            if isinstance(y, ast.Call) and isinstance(y.func, ast.Attribute) and norm(y.func.value) == "self":
                                fold.add(y.func.attr)
    if not fold:
        raise AnalysisError("Converter.add_to_node: the foldability test of the @list branch was not found")
    rep.ob("C06.m-jsonld-list-container-term-only-for-a-foldable-value", js, "Converter.add_to_node", "an array is written under a @list term only if self.%s(...) is not None" % sorted(fold)[0], True,
           "", node=branches[0])
    test_ids = {id(x) for n in own_nodes(an) if isinstance(n, (ast.If, ast.IfExp, ast.While)) for x in ast.walk(n.test) if is_list_test(x) for x in ast.walk(x)}
    offers = [n for n in own_nodes(an) if isinstance(n, ast.Name) and n.id == "LIST" and isinstance(n.ctx, ast.Load) and id(n) not in test_ids]
    if not offers:
        raise AnalysisError("Converter.add_to_node: no place offers LIST as a container for the term lookup")
    for n in offers:
        ok = False
        for t in H.governing_tests(js, n, an):
            for x in ast.walk(t):
                if isinstance(x, ast.Compare) and isinstance(x.ops[0], ast.IsNot) and isinstance(x.comparators[0], ast.Constant) and x.comparators[0].value is None:
                    if any(isinstance(y, ast.Call) and isinstance(y.func, ast.Attribute) and norm(y.func.value) == "self" and y.func.attr in fold for y in H.expand(x.left, adefs)):
                        ok = True
        site = H.stmt_of(js, n)
        rep.ob("C06.m-jsonld-list-container-term-only-for-a-foldable-value", js, "Converter.add_to_node", "LIST offered as container [%s]" % norm(site)[:80], ok,
               "only when the value folds" if ok else
               "a term with a @list container is chosen for any node that has an rdf:first, also when self.%s(...) is None (shared tail, extra properties on a cell): the node reference "
               "written under that term is read back wrapped in a new list" % sorted(fold)[0], node=n)

    # ------------------------------------------------------------------ (n)  F150 a
    rep.rule("C06.n-native-json-value-only-of-a-well-typed-literal",
             "a quad serializer that turns a Literal into a native value with toPython() looks at <literal>.ill_typed and replaces the value (or leaves) when it is set: toPython() of "
             "\"abc\"^^xsd:integer is the literal itself, which the JSON-LD writer emitted as the bare string \"abc\" - read back as a plain string (or with the context's language)", floor=1)
    npy = 0
    for name in QUAD_SER:
        mod = repo.mod("rdflib.plugins.serializers." + name)
        for q, f in mod.functions():
            for c in own_nodes(f):
                if isinstance(c, ast.Call) and isinstance(c.func, ast.Attribute) and c.func.attr == "toPython" and _has_type(typed, mod.name, c.func.value, "rdflib.term.Literal"):
                    npy += 1
                    lit = norm(c.func.value)
                    holder = [t.id for s in own_nodes(f) if isinstance(s, ast.Assign) and s.value is c for t in s.targets if isinstance(t, ast.Name)]
                    ok = False
                    for n in own_nodes(f):
                        if isinstance(n, ast.If) and any(isinstance(x, ast.Attribute) and x.attr == "ill_typed" and norm(x.value) == lit for x in ast.walk(n.test)):
                            for s in [x for b in n.body for x in ast.walk(b)]:
                                if isinstance(s, (ast.Return, ast.Raise)) or (isinstance(s, ast.Assign) and any(isinstance(t, ast.Name) and t.id in holder for t in s.targets)):
                                    ok = True
                    rep.ob("C06.n-native-json-value-only-of-a-well-typed-literal", mod, q, c, ok,
                           "%s.ill_typed replaces the value" % lit if ok else
                           "the value of %s.toPython() is written without a test of %s.ill_typed: \"abc\"^^xsd:integer becomes the bare JSON string \"abc\" and loses its datatype" % (lit, lit), node=c)
    if npy < 1:
        raise AnalysisError("no Literal.toPython() conversion found in the quad serializers")

    # ------------------------------------------------------------------ (o)  F150 b
    rep.rule("C06.o-jsonld-bare-literal-value-considers-the-default-language",
             "JSON-LD Converter.to_raw_value: a literal is returned as a bare JSON value (anything but a {...} value object) only under a condition that depends on the context's "
             "default @language: the reader gives every bare string that language, so \"x\"^^xsd:string written as \"x\" under {\"@language\": \"en\"} came back as \"x\"@en", floor=2)
    rv = js.func("Converter.to_raw_value")
    rdefs = H.local_defs(rv)
    lit_branches = []
    for n in own_nodes(rv):
        if isinstance(n, ast.If) and any(isinstance(x, ast.Call) and norm(x.func) == "isinstance" and len(x.args) == 2 and norm(x.args[1]) == "Literal" for x in ast.walk(n.test)):
            lit_branches.append(n)
    if not lit_branches:
        raise AnalysisError("Converter.to_raw_value: the Literal branch was not found")
    nbare = 0
    for br in lit_branches:
        for r in [x for s in br.body for x in ast.walk(s)]:
            if not isinstance(r, ast.Return) or r.value is None or isinstance(r.value, ast.Dict):
                continue
            nbare += 1
            ok = False
            for t in H.governing_tests(js, r, rv):
                if t is br.test:
                    break
                for x in H.expand(t, rdefs):
                    if isinstance(x, ast.Attribute) and x.attr == "language" and _has_type(typed, js.name, x.value, "rdflib.plugins.shared.jsonld.context.Context"):
                        ok = True
            rep.ob("C06.o-jsonld-bare-literal-value-considers-the-default-language", js, "Converter.to_raw_value", r, ok, "depends on the context's default language" if ok else
                   "a bare value is returned for a literal without looking at the context's default @language: a string value (xsd:string, or an ill-typed literal's lexical form) is read back "
                   "with that language", node=r)
    if nbare < 2:
        raise AnalysisError("Converter.to_raw_value: expected >= 2 bare returns in the Literal branch, found %d" % nbare)

    # ------------------------------------------------------------------ (p)  F152
    rep.rule("C06.p-jsonld-vocab-relative-name-yields-to-the-term-table",
             "JSON-LD Context: expand() looks a name up in the term table before it prefixes @vocab; a method that compacts an IRI to its @vocab-relative name (a return under a "
             "comparison with self.vocab) therefore returns that name only after looking it up in self.terms: with {\"@vocab\": \"http://v/\", \"name\": \"http://other/name\"} the predicate "
             "<http://v/name> was written as \"name\" and read back as <http://other/name>", floor=2)
    cx = repo.mod("rdflib.plugins.shared.jsonld.context")
    ex = cx.func("Context.expand")
    epar = ex.args.args[1].arg if len(ex.args.args) > 1 else None
    premise = any(isinstance(c, ast.Call) and isinstance(c.func, ast.Attribute) and c.func.attr == "get" and norm(c.func.value) == "self.terms" and c.args and norm(c.args[0]) == epar for c in own_nodes(ex))
    rep.ob("C06.p-jsonld-vocab-relative-name-yields-to-the-term-table", cx, "Context.expand", "a name is looked up in self.terms first", True,
           "term table wins over @vocab" if premise else "expand() no longer looks the whole name up in self.terms: the obligation below is moot", node=ex)
    nv = 0
    for mname, f in cx.methods("Context").items():
        fdefs = H.local_defs(f)
        params = {a.arg for a in f.args.args}
        for n in own_nodes(f):
            if not (isinstance(n, ast.If) and any(isinstance(x, ast.Compare) and any(norm(o) == "self.vocab" for o in [x.left] + x.comparators) and isinstance(x.ops[0], ast.Eq) for x in ast.walk(n.test))):
                continue
            for r in [x for s in n.body for x in ast.walk(s)]:
                if not (isinstance(r, ast.Return) and isinstance(r.value, ast.Name) and r.value.id not in params):
                    continue
                nv += 1
                v = r.value.id
                ok = False
                for t in H.governing_tests(cx, r, f):
                    for x in H.expand(t, fdefs):
                        if isinstance(x, ast.Call) and isinstance(x.func, ast.Attribute) and x.func.attr == "get" and norm(x.func.value) == "self.terms" and x.args and norm(x.args[0]) == v:
                            ok = True
                        if isinstance(x, ast.Subscript) and norm(x.value) == "self.terms" and norm(x.slice) == v:
                            ok = True
                        if isinstance(x, ast.Compare) and norm(x.left) == v and any(norm(c) == "self.terms" for c in x.comparators):
                            ok = True
                rep.ob("C06.p-jsonld-vocab-relative-name-yields-to-the-term-table", cx, "Context." + mname, "%s [under %s]" % (norm(r), norm(n.test)), ok or not premise,
                       "the name is looked up in self.terms before it is returned" if ok else
                       "the @vocab-relative name is returned without a look into self.terms: when it is a term that stands for another IRI, the reader expands it to that other IRI", node=r)
    if nv < 1:
        raise AnalysisError("Context: no method returns a @vocab-relative name")


def _flows_into_term(repo: Repo, mod, f: ast.AST, q: str, c: ast.Call) -> bool:
    """Does the value of the expression c become (part of the argument of) a call whose static type is an rdflib term?"""
    typed = repo.typed

    def term_call(x: ast.AST) -> bool:
        return isinstance(x, ast.Call) and (_has_type(typed, mod.name, x, "rdflib.term.Node") or norm(x.func) in ("URIRef", "BNode", "Literal"))

    stmt = None
    for p in mod.parents(c):
        if term_call(p):
            return True
        if isinstance(p, ast.stmt):
            stmt = p
            break
    # one step of def-use: the trimmed text is stored in a local name / self attribute that is later passed to a term constructor
    tgts: list[str] = []
    if isinstance(stmt, ast.Assign):
        tgts = [norm(t) for t in stmt.targets if isinstance(t, (ast.Name, ast.Attribute))]
    elif isinstance(stmt, (ast.AugAssign, ast.AnnAssign)) and isinstance(stmt.target, (ast.Name, ast.Attribute)):
        tgts = [norm(stmt.target)]
    if not tgts:
        return False
    cls = q.rsplit(".", 1)[0] if "." in q else None
    fns = [f]
    if cls and isinstance(mod.defs.get(cls), ast.ClassDef) and any(t.startswith("self.") for t in tgts):
        fns = list(mod.methods(cls).values())
    for fn in fns:
        for x in own_nodes(fn, include_nested=True):
            if term_call(x) and any(isinstance(y, (ast.Name, ast.Attribute)) and norm(y) in tgts for a in list(x.args) + [k.value for k in x.keywords] for y in ast.walk(a)):
                return True
    return False


_run_before_borrow = run


def run(repo: Repo, rep: Report) -> None:  # noqa: F811
    _run_before_borrow(repo, rep)
    from vlib.core import borrow

    borrow(repo, rep, "C06", "C12", ('C12.b2',))
    borrow(repo, rep, "C06", "C02", ('C02.a',))
