"""C06 - quad syntaxes round-trip a Dataset: necessary structural clauses (DESIGN.md §2 C06)."""
from __future__ import annotations

import ast

from vlib import truthy
from vlib.core import AnalysisError, Repo, Report, norm, own_nodes

EXPLANATION = (
    "(a) no context folding: inside the quad serializers (nquads, trig, trix, json-ld, hext, patch) no statement copies the "
    "triples of a context enumerated from the source into a graph that was created/selected outside that loop (which "
    "would emit them under another graph's name); (b) in the quad serializers and quad parsers a graph / graph name that "
    "may be None is tested by identity, never by truthiness (an empty graph or a default-graph marker is falsy); "
    "(c) the TriX reader resets its per-graph state when a graph element ends, so an unnamed graph never inherits the "
    "previous graph; (d) RDF Patch: delete rows address exactly one graph (get_context(name) or the default context), "
    "never the whole dataset. Value-level round trip and the RDF Patch diff algebra are not decided."
)

QUAD_SER = ("nquads", "trig", "trix", "jsonld", "hext", "patch")
QUAD_PAR = ("nquads", "trig", "trix", "jsonld", "hext", "patch")


def run(repo: Repo, rep: Report) -> None:
    rep.extra["explanation"] = EXPLANATION
    typed = repo.typed

    # ------------------------------------------------------------------ (a)
    rep.rule("C06.a-no-context-folding",
             "in a quad serializer, a graph-to-graph copy (`X += g`, X.addN/add in a loop over g) whose data comes from the loop "
             "variable of an enumeration of the source's contexts never targets a graph X defined outside that loop", floor=3)
    n_loops = 0
    for name in QUAD_SER:
        mod = repo.mod("rdflib.plugins.serializers." + name)
        for q, f in mod.functions():
            if "." in q and isinstance(mod.defs.get(q.rsplit(".", 1)[0]), ast.FunctionDef):
                continue
            rep.analysed("%s:%s" % (mod.rel, q))
            # names bound to an enumeration of contexts
            ctx_lists = set()
            for n in own_nodes(f):
                if isinstance(n, ast.Assign) and isinstance(n.targets[0], (ast.Name, ast.Attribute)):
                    if any(isinstance(c, ast.Call) and isinstance(c.func, ast.Attribute) and c.func.attr in ("contexts", "graphs") for c in ast.walk(n.value)):
                        ctx_lists.add(norm(n.targets[0]))
            for loop in [n for n in own_nodes(f) if isinstance(n, ast.For)]:
                it = loop.iter
                is_ctx_enum = any(isinstance(c, ast.Call) and isinstance(c.func, ast.Attribute) and c.func.attr in ("contexts", "graphs") for c in ast.walk(it)) \
                    or norm(it) in ctx_lists or (isinstance(it, ast.Call) and it.args and norm(it.args[0]) in ctx_lists)
                if not is_ctx_enum or not isinstance(loop.target, ast.Name):
                    continue
                n_loops += 1
                g = loop.target.id
                assigned_in_loop = {t.id for s in loop.body for n in ast.walk(s) if isinstance(n, ast.Assign) for t in n.targets if isinstance(t, ast.Name)}
                folds = []
                for s in loop.body:
                    for n in ast.walk(s):
                        tgt = None
                        if isinstance(n, ast.AugAssign) and isinstance(n.op, ast.Add) and any(isinstance(x, ast.Name) and x.id == g for x in ast.walk(n.value)):
                            tgt = n.target
                        if isinstance(n, ast.Call) and isinstance(n.func, ast.Attribute) and n.func.attr in ("addN", "__iadd__") \
                                and any(isinstance(x, ast.Name) and x.id == g for a in n.args for x in ast.walk(a)):
                            tgt = n.func.value
                        if tgt is None:
                            continue
                        root = tgt
                        while isinstance(root, (ast.Attribute, ast.Subscript)):
                            root = root.value
                        # a target (re)created for this context inside the loop *before* the copy, on every path, is not a fold
                        defined_outside = not (isinstance(root, ast.Name) and root.id in assigned_in_loop and _assigned_unconditionally_before(loop, root.id, n))
                        if defined_outside:
                            folds.append((n, norm(tgt)))
                if folds:
                    for n, t in folds:
                        rep.ob("C06.a-no-context-folding", mod, q, n, False,
                               "the triples of each enumerated context %s are copied into %s, which exists across iterations: those contexts are emitted under %s's name, not their own" % (g, t, t), node=n)
                else:
                    rep.ob("C06.a-no-context-folding", mod, q, "for %s in %s" % (g, norm(it)[:60]), True, "each context is emitted on its own", node=loop)
    if n_loops < 3:
        raise AnalysisError("expected >= 3 context enumerations in quad serializers, found %d" % n_loops)

    # ------------------------------------------------------------------ (b)
    rep.rule("C06.b-graph-names-by-identity",
             "in quad serializers and quad parsers, a graph or graph name that may be None is tested by identity, never by truthiness", floor=2)
    for kind, names in (("serializers", QUAD_SER), ("parsers", QUAD_PAR)):
        for name in names:
            mod = repo.mod("rdflib.plugins.%s.%s" % (kind, name))
            for q, f in mod.functions():
                if "." in q and isinstance(mod.defs.get(q.rsplit(".", 1)[0]), ast.FunctionDef):
                    continue
                before = len(rep.instances)
                truthy.scan(repo, rep, "C06.b-graph-names-by-identity", mod, f, q)
                # keep only graph-domain hits (term truthiness belongs to other properties)
                kept = [i for i in rep.instances[before:] if "Graph" in i["detail"]]
                dropped = [i for i in rep.instances[before:] if i not in kept]
                rep.instances[before:] = kept
                rep.findings[:] = [x for x in rep.findings if x not in dropped]

    # (b2) optional keyword arguments that are graphs by use
    rep.rule("C06.b2-untyped-graph-arguments-by-identity",
             "a value read from **kwargs (untyped) that is used as a graph (operand of +/- with the store, receiver of "
             ".contexts()/.quads(), or passed to a method that uses it so) is tested with `is None`, not by truthiness", floor=1)
    for name in QUAD_SER:
        mod = repo.mod("rdflib.plugins.serializers." + name)
        for q, f in mod.functions():
            if "." in q and isinstance(mod.defs.get(q.rsplit(".", 1)[0]), ast.FunctionDef):
                continue
            kw = {n.targets[0].id for n in own_nodes(f) if isinstance(n, ast.Assign) and isinstance(n.targets[0], ast.Name) and isinstance(n.value, ast.Call)
                  and isinstance(n.value.func, ast.Attribute) and n.value.func.attr == "get" and norm(n.value.func.value) in ("kwargs", "args", "kw")}
            if not kw:
                continue
            cls = q.rsplit(".", 1)[0] if "." in q else None

            def graph_by_use(var: str, fn: ast.AST, depth: int = 0) -> bool:
                for n in own_nodes(fn, include_nested=True):
                    if isinstance(n, ast.BinOp) and isinstance(n.op, (ast.Sub, ast.Add)):
                        ops = [norm(n.left), norm(n.right)]
                        if var in ops and any("store" in o for o in ops):
                            return True
                    if isinstance(n, ast.Call) and isinstance(n.func, ast.Attribute) and n.func.attr in ("contexts", "quads", "graphs", "triples") and norm(n.func.value) == var:
                        return True
                    if depth < 3 and isinstance(n, ast.Call) and isinstance(n.func, ast.Name):
                        # a helper defined inside the function
                        for h in own_nodes(fn, include_nested=True):
                            if isinstance(h, ast.FunctionDef) and h.name == n.func.id and h is not fn:
                                for i, a in enumerate(n.args):
                                    if norm(a) == var and i < len(h.args.args) and graph_by_use(h.args.args[i].arg, h, depth + 1):
                                        return True
                    if depth < 2 and isinstance(n, ast.Call) and isinstance(n.func, ast.Attribute) and isinstance(n.func.value, ast.Name) and n.func.value.id == "self" and cls:
                        callee = mod.defs.get("%s.%s" % (cls, n.func.attr))
                        if isinstance(callee, ast.FunctionDef):
                            for i, a in enumerate(n.args):
                                if norm(a) == var and i + 1 < len(callee.args.args):
                                    if graph_by_use(callee.args.args[i + 1].arg, callee, depth + 1):
                                        return True
                return False

            for v in sorted(kw):
                if not graph_by_use(v, f):
                    continue
                for e, owner, kind in truthy.bool_contexts(f):
                    if isinstance(e, ast.Name) and e.id == v:
                        rep.ob("C06.b2-untyped-graph-arguments-by-identity", mod, q, "%s [in %s: %s]" % (v, kind, norm(getattr(owner, "test", owner))[:60]), False,
                               "%s is used as a graph/dataset but tested by truthiness: an empty dataset is treated as `not given`" % v, node=e)
                for n in own_nodes(f, include_nested=True):
                    if isinstance(n, ast.Compare) and isinstance(n.left, ast.Name) and n.left.id == v and isinstance(n.ops[0], (ast.Is, ast.IsNot)):
                        rep.ob("C06.b2-untyped-graph-arguments-by-identity", mod, q, n, True, "%s tested by identity" % v, node=n)

    # ------------------------------------------------------------------ (c)
    rep.rule("C06.c-trix-graph-state-reset",
             "TriXHandler: the current-graph attribute that start handlers lazily create (`if self.graph is None: self.graph = Graph(...)`) "
             "is reset to None when a graph element ends", floor=1)
    tx = repo.mod("rdflib.plugins.parsers.trix")
    start = tx.func("TriXHandler.startElementNS")
    end = tx.func("TriXHandler.endElementNS")
    lazy = set()
    for n in own_nodes(start):
        if isinstance(n, ast.If) and isinstance(n.test, ast.Compare) and isinstance(n.test.ops[0], ast.Is) and isinstance(n.test.comparators[0], ast.Constant) \
                and n.test.comparators[0].value is None and norm(n.test.left).startswith("self."):
            attr = norm(n.test.left)
            if any(isinstance(s, ast.Assign) and norm(s.targets[0]) == attr for s in n.body):
                lazy.add(attr)
    if not lazy:
        raise AnalysisError("TriXHandler.startElementNS: lazy per-graph state not found")
    for attr in sorted(lazy):
        ok = False
        for n in own_nodes(end):
            if isinstance(n, ast.If) and "'graph'" in norm(n.test):
                if any(isinstance(s, ast.Assign) and norm(s.targets[0]) == attr and isinstance(s.value, ast.Constant) and s.value.value is None for s in n.body):
                    ok = True
        rep.ob("C06.c-trix-graph-state-reset", tx, "TriXHandler.endElementNS", "%s = None at </graph>" % attr, ok,
               "reset when the graph element ends" if ok else "%s survives the end of a graph element: the triples of a following unnamed graph land in the previous graph" % attr, node=end)

    # ------------------------------------------------------------------ (d)
    rep.rule("C06.d-patch-delete-is-graph-scoped",
             "RDF Patch parser: every removal addresses one graph view (get_context(name) / default_context), never the dataset "
             "object itself (Dataset.remove with no graph removes from every graph)", floor=1)
    pp = repo.mod("rdflib.plugins.parsers.patch")
    nrem = 0
    for q, f in pp.functions():
        for c in own_nodes(f):
            if isinstance(c, ast.Call) and isinstance(c.func, ast.Attribute) and c.func.attr == "remove":
                tf = typed.type_of(pp.name, c.func.value)
                recv = norm(c.func.value)
                if tf is None and "sink" not in recv and "context" not in recv:
                    continue
                nrem += 1
                is_ds = (tf is not None and any(typed.is_subclass(i, "rdflib.graph.ConjunctiveGraph") for i in tf.items)) or recv in ("self.sink",)
                view = recv.endswith(".default_context") or ".get_context(" in recv or ".graph(" in recv
                ok = view or not is_ds
                rep.ob("C06.d-patch-delete-is-graph-scoped", pp, q, c, ok,
                       "removes from one graph view" if ok else "removes through the dataset object %s: a delete row without a graph name removes the triple from every graph" % recv, node=c)
    if nrem < 1:
        raise AnalysisError("RDF Patch parser: expected a remove site, found %d" % nrem)

    # ------------------------------------------------------------------ (e)
    rep.rule("C06.e-trig-graph-label-is-a-reference",
             "TriG serializer: the Turtle writer abbreviates a blank node as `[ ... ]` when its reference count is at most 1 (p_squared); a blank node that "
             "labels a graph block keeps its label there, so preprocess counts the label as a reference of that node for every graph it writes - otherwise "
             "a statement whose object is the blank-node name of a graph is written with an anonymous node and the link to the graph is lost", floor=2)
    tg = repo.mod("rdflib.plugins.serializers.trig")
    tu = repo.mod("rdflib.plugins.serializers.turtle")
    psq = tu.func("TurtleSerializer.p_squared")
    uses_count = any(isinstance(n, ast.Compare) and "_references[" in norm(n.left) for n in own_nodes(psq))
    rep.ob("C06.e-trig-graph-label-is-a-reference", tu, "TurtleSerializer.p_squared", "inlining is decided by self._references[node]", True,
           "reference-count based inlining" if uses_count else "p_squared no longer inlines by reference count: the label obligation below is moot", node=psq)
    pre = tg.func("TrigSerializer.preprocess")
    loops = [n for n in own_nodes(pre) if isinstance(n, ast.For) and "contexts" in norm(n.iter)]
    if not loops:
        raise AnalysisError("TrigSerializer.preprocess: loop over the contexts not found")
    if uses_count:
        lp = loops[0]
        cvar = norm(lp.target)
        hit = None
        for st in lp.body:  # top level of the loop body: executed for every context that is not skipped
            cand = [st] if isinstance(st, (ast.AugAssign, ast.Assign)) else ([x for x in st.body if isinstance(x, (ast.AugAssign, ast.Assign))] if isinstance(st, ast.If) and not st.orelse and "BNode" in norm(st.test) else [])
            for x in cand:
                tgt = x.target if isinstance(x, ast.AugAssign) else x.targets[0]
                if isinstance(tgt, ast.Subscript) and norm(tgt.value).endswith("_references") and norm(tgt.slice) == "%s.identifier" % cvar:
                    hit = x
        rep.ob("C06.e-trig-graph-label-is-a-reference", tg, "TrigSerializer.preprocess", hit if hit is not None else "self._references[%s.identifier] is incremented per written graph" % cvar,
               hit is not None, "graph label counted" if hit is not None else
               "the graph label is not counted as a reference: `<s> <p> _:g` inside one graph, with _:g also the name of another graph, is written as `<s> <p> [ ]` while the graph block keeps `_:g {`: after parsing, the object and the graph name are different blank nodes", node=hit or pre)


def _assigned_unconditionally_before(loop: ast.For, name: str, site: ast.AST) -> bool:
    for s in loop.body:
        if any(site is x for x in ast.walk(s)):
            return False
        if isinstance(s, ast.Assign) and any(isinstance(t, ast.Name) and t.id == name for t in s.targets):
            return True
    return False


_run_base = run


def run(repo: Repo, rep: Report) -> None:  # noqa: F811
    _run_base(repo, rep)
    from vlib import argswap

    rep.rule("C06.f-no-swapped-graph-arguments",
             "in the quad parsers and serializers (where `dataset`, `graph`, `context` arguments all have type Graph), a call that passes two local names which are also parameter "
             "names of the resolved callee passes each at its own parameter's position: `self._to_object(graph, dataset, ...)` for `_to_object(self, dataset, graph, ...)` type-checks "
             "and makes nested values land in the dataset-wide graph instead of the named graph", floor=20)
    mods = sorted(m for m in repo.modules if m.startswith("rdflib.plugins.parsers.") or m.startswith("rdflib.plugins.serializers.") or m.startswith("rdflib.plugins.shared.jsonld."))
    argswap.scan(repo, rep, "C06.f-no-swapped-graph-arguments", mods)


_run_base2 = run


def run(repo: Repo, rep: Report) -> None:  # noqa: F811
    _run_base2(repo, rep)
    typed = repo.typed
    # ------------------------------------------------------------------ (g)
    rep.rule("C06.g-rows-of-a-graph-come-from-its-own-view",
             "a quad serializer enumerates the triples of one graph through that graph's view (iterating the Graph / graph.triples(...)); it does not ask the DATASET for "
             "`triples(pattern, context=g)`: ConjunctiveGraph.triples widens the default graph to the union of all graphs when default_union is on, so every named-graph triple "
             "would also be written into the default graph", floor=1)
    n_ser = 0
    for name in QUAD_SER:
        mod = repo.mod("rdflib.plugins.serializers." + name)
        for q, f in mod.functions():
            for c in own_nodes(f):
                if isinstance(c, ast.Call) and isinstance(c.func, ast.Attribute) and c.func.attr in ("triples", "triples_choices") and any(k.arg == "context" for k in c.keywords):
                    tf = typed.type_of(mod.name, c.func.value)
                    is_ds = tf is not None and any(typed.is_subclass(i, "rdflib.graph.ConjunctiveGraph") for i in tf.items) or norm(c.func.value) in ("self.store",) and tf is None
                    # in serializers `self.store` is the graph being written (a Dataset for quad formats)
                    if norm(c.func.value) == "self.store" or is_ds:
                        n_ser += 1
                        rep.ob("C06.g-rows-of-a-graph-come-from-its-own-view", mod, q, c, False,
                               "%s asks the dataset for the triples of one context: with default_union=True the default graph's rows are the union of all graphs" % norm(c)[:70], node=c)
        n_ser += 1
        rep.ob("C06.g-rows-of-a-graph-come-from-its-own-view", mod, "<module>", "graphs are enumerated through their own views in %s" % mod.rel, True, "", node=mod.tree)


_run_base3 = run


def run(repo: Repo, rep: Report) -> None:  # noqa: F811
    _run_base3(repo, rep)
    rep.rule("C06.h-trix-unnamed-graph-is-a-fresh-blank-node-graph",
             "the TriX writer names the default graph explicitly (<uri>) and writes a blank-node-named graph WITHOUT a name element; the TriX reader therefore gives a <graph> "
             "element without a name a graph of its own with a fresh blank-node identifier (Graph(store=...) without identifier), never the dataset's default graph - otherwise "
             "blank-node-named graphs are merged into the default graph on the way back", floor=2)
    ts = repo.mod("rdflib.plugins.serializers.trix")
    wg = ts.func("TriXSerializer._writeGraph")
    named_only_uri = any(isinstance(n, ast.If) and "isinstance" in norm(n.test) and "URIRef" in norm(n.test) and ".identifier" in norm(n.test) for n in own_nodes(wg))
    rep.ob("C06.h-trix-unnamed-graph-is-a-fresh-blank-node-graph", ts, "TriXSerializer._writeGraph", "a name element is written only for IRI-named graphs", named_only_uri,
           "" if named_only_uri else "the writer's naming scheme changed: re-derive the reader's obligation", node=wg)
    tp = repo.mod("rdflib.plugins.parsers.trix")
    sh = tp.func("TriXHandler.startElementNS")
    creations = [c for c in own_nodes(sh) if isinstance(c, ast.Call) and norm(c.func) == "Graph"]
    if not creations:
        raise AnalysisError("TriXHandler.startElementNS: graph creation not found")
    for c in creations:
        ident = [k.value for k in c.keywords if k.arg == "identifier"] + (c.args[1:2] if len(c.args) > 1 else [])
        anon = not ident or (isinstance(ident[0], ast.Call) and norm(ident[0].func) == "BNode" and not ident[0].args)
        named_from_doc = bool(ident) and not anon and "DEFAULT" not in norm(ident[0]).upper()
        ok = anon or named_from_doc
        rep.ob("C06.h-trix-unnamed-graph-is-a-fresh-blank-node-graph", tp, "TriXHandler.startElementNS", c, ok,
               "fresh blank-node graph" if anon else ("named from the document" if named_from_doc else
               "an unnamed <graph> is mapped to %s: every blank-node-named graph the writer produced comes back merged into the default graph" % norm(ident[0])), node=c)


_run_before_borrow = run


def run(repo: Repo, rep: Report) -> None:  # noqa: F811
    _run_before_borrow(repo, rep)
    from vlib.core import borrow

    borrow(repo, rep, "C06", "C12", ('C12.b2',))
    borrow(repo, rep, "C06", "C02", ('C02.a',))
