"""C06 - quad syntaxes round-trip a Dataset: necessary structural clauses (DESIGN.md §2 C06)."""
from __future__ import annotations

import ast

from vlib import truthy
from vlib.core import AnalysisError, Repo, Report, norm, own_nodes

EXPLANATION = (
    "(a) no context folding: inside the quad serializers (nquads, trig, trix, json-ld, hext, patch) no statement copies the "
    "triples of a context enumerated from the source into a graph that was created/selected outside that loop (which "
    "would emit them under another graph's name); (b) in the quad serializers and quad parsers a graph / graph name that "
    "may be None is tested by identity, never by truthiness (an empty graph or a default-graph marker is falsy); "
    "(c) the TriX reader resets its per-graph state when a graph element ends, so an unnamed graph never inherits the "
    "previous graph; (d) RDF Patch: delete rows address exactly one graph (get_context(name) or the default context), "
    "never the whole dataset. Later layers (rules f-aa) pin repaired defects of the quad writers by structural clauses: the TriX/XML writer (everything "
    "goes through the encoding writer, character references for what the encoding lacks, xmlns declarations only for NCName prefixes), the RDF Patch diff (graph "
    "names keep their term kind), the JSON-LD writer (graph named by the base, @context written back in full, map containers, @vocab-relative names, list folding "
    "and its bookkeeping, literals under IRI-coercing terms). Value-level round trip and the RDF Patch diff algebra are not decided."
)

QUAD_SER = ("nquads", "trig", "trix", "jsonld", "hext", "patch")
QUAD_PAR = ("nquads", "trig", "trix", "jsonld", "hext", "patch")


def _rule_a(repo: Repo, rep: Report) -> None:
    # ------------------------------------------------------------------ (a)
    rep.rule("C06.a-no-context-folding",
             "in a quad serializer, a graph-to-graph copy (`X += g`, X.addN/add in a loop over g) whose data comes from the loop "
             "variable of an enumeration of the source's contexts never targets a graph X defined outside that loop", floor=3)
    n_loops = 0
    for name in QUAD_SER:
        mod = repo.mod("rdflib.plugins.serializers." + name)
        for q, f in mod.functions():
            if "." in q and isinstance(mod.defs.get(q.rsplit(".", 1)[0]), ast.FunctionDef):
                continue
            rep.analysed("%s:%s" % (mod.rel, q))
            # names bound to an enumeration of contexts
            ctx_lists = set()
            for n in own_nodes(f):
                if isinstance(n, ast.Assign) and isinstance(n.targets[0], (ast.Name, ast.Attribute)):
                    if any(isinstance(c, ast.Call) and isinstance(c.func, ast.Attribute) and c.func.attr in ("contexts", "graphs") for c in ast.walk(n.value)):
                        ctx_lists.add(norm(n.targets[0]))
            for loop in [n for n in own_nodes(f) if isinstance(n, ast.For)]:
                it = loop.iter
                is_ctx_enum = any(isinstance(c, ast.Call) and isinstance(c.func, ast.Attribute) and c.func.attr in ("contexts", "graphs") for c in ast.walk(it)) \
                    or norm(it) in ctx_lists or (isinstance(it, ast.Call) and it.args and norm(it.args[0]) in ctx_lists)
                if not is_ctx_enum or not isinstance(loop.target, ast.Name):
                    continue
                n_loops += 1
                g = loop.target.id
                assigned_in_loop = {t.id for s in loop.body for n in ast.walk(s) if isinstance(n, ast.Assign) for t in n.targets if isinstance(t, ast.Name)}
                folds = []
                for s in loop.body:
                    for n in ast.walk(s):
                        tgt = None
                        if isinstance(n, ast.AugAssign) and isinstance(n.op, ast.Add) and any(isinstance(x, ast.Name) and x.id == g for x in ast.walk(n.value)):
                            tgt = n.target
                        if isinstance(n, ast.Call) and isinstance(n.func, ast.Attribute) and n.func.attr in ("addN", "__iadd__") \
                                and any(isinstance(x, ast.Name) and x.id == g for a in n.args for x in ast.walk(a)):
                            tgt = n.func.value
                        if tgt is None:
                            continue
                        root = tgt
                        while isinstance(root, (ast.Attribute, ast.Subscript)):
                            root = root.value
                        # a target (re)created for this context inside the loop *before* the copy, on every path, is not a fold
                        defined_outside = not (isinstance(root, ast.Name) and root.id in assigned_in_loop and _assigned_unconditionally_before(loop, root.id, n))
                        if defined_outside:
                            folds.append((n, norm(tgt)))
                if folds:
                    for n, t in folds:
                        rep.ob("C06.a-no-context-folding", mod, q, n, False,
                               "the triples of each enumerated context %s are copied into %s, which exists across iterations: those contexts are emitted under %s's name, not their own" % (g, t, t), node=n)
                else:
                    rep.ob("C06.a-no-context-folding", mod, q, "for %s in %s" % (g, norm(it)[:60]), True, "each context is emitted on its own", node=loop)
    if n_loops < 3:
        raise AnalysisError("expected >= 3 context enumerations in quad serializers, found %d" % n_loops)


def _rule_b(repo: Repo, rep: Report) -> None:
    # ------------------------------------------------------------------ (b)
    rep.rule("C06.b-graph-names-by-identity",
             "in quad serializers and quad parsers, a graph or graph name that may be None is tested by identity, never by truthiness", floor=2)
    for kind, names in (("serializers", QUAD_SER), ("parsers", QUAD_PAR)):
        for name in names:
            mod = repo.mod("rdflib.plugins.%s.%s" % (kind, name))
            for q, f in mod.functions():
                if "." in q and isinstance(mod.defs.get(q.rsplit(".", 1)[0]), ast.FunctionDef):
                    continue
                before = len(rep.instances)
                truthy.scan(repo, rep, "C06.b-graph-names-by-identity", mod, f, q)
                # keep only graph-domain hits (term truthiness belongs to other properties)
                kept = [i for i in rep.instances[before:] if "Graph" in i["detail"]]
                dropped = [i for i in rep.instances[before:] if i not in kept]
                rep.instances[before:] = kept
                rep.findings[:] = [x for x in rep.findings if x not in dropped]


def _rule_b2(repo: Repo, rep: Report) -> None:
    # (b2) optional keyword arguments that are graphs by use
    rep.rule("C06.b2-untyped-graph-arguments-by-identity",
             "a value read from **kwargs (untyped) that is used as a graph (operand of +/- with the store, receiver of "
             ".contexts()/.quads(), or passed to a method that uses it so) is tested with `is None`, not by truthiness", floor=1)
    for name in QUAD_SER:
        mod = repo.mod("rdflib.plugins.serializers." + name)
        for q, f in mod.functions():
            if "." in q and isinstance(mod.defs.get(q.rsplit(".", 1)[0]), ast.FunctionDef):
                continue
            kw = {n.targets[0].id for n in own_nodes(f) if isinstance(n, ast.Assign) and isinstance(n.targets[0], ast.Name) and isinstance(n.value, ast.Call)
                  and isinstance(n.value.func, ast.Attribute) and n.value.func.attr == "get" and norm(n.value.func.value) in ("kwargs", "args", "kw")}
            if not kw:
                continue
            cls = q.rsplit(".", 1)[0] if "." in q else None

            def graph_by_use(var: str, fn: ast.AST, depth: int = 0) -> bool:
                for n in own_nodes(fn, include_nested=True):
                    if isinstance(n, ast.BinOp) and isinstance(n.op, (ast.Sub, ast.Add)):
                        ops = [norm(n.left), norm(n.right)]
                        if var in ops and any("store" in o for o in ops):
                            return True
                    if isinstance(n, ast.Call) and isinstance(n.func, ast.Attribute) and n.func.attr in ("contexts", "quads", "graphs", "triples") and norm(n.func.value) == var:
                        return True
                    if depth < 3 and isinstance(n, ast.Call) and isinstance(n.func, ast.Name):
                        # a helper defined inside the function
                        for h in own_nodes(fn, include_nested=True):
                            if isinstance(h, ast.FunctionDef) and h.name == n.func.id and h is not fn:
                                for i, a in enumerate(n.args):
                                    if norm(a) == var and i < len(h.args.args) and graph_by_use(h.args.args[i].arg, h, depth + 1):
                                        return True
                    if depth < 2 and isinstance(n, ast.Call) and isinstance(n.func, ast.Attribute) and isinstance(n.func.value, ast.Name) and n.func.value.id == "self" and cls:
                        callee = mod.defs.get("%s.%s" % (cls, n.func.attr))
                        if isinstance(callee, ast.FunctionDef):
                            for i, a in enumerate(n.args):
                                if norm(a) == var and i + 1 < len(callee.args.args):
                                    if graph_by_use(callee.args.args[i + 1].arg, callee, depth + 1):
                                        return True
                return False

            for v in sorted(kw):
                if not graph_by_use(v, f):
                    continue
                for e, owner, kind in truthy.bool_contexts(f):
                    if isinstance(e, ast.Name) and e.id == v:
                        rep.ob("C06.b2-untyped-graph-arguments-by-identity", mod, q, "%s [in %s: %s]" % (v, kind, norm(getattr(owner, "test", owner))[:60]), False,
                               "%s is used as a graph/dataset but tested by truthiness: an empty dataset is treated as `not given`" % v, node=e)
                for n in own_nodes(f, include_nested=True):
                    if isinstance(n, ast.Compare) and isinstance(n.left, ast.Name) and n.left.id == v and isinstance(n.ops[0], (ast.Is, ast.IsNot)):
                        rep.ob("C06.b2-untyped-graph-arguments-by-identity", mod, q, n, True, "%s tested by identity" % v, node=n)


def _rule_c(repo: Repo, rep: Report) -> None:
    # ------------------------------------------------------------------ (c)
    rep.rule("C06.c-trix-graph-state-reset",
             "TriXHandler: the current-graph attribute that start handlers lazily create (`if self.graph is None: self.graph = Graph(...)`) "
             "is reset to None when a graph element ends", floor=1)
    tx = repo.mod("rdflib.plugins.parsers.trix")
    start = tx.func("TriXHandler.startElementNS")
    end = tx.func("TriXHandler.endElementNS")
    lazy = set()
    for n in own_nodes(start):
        if isinstance(n, ast.If) and isinstance(n.test, ast.Compare) and isinstance(n.test.ops[0], ast.Is) and isinstance(n.test.comparators[0], ast.Constant) \
                and n.test.comparators[0].value is None and norm(n.test.left).startswith("self."):
            attr = norm(n.test.left)
            if any(isinstance(s, ast.Assign) and norm(s.targets[0]) == attr for s in n.body):
                lazy.add(attr)
    if not lazy:
        raise AnalysisError("TriXHandler.startElementNS: lazy per-graph state not found")
    for attr in sorted(lazy):
        ok = False
        for n in own_nodes(end):
            if isinstance(n, ast.If) and "'graph'" in norm(n.test):
                if any(isinstance(s, ast.Assign) and norm(s.targets[0]) == attr and isinstance(s.value, ast.Constant) and s.value.value is None for s in n.body):
                    ok = True
        rep.ob("C06.c-trix-graph-state-reset", tx, "TriXHandler.endElementNS", "%s = None at </graph>" % attr, ok,
               "reset when the graph element ends" if ok else "%s survives the end of a graph element: the triples of a following unnamed graph land in the previous graph" % attr, node=end)


def _rule_d(repo: Repo, rep: Report) -> None:
    typed = repo.typed
    # ------------------------------------------------------------------ (d)
    rep.rule("C06.d-patch-delete-is-graph-scoped",
             "RDF Patch parser: every removal addresses one graph view (get_context(name) / default_context), never the dataset "
             "object itself (Dataset.remove with no graph removes from every graph). A removal is any call whose callee can evaluate to the bound method `remove` of "
             "some object - X.remove(...), getattr(X, m)(...) with m a string that can be 'remove' (a constant, a local, a row of a constant table a loop runs over), "
             "a local or conditional expression that holds such a bound method - and the object is every expression X can hold the value of (all definitions of a "
             "local, both arms of a conditional expression, what a method of the parser called for it returns): each of them is a graph view or is not a dataset", floor=1)
    from vlib import h_c06 as H

    pp = repo.mod("rdflib.plugins.parsers.patch")

    def is_view(x: ast.AST) -> bool:
        return (isinstance(x, ast.Attribute) and x.attr == "default_context") or (
            isinstance(x, ast.Call) and isinstance(x.func, ast.Attribute) and x.func.attr in ("get_context", "graph"))

    def is_dataset(x: ast.AST) -> bool:
        tf = typed.type_of(pp.name, x)
        return (tf is not None and any(typed.is_subclass(i, "rdflib.graph.ConjunctiveGraph") for i in tf.items)) or norm(x) in ("self.sink",)

    nrem = 0
    for q, f in pp.functions():
        if "." in q and isinstance(pp.defs.get(q.rsplit(".", 1)[0]), ast.FunctionDef):
            continue  # (a nested function is looked at with the function it stands in)
        cls = q.rsplit(".", 1)[0] if "." in q and isinstance(pp.defs.get(q.rsplit(".", 1)[0]), ast.ClassDef) else None
        flow = H.Flow(pp, f)
        for c, recv, names in H.method_calls(pp, f, flow):
            # every expression the receiver can hold the value of (a call of a method of this parser stands for what that method returns)
            held: list[ast.AST] = []
            for x in flow.values(recv):
                inner = H.returned_values(pp, cls, x) if isinstance(x, ast.Call) and not is_view(x) else None
                held += [v for v, _fl in inner] if inner is not None else [x]
            if names is None:
                # the method is chosen by a string that is not known here: undecidable if the object can be the dataset
                if any(is_dataset(x) and not is_view(x) for x in held):
                    raise AnalysisError("RDF Patch parser: %s in %s calls a method of the dataset that is chosen by a string the analysis cannot determine" % (norm(c)[:80], q))
                continue
            if "remove" not in names:
                continue
            tf = typed.type_of(pp.name, recv)
            if tf is None and not any(typed.type_of(pp.name, x) is not None or "sink" in norm(x) or "context" in norm(x) for x in [recv] + held):
                continue  # (not an rdflib object: list.remove ...)
            for x in held:
                nrem += 1
                ok = is_view(x) or not is_dataset(x)
                rep.ob("C06.d-patch-delete-is-graph-scoped", pp, q, c if x is getattr(c.func, "value", None) else "%s [on %s]" % (norm(c)[:160], norm(x)[:100]), ok,
                       "removes from one graph view" if ok else "removes through the dataset object %s: a delete row without a graph name removes the triple from every graph" % norm(x), node=c)
    if nrem < 1:
        raise AnalysisError("RDF Patch parser: expected a remove site, found %d" % nrem)


def _rule_e(repo: Repo, rep: Report) -> None:
    # ------------------------------------------------------------------ (e)
    rep.rule("C06.e-trig-graph-label-is-a-reference",
             "TriG serializer: the Turtle writer abbreviates a blank node as `[ ... ]` when its reference count is at most 1 (p_squared); a blank node that "
             "labels a graph block keeps its label there, so preprocess counts the label as a reference of that node for every graph it writes - otherwise "
             "a statement whose object is the blank-node name of a graph is written with an anonymous node and the link to the graph is lost", floor=2)
    tg = repo.mod("rdflib.plugins.serializers.trig")
    tu = repo.mod("rdflib.plugins.serializers.turtle")
    psq = tu.func("TurtleSerializer.p_squared")
    # the reference counter is found by its ROLE, not by its (private) name: the attribute of the serializer that p_squared subscripts with the
    # node it is asked to write (one of its own parameters) and compares with a number to decide if the node may be inlined
    sself = psq.args.args[0].arg if psq.args.args else "self"
    pparams = {a.arg for a in psq.args.args[1:] + psq.args.kwonlyargs}

    def _num(e: ast.AST) -> bool:
        return isinstance(e, ast.Constant) and isinstance(e.value, (int, float)) and not isinstance(e.value, bool)

    counters: set[str] = set()
    for n in own_nodes(psq):
        if not (isinstance(n, ast.Compare) and len(n.ops) == 1 and not isinstance(n.ops[0], (ast.In, ast.NotIn, ast.Is, ast.IsNot))):
            continue
        for side, other in ((n.left, n.comparators[0]), (n.comparators[0], n.left)):
            if (isinstance(side, ast.Subscript) and isinstance(side.value, ast.Attribute) and isinstance(side.value.value, ast.Name)
                    and side.value.value.id == sself and isinstance(side.slice, ast.Name) and side.slice.id in pparams and _num(other)):
                counters.add(side.value.attr)
    uses_count = bool(counters)
    cname = sorted(counters)[0] if counters else "_references"
    rep.ob("C06.e-trig-graph-label-is-a-reference", tu, "TurtleSerializer.p_squared", "inlining is decided by self.%s[node]" % cname, True,
           "reference-count based inlining" if uses_count else "p_squared no longer inlines by reference count: the label obligation below is moot", node=psq)
    pre = tg.func("TrigSerializer.preprocess")
    loops = [n for n in own_nodes(pre) if isinstance(n, ast.For) and "contexts" in norm(n.iter)]
    if not loops:
        raise AnalysisError("TrigSerializer.preprocess: loop over the contexts not found")
    if uses_count:
        from vlib import h_c06 as H
        from vlib.cfg import CFG

        lp = loops[0]
        cvar = norm(lp.target)
        pself = pre.args.args[0].arg if pre.args.args else "self"
        hit = None
        pdefs = H.local_defs(pre)
        pcfg = CFG(pre)

        def is_label(e: ast.AST) -> bool:
            # the name of the graph written in this iteration: <loop variable>.identifier
            return isinstance(e, ast.Attribute) and e.attr == "identifier" and norm(e.value) == cvar

        def label_of_this_graph(e: ast.AST, at: ast.stmt) -> bool:
            """e evaluates to the identifier of the context of THIS iteration: `<loop variable>.identifier` itself, or a local
            every definition of which is exactly that and which is (re)bound in this iteration on every path to the statement"""
            if len(H.binding_stmts(pre, cvar)) != 1:  # (the loop variable is bound by the loop alone)
                return False
            if is_label(e):
                return True
            return isinstance(e, ast.Name) and H.denotes(e, is_label, pdefs, depth=1) and H.fresh_in_iteration(pcfg, lp, pre, e.id, at)

        # the increment (alone, or as a statement of `if <the label is a BNode>:` without else) is executed for every context that is not skipped:
        # no pass through the loop body comes round to the head again - other than by `continue`, which skips the graph - without it
        for x in [n for s_ in lp.body for n in ast.walk(s_) if isinstance(n, (ast.AugAssign, ast.Assign))]:
            tgt = x.target if isinstance(x, ast.AugAssign) else x.targets[0]
            if not (isinstance(tgt, ast.Subscript) and isinstance(tgt.value, ast.Attribute) and tgt.value.attr in counters
                    and isinstance(tgt.value.value, ast.Name) and tgt.value.value.id == pself and label_of_this_graph(tgt.slice, x)):
                continue
            par = tg.parent.get(id(x))
            guard = par if isinstance(par, ast.If) and any(x is b for b in par.body) and not par.orelse and "BNode" in norm(par.test) else None
            if H.on_every_pass(pcfg, lp, guard if guard is not None else x):
                hit = x
        rep.ob("C06.e-trig-graph-label-is-a-reference", tg, "TrigSerializer.preprocess", hit if hit is not None else "self.%s[%s.identifier] is incremented per written graph" % (cname, cvar),
               hit is not None, "graph label counted" if hit is not None else
               "the graph label is not counted as a reference: `<s> <p> _:g` inside one graph, with _:g also the name of another graph, is written as `<s> <p> [ ]` while the graph block keeps `_:g {`: after parsing, the object and the graph name are different blank nodes", node=hit or pre)


def _assigned_unconditionally_before(loop: ast.For, name: str, site: ast.AST) -> bool:
    for s in loop.body:
        if any(site is x for x in ast.walk(s)):
            return False
        if isinstance(s, ast.Assign) and any(isinstance(t, ast.Name) and t.id == name for t in s.targets):
            return True
    return False


from vlib.core import layer as _layer  # noqa: E402


def _run_base(repo: Repo, rep: Report) -> None:
    """rules a-e, each a layer of its own: a rule that loses its anchor (on the tree or on one equivalent view) is judged alone"""
    rep.extra["explanation"] = EXPLANATION
    for f in (_rule_a, _rule_b, _rule_b2, _rule_c, _rule_d, _rule_e):
        _layer(rep, f, repo)


def run(repo: Repo, rep: Report) -> None:  # noqa: F811
    _layer(rep, _run_base, repo)
    from vlib import argswap

    rep.rule("C06.f-no-swapped-graph-arguments",
             "in the quad parsers and serializers (where `dataset`, `graph`, `context` arguments all have type Graph), a call that passes two local names which are also parameter "
             "names of the resolved callee passes each at its own parameter's position: `self._to_object(graph, dataset, ...)` for `_to_object(self, dataset, graph, ...)` type-checks "
             "and makes nested values land in the dataset-wide graph instead of the named graph", floor=20)
    mods = sorted(m for m in repo.modules if m.startswith("rdflib.plugins.parsers.") or m.startswith("rdflib.plugins.serializers.") or m.startswith("rdflib.plugins.shared.jsonld."))
    argswap.scan(repo, rep, "C06.f-no-swapped-graph-arguments", mods)


_run_base2 = run


def run(repo: Repo, rep: Report) -> None:  # noqa: F811
    _layer(rep, _run_base2, repo)
    typed = repo.typed
    # ------------------------------------------------------------------ (g)
    rep.rule("C06.g-rows-of-a-graph-come-from-its-own-view",
             "a quad serializer enumerates the triples of one graph through that graph's view (iterating the Graph / graph.triples(...)); it does not ask the DATASET for "
             "`triples(pattern, context=g)`: ConjunctiveGraph.triples widens the default graph to the union of all graphs when default_union is on, so every named-graph triple "
             "would also be written into the default graph", floor=1)
    n_ser = 0
    for name in QUAD_SER:
        mod = repo.mod("rdflib.plugins.serializers." + name)
        for q, f in mod.functions():
            for c in own_nodes(f):
                if isinstance(c, ast.Call) and isinstance(c.func, ast.Attribute) and c.func.attr in ("triples", "triples_choices") and any(k.arg == "context" for k in c.keywords):
                    tf = typed.type_of(mod.name, c.func.value)
                    is_ds = tf is not None and any(typed.is_subclass(i, "rdflib.graph.ConjunctiveGraph") for i in tf.items) or norm(c.func.value) in ("self.store",) and tf is None
                    # in serializers `self.store` is the graph being written (a Dataset for quad formats)
                    if norm(c.func.value) == "self.store" or is_ds:
                        n_ser += 1
                        rep.ob("C06.g-rows-of-a-graph-come-from-its-own-view", mod, q, c, False,
                               "%s asks the dataset for the triples of one context: with default_union=True the default graph's rows are the union of all graphs" % norm(c)[:70], node=c)
        n_ser += 1
        rep.ob("C06.g-rows-of-a-graph-come-from-its-own-view", mod, "<module>", "graphs are enumerated through their own views in %s" % mod.rel, True, "", node=mod.tree)


_run_base3 = run


def run(repo: Repo, rep: Report) -> None:  # noqa: F811
    _layer(rep, _run_base3, repo)
    rep.rule("C06.h-trix-unnamed-graph-is-a-fresh-blank-node-graph",
             "the TriX writer names the default graph explicitly (<uri>) and writes a blank-node-named graph WITHOUT a name element; the TriX reader therefore gives a <graph> "
             "element without a name a graph of its own with a fresh blank-node identifier (Graph(store=...) without identifier), never the dataset's default graph - otherwise "
             "blank-node-named graphs are merged into the default graph on the way back", floor=2)
    ts = repo.mod("rdflib.plugins.serializers.trix")
    from vlib import h_c06 as H

    # (the code that writes a graph element: what the public TriXSerializer.serialize reaches on self, whatever the helpers are called)
    wscope = H.reach_methods(ts, "TriXSerializer", ["serialize"])
    if "serialize" not in wscope:
        raise AnalysisError("TriXSerializer.serialize not found")
    wg = next((fn for fn in wscope.values() for n in own_nodes(fn) if isinstance(n, ast.If) and "isinstance" in norm(n.test) and "URIRef" in norm(n.test) and ".identifier" in norm(n.test)), None)
    named_only_uri = wg is not None
    rep.ob("C06.h-trix-unnamed-graph-is-a-fresh-blank-node-graph", ts, "TriXSerializer.serialize", "a name element is written only for IRI-named graphs", named_only_uri,
           "" if named_only_uri else "the writer's naming scheme changed: re-derive the reader's obligation", node=wg if wg is not None else wscope["serialize"])
    tp = repo.mod("rdflib.plugins.parsers.trix")
    sh = tp.func("TriXHandler.startElementNS")
    creations = [c for c in own_nodes(sh) if isinstance(c, ast.Call) and norm(c.func) == "Graph"]
    if not creations:
        raise AnalysisError("TriXHandler.startElementNS: graph creation not found")
    for c in creations:
        ident = [k.value for k in c.keywords if k.arg == "identifier"] + (c.args[1:2] if len(c.args) > 1 else [])
        anon = not ident or (isinstance(ident[0], ast.Call) and norm(ident[0].func) == "BNode" and not ident[0].args)
        named_from_doc = bool(ident) and not anon and "DEFAULT" not in norm(ident[0]).upper()
        ok = anon or named_from_doc
        rep.ob("C06.h-trix-unnamed-graph-is-a-fresh-blank-node-graph", tp, "TriXHandler.startElementNS", c, ok,
               "fresh blank-node graph" if anon else ("named from the document" if named_from_doc else
               "an unnamed <graph> is mapped to %s: every blank-node-named graph the writer produced comes back merged into the default graph" % norm(ident[0])), node=c)


_run_base4 = run


def _is_dataset(typed, modname: str, e: ast.AST) -> bool:
    tf = typed.type_of(modname, e)
    return tf is not None and any(typed.is_subclass(i, "rdflib.graph.ConjunctiveGraph") for i in tf.items)


def _has_type(typed, modname: str, e: ast.AST, base: str) -> bool:
    tf = typed.type_of(modname, e)
    return tf is not None and any(typed.is_subclass(i, base) for i in tf.items)


def run(repo: Repo, rep: Report) -> None:  # noqa: F811
    _layer(rep, _run_base4, repo)
    from vlib import h_c06 as H
    from vlib.cfg import CFG

    typed = repo.typed

    # ------------------------------------------------------------------ (i)  F65
    rep.rule("C06.i-no-dataset-set-algebra-in-quad-serializers",
             "a quad serializer never decides which quads two datasets share through Graph set algebra (`a - b`, `a * b`, `a ^ b`, `a & b`) or `quad in <dataset>` on a "
             "ConjunctiveGraph/Dataset operand: those go through ConjunctiveGraph.__contains__ = triples(pattern, context=c), which for a default_union dataset looks for a "
             "default-graph quad in every graph - `ds1.serialize(format='patch', target=ds2)` with ds1 = {<s> <p> <o> <g>}, ds2 = ds1 + {<s> <p> <o>} (default graph), both "
             "default_union, found the new default-graph quad `in` ds1 and wrote no `A` row; the stored quads are compared instead (sets of quads())", floor=7)
    pser = repo.mod("rdflib.plugins.serializers.patch")
    # the two-dataset comparison lives in what PatchSerializer.serialize (the public entry point) reaches on self, however it is split into helpers: anchor
    diff_scope = H.reach_methods(pser, "PatchSerializer", ["serialize"])
    if "serialize" not in diff_scope:
        raise AnalysisError("PatchSerializer.serialize not found")
    for name in QUAD_SER:
        mod = repo.mod("rdflib.plugins.serializers." + name)
        bad = 0
        for q, f in mod.functions():
            for n in own_nodes(f):
                ops: list[ast.AST] = []
                if isinstance(n, ast.BinOp) and isinstance(n.op, (ast.Sub, ast.Mult, ast.BitXor, ast.BitAnd)):
                    ops = [n.left, n.right]
                elif isinstance(n, ast.Compare) and any(isinstance(o, (ast.In, ast.NotIn)) for o in n.ops):
                    ops = [c for o, c in zip(n.ops, n.comparators) if isinstance(o, (ast.In, ast.NotIn))]
                hit = [o for o in ops if _is_dataset(typed, mod.name, o)]
                if hit:
                    bad += 1
                    rep.ob("C06.i-no-dataset-set-algebra-in-quad-serializers", mod, q, n, False,
                           "%s is a Dataset/ConjunctiveGraph: membership of a quad is decided by triples(pattern, context=c), which widens the default graph to the union of all "
                           "graphs when default_union is on - rows of the patch are dropped" % norm(hit[0]), node=n)
        rep.ob("C06.i-no-dataset-set-algebra-in-quad-serializers", mod, "<module>", "no dataset-level set algebra / membership in %s" % mod.rel, True,
               "" if not bad else "see the sites reported", node=mod.tree)
    nset = 0
    d = diff_scope["serialize"]
    for dn, df in diff_scope.items():
        here = [n for n in own_nodes(df, include_nested=True) if isinstance(n, ast.Compare) and any(isinstance(o, (ast.In, ast.NotIn)) for o in n.ops)
                and not any(_is_dataset(typed, pser.name, c) for c in n.comparators)]
        if here and nset == 0:
            d = df  # (the function the comparison is made in)
        nset += len(here)
    rep.ob("C06.i-no-dataset-set-algebra-in-quad-serializers", pser, "PatchSerializer.serialize", "the difference is taken over plain collections of the stored quads", True,
           "%d membership test(s), none on a dataset" % nset, node=d)

    # ------------------------------------------------------------------ (j)  F64
    rep.rule("C06.j-document-text-trimmed-by-the-formats-white-space-only",
             "in the parsers (all of rdflib.plugins.parsers), text of the document that becomes a term (flows into a call that yields an rdflib.term.Node: URIRef(...), BNode(...), self.get_bnode(...)) is "
             "trimmed only with an explicit character set made of characters that cannot be part of an IRI (XML white space ...): the argument-less str.strip()/lstrip()/rstrip() "
             "removes every Unicode white-space character, so the TriX element <uri>http://example.org/a&#xA0;</uri> came back as <http://example.org/a> (U+00A0, U+2003, U+3000 "
             "are legal ucschar of an IRI and legal in a blank node label). (What is counted is the trims; that the rule still sees the TriX reader is required "
             "separately, per kind of term: TriX has two elements whose text is the identity of a term, <uri> and <id>, so among the term makers that judged trims of "
             "the TriX reader feed there is one that yields a URIRef and one that yields a BNode - however many trim sites the reader spells that with.)", floor=1)
    for name in QUAD_PAR:
        repo.mod("rdflib.plugins.parsers." + name)  # anchors
    fed_kinds: dict[str, set[str]] = {}  # module -> kinds of term that judged trims of the module feed
    # (every parser module and the JSON-LD helpers are looked at: the same slip in another reader is the same defect)
    for mname in sorted(m for m in repo.modules if m.startswith("rdflib.plugins.parsers.") or m.startswith("rdflib.plugins.shared.jsonld.")):
        mod = repo.mod(mname)
        for q, f in mod.functions():
            for c in own_nodes(f):
                if not (isinstance(c, ast.Call) and isinstance(c.func, ast.Attribute) and c.func.attr in ("strip", "lstrip", "rstrip")):
                    continue
                tf = typed.type_of(mod.name, c.func.value)
                if tf is not None and not tf.any and "builtins.str" not in tf.items:
                    continue
                sinks = _term_sinks(repo, mod, f, q, c)
                if not sinks:
                    continue
                fed_kinds.setdefault(mod.name, set()).update(k for s_ in sinks for k in _term_kinds(repo, mod, s_))
                if not c.args and not c.keywords:
                    rep.ob("C06.j-document-text-trimmed-by-the-formats-white-space-only", mod, q, c, False,
                           "argument-less %s() on text that becomes a term: a leading/trailing U+00A0 (or any other Unicode space) of the IRI / label is silently removed" % c.func.attr, node=c)
                    continue
                cs = H.const_str(mod, c.args[0]) if c.args else None
                if cs is None:
                    rep.ob("C06.j-document-text-trimmed-by-the-formats-white-space-only", mod, q, c, True, "explicit character set (not a constant)", node=c)
                    continue
                extra = sorted(set(cs) - H.IRI_ILLEGAL)
                rep.ob("C06.j-document-text-trimmed-by-the-formats-white-space-only", mod, q, c, not extra,
                       "explicit set of characters that cannot occur in an IRI" if not extra else
                       "the trimmed set contains %s, which can begin or end an IRI: such an IRI is changed on the way in" % ", ".join("U+%04X" % ord(x) for x in extra), node=c)

    trix_terms = {"URIRef", "BNode"}  # <uri> and <id>
    lost = trix_terms - fed_kinds.get("rdflib.plugins.parsers.trix", set())
    if lost:
        raise AnalysisError("rule C06.j: in the TriX reader no trimmed text of the document was seen to become a %s (the terms read from the text of <uri> / <id>; seen: %s) - "
                            "the rule has lost its anchor" % (" / ".join(sorted(lost)), ", ".join(sorted(fed_kinds.get("rdflib.plugins.parsers.trix", set()))) or "none"))

    # ------------------------------------------------------------------ (k)  F147
    rep.rule("C06.k-recursion-over-graph-members-keeps-an-open-set",
             "a quad serializer function that calls itself on values taken from the graph (JSON-LD Converter.to_raw_value on the members of a collection) registers the value it "
             "is expanding in a set before the recursive call (`S.add(x)` on every path to the call) and that set is consulted by a membership test in the function or in a method it "
             "calls: the data can be cyclic (`_:l rdf:first _:l ; rdf:rest rdf:nil` - a list that is its own member), and without the guard serialisation ends in RecursionError", floor=1)
    for name in QUAD_SER:
        mod = repo.mod("rdflib.plugins.serializers." + name)
        for q, f in mod.functions():
            calls = [c for c in own_nodes(f) if H.is_self_call(c, f.name)]
            if not calls:
                continue
            cls = q.rsplit(".", 1)[0] if "." in q else None
            g = CFG(f)
            # membership tests visible from f: in f itself and in the methods of its class it calls (two levels)
            scope = [f]
            if cls and isinstance(mod.defs.get(cls), ast.ClassDef):
                meths = mod.methods(cls)
                for _ in range(2):
                    for fn in list(scope):
                        for c in own_nodes(fn, include_nested=True):
                            if isinstance(c, ast.Call) and isinstance(c.func, ast.Attribute) and norm(c.func.value) == "self" and c.func.attr in meths and meths[c.func.attr] not in scope:
                                scope.append(meths[c.func.attr])
            tested = {norm(cmp) for fn in scope for n in own_nodes(fn, include_nested=True) if isinstance(n, ast.Compare)
                      for o, cmp in zip(n.ops, n.comparators) if isinstance(o, (ast.In, ast.NotIn))}
            for c in calls:
                tgt = g.node_of(c, mod)
                guards = []
                for n in own_nodes(f):
                    if isinstance(n, ast.Expr) and isinstance(n.value, ast.Call) and isinstance(n.value.func, ast.Attribute) and n.value.func.attr == "add" and n.value.args:
                        recv = n.value.func.value
                        shared = norm(recv).startswith("self.") or (isinstance(recv, ast.Name) and any(isinstance(a, ast.Name) and a.id == recv.id for a in list(c.args) + [k.value for k in c.keywords]))
                        if shared and norm(recv) in tested and g.must_pass_before(tgt, [g.node_of(n)]):
                            guards.append(norm(recv))
                rep.ob("C06.k-recursion-over-graph-members-keeps-an-open-set", mod, q, c, bool(guards),
                       "open set %s: added to before the call, tested by membership" % guards[0] if guards else
                       "%s calls itself on values read from the graph and no set that is added to before the call is tested for membership: a list that has one of its own cells (or a "
                       "list it is a member of) as a member is expanded without end (RecursionError)" % f.name, node=c)

    js = repo.mod("rdflib.plugins.serializers.jsonld")

    # ------------------------------------------------------------------ (l)  F151
    rep.rule("C06.l-jsonld-list-cells-are-anonymous-only-if-unused-in-other-graphs",
             "JSON-LD Converter.to_collection folds the cells of an rdf:List into an anonymous @list graph by graph; besides the reference count inside the one graph it therefore "
             "asks the DATASET (the attribute Converter.convert binds when the source is context aware) whether the cell is used, as subject or as object, in another graph and "
             "does not fold then: `_:c rdf:first 1; rdf:rest rdf:nil` in <g1> with `<x> <p> _:c` also in <g2> came back as two different blank nodes", floor=2)
    conv = js.func("Converter.convert")
    if len(conv.args.args) < 2:
        raise AnalysisError("Converter.convert: source parameter not found")
    src = conv.args.args[1].arg
    aware = [n for n in own_nodes(conv) if isinstance(n, ast.If) and any(isinstance(x, ast.Attribute) and x.attr == "context_aware" and norm(x.value) == src for x in ast.walk(n.test))]
    if not aware:
        raise AnalysisError("Converter.convert: the context_aware branch was not found")
    ds_attrs = {norm(s.targets[0]) for n in aware for b in n.body for s in ast.walk(b) if isinstance(s, ast.Assign) and norm(s.targets[0]).startswith("self.")
                and isinstance(s.value, ast.Name) and s.value.id == src}
    tc = js.func("Converter.to_collection")
    if len(tc.args.args) < 3:
        raise AnalysisError("Converter.to_collection: (graph, head) parameters not found")
    gpar = tc.args.args[1].arg
    walks = []
    for w in own_nodes(tc):
        if isinstance(w, ast.While):
            assigned = {t.id for s in ast.walk(w) if isinstance(s, ast.Assign) for t in s.targets if isinstance(t, ast.Name)}
            cur = [x.id for x in ast.walk(w.test) if isinstance(x, ast.Name) and x.id in assigned]
            if cur:
                walks.append((w, cur[0]))
    if not walks:
        raise AnalysisError("Converter.to_collection: the walk over the cells was not found")
    defs = H.local_defs(tc, mutators=True)
    for w, cur in walks:
        def mentions(call: ast.Call) -> set[str]:
            """positions (s/o) at which a lookup names the cursor"""
            pos = set()
            meth = call.func.attr  # type: ignore[attr-defined]
            for i, a in enumerate(call.args):
                if isinstance(a, ast.Tuple):
                    for j, e in enumerate(a.elts):
                        if isinstance(e, ast.Name) and e.id == cur:
                            pos.add("s" if j == 0 else "o" if j == 2 else "p")
                elif isinstance(a, ast.Name) and a.id == cur:
                    if meth in ("subject_predicates", "subjects") or (meth in ("subjects", "predicates") and i == 1):
                        pos.add("o")
                    elif meth in ("predicate_objects", "value", "objects", "predicates"):
                        pos.add("s")
            return pos

        ifs = [n for n in ast.walk(w) if isinstance(n, ast.If) and any(isinstance(s, ast.Return) and (s.value is None or (isinstance(s.value, ast.Constant) and s.value.value is None)) for s in n.body)]
        effective = {id(x) for n in ifs for x in H.expand(n.test, defs)}
        own = [c for c in ast.walk(w) if isinstance(c, ast.Call) and isinstance(c.func, ast.Attribute) and norm(c.func.value) == gpar and id(c) in effective and "o" in mentions(c)]
        if not own:
            raise AnalysisError("Converter.to_collection: the reference count of a cell inside its graph was not found")
        rep.ob("C06.l-jsonld-list-cells-are-anonymous-only-if-unused-in-other-graphs", js, "Converter.to_collection", own[0], True,
               "a cell referenced more than once inside the graph is not folded", node=own[0])
        pos: set[str] = set()
        first = None
        for c in ast.walk(w):
            if isinstance(c, ast.Call) and isinstance(c.func, ast.Attribute) and norm(c.func.value) in ds_attrs and id(c) in effective:
                pos |= mentions(c)
                first = first or c
        ok = {"s", "o"} <= pos
        rep.ob("C06.l-jsonld-list-cells-are-anonymous-only-if-unused-in-other-graphs", js, "Converter.to_collection",
               "the use of the cell in the other graphs of the dataset (as subject and as object) decides a `return None`", ok,
               "dataset consulted through %s" % sorted(ds_attrs)[0] if ok else
               ("the walk folds a cell by looking at one graph only (%s): a blank node that is a list cell in <g1> and is also used in <g2> is written as an anonymous @list member in <g1> and "
                "under its label in <g2> - after parsing they are two different blank nodes" % ("no attribute holds the dataset" if not ds_attrs else "dataset lookups cover %s only" % (sorted(pos) or "nothing"))),
               node=first or w)

    # ------------------------------------------------------------------ (m)  F153
    rep.rule("C06.m-jsonld-list-container-term-only-for-a-foldable-value",
             "JSON-LD Converter.add_to_node: the branch `LIST in term.container` writes a JSON array only when the foldability test (self.to_collection(...) is not None) succeeds and "
             "otherwise writes a node reference under the same key; the reader wraps whatever stands under a @list-container term in a NEW list. Every place that offers LIST as "
             "a container when the term is chosen is therefore governed by the same foldability test - a list whose tail is shared by two lists was written as {\"@id\": \"_:b\"} under "
             "the list term and read back as a one-member list containing _:b", floor=2)
    an = js.func("Converter.add_to_node")

    def is_list_test(e: ast.AST) -> bool:
        return isinstance(e, ast.Compare) and len(e.ops) == 1 and isinstance(e.ops[0], ast.In) and isinstance(e.left, ast.Name) and e.left.id == "LIST"

    branches = [n for n in own_nodes(an) if isinstance(n, ast.If) and is_list_test(n.test)]
    if not branches:
        raise AnalysisError("Converter.add_to_node: the `LIST in term.container` branch was not found")
    adefs = H.local_defs(an)
    fold: set[str] = set()
    for br in branches:
        for n in [x for s in br.body for x in ast.walk(s)]:
            if isinstance(n, ast.If):
                for x in ast.walk(n.test):
                    if isinstance(x, ast.Compare) and isinstance(x.ops[0], ast.IsNot) and isinstance(x.comparators[0], ast.Constant) and x.comparators[0].value is None:
                        for y in H.expand(x.left, adefs):
                            if isinstance(y, ast.Call) and isinstance(y.func, ast.Attribute) and norm(y.func.value) == "self":
                                fold.add(y.func.attr)
    if not fold:
        raise AnalysisError("Converter.add_to_node: the foldability test of the @list branch was not found")
    rep.ob("C06.m-jsonld-list-container-term-only-for-a-foldable-value", js, "Converter.add_to_node", "an array is written under a @list term only if self.%s(...) is not None" % sorted(fold)[0], True,
           "", node=branches[0])
    test_ids = {id(x) for n in own_nodes(an) if isinstance(n, (ast.If, ast.IfExp, ast.While)) for x in ast.walk(n.test) if is_list_test(x) for x in ast.walk(x)}
    offers = [n for n in own_nodes(an) if isinstance(n, ast.Name) and n.id == "LIST" and isinstance(n.ctx, ast.Load) and id(n) not in test_ids]
    if not offers:
        raise AnalysisError("Converter.add_to_node: no place offers LIST as a container for the term lookup")
    for n in offers:
        ok = False
        for t in H.governing_tests(js, n, an):
            for x in ast.walk(t):
                if isinstance(x, ast.Compare) and isinstance(x.ops[0], ast.IsNot) and isinstance(x.comparators[0], ast.Constant) and x.comparators[0].value is None:
                    if any(isinstance(y, ast.Call) and isinstance(y.func, ast.Attribute) and norm(y.func.value) == "self" and y.func.attr in fold for y in H.expand(x.left, adefs)):
                        ok = True
        site = H.stmt_of(js, n)
        rep.ob("C06.m-jsonld-list-container-term-only-for-a-foldable-value", js, "Converter.add_to_node", "LIST offered as container [%s]" % norm(site)[:80], ok,
               "only when the value folds" if ok else
               "a term with a @list container is chosen for any node that has an rdf:first, also when self.%s(...) is None (shared tail, extra properties on a cell): the node reference "
               "written under that term is read back wrapped in a new list" % sorted(fold)[0], node=n)

    # ------------------------------------------------------------------ (n)  F150 a
    rep.rule("C06.n-native-json-value-only-of-a-well-typed-literal",
             "a quad serializer that turns a Literal into a native value with toPython() looks at <literal>.ill_typed and replaces the value (or leaves) when it is set: toPython() of "
             "\"abc\"^^xsd:integer is the literal itself, which the JSON-LD writer emitted as the bare string \"abc\" - read back as a plain string (or with the context's language)", floor=1)
    npy = 0
    for name in QUAD_SER:
        mod = repo.mod("rdflib.plugins.serializers." + name)
        for q, f in mod.functions():
            for c in own_nodes(f):
                if isinstance(c, ast.Call) and isinstance(c.func, ast.Attribute) and c.func.attr == "toPython" and _has_type(typed, mod.name, c.func.value, "rdflib.term.Literal"):
                    npy += 1
                    lit = norm(c.func.value)
                    holder = [t.id for s in own_nodes(f) if isinstance(s, ast.Assign) and s.value is c for t in s.targets if isinstance(t, ast.Name)]
                    ok = False
                    for n in own_nodes(f):
                        if isinstance(n, ast.If) and any(isinstance(x, ast.Attribute) and x.attr == "ill_typed" and norm(x.value) == lit for x in ast.walk(n.test)):
                            for s in [x for b in n.body for x in ast.walk(b)]:
                                if isinstance(s, (ast.Return, ast.Raise)) or (isinstance(s, ast.Assign) and any(isinstance(t, ast.Name) and t.id in holder for t in s.targets)):
                                    ok = True
                    rep.ob("C06.n-native-json-value-only-of-a-well-typed-literal", mod, q, c, ok,
                           "%s.ill_typed replaces the value" % lit if ok else
                           "the value of %s.toPython() is written without a test of %s.ill_typed: \"abc\"^^xsd:integer becomes the bare JSON string \"abc\" and loses its datatype" % (lit, lit), node=c)
    if npy < 1:
        raise AnalysisError("no Literal.toPython() conversion found in the quad serializers")

    # ------------------------------------------------------------------ (o)  F150 b
    rep.rule("C06.o-jsonld-bare-literal-value-considers-the-default-language",
             "JSON-LD Converter.to_raw_value: a literal is returned as a bare JSON value (anything but a {...} value object) only under a condition that depends on the context's "
             "default @language: the reader gives every bare string that language, so \"x\"^^xsd:string written as \"x\" under {\"@language\": \"en\"} came back as \"x\"@en", floor=2)
    rv = js.func("Converter.to_raw_value")
    rdefs = H.local_defs(rv)
    lit_branches = []
    for n in own_nodes(rv):
        if isinstance(n, ast.If) and any(isinstance(x, ast.Call) and norm(x.func) == "isinstance" and len(x.args) == 2 and norm(x.args[1]) == "Literal" for x in ast.walk(n.test)):
            lit_branches.append(n)
    if not lit_branches:
        raise AnalysisError("Converter.to_raw_value: the Literal branch was not found")
    nbare = 0
    for br in lit_branches:
        # (the value returned for a literal: the returns of the branch, and of the code of this module the branch hands the literal on to)
        for r, chain in H.delegated_returns(js, "Converter", rv, br.body):
            if isinstance(r.value, ast.Dict):
                continue
            nbare += 1
            ok = any(isinstance(x, ast.Attribute) and x.attr == "language" and _has_type(typed, js.name, x.value, "rdflib.plugins.shared.jsonld.context.Context")
                     for x, _frame in H.governing_nodes(js, rv, r, chain, stop=br.test))
            rep.ob("C06.o-jsonld-bare-literal-value-considers-the-default-language", js, "Converter." + (chain[-1][2].name if chain else "to_raw_value"), r, ok, "depends on the context's default language" if ok else
                   "a bare value is returned for a literal without looking at the context's default @language: a string value (xsd:string, or an ill-typed literal's lexical form) is read back "
                   "with that language", node=r)
    if nbare < 2:
        raise AnalysisError("Converter.to_raw_value: expected >= 2 bare returns in the Literal branch, found %d" % nbare)

    # ------------------------------------------------------------------ (p)  F152
    rep.rule("C06.p-jsonld-vocab-relative-name-yields-to-the-term-table",
             "JSON-LD Context: expand() looks a name up in the term table before it prefixes @vocab; a method that compacts an IRI to its @vocab-relative name (a return under a "
             "comparison with self.vocab) therefore returns that name only after looking it up in self.terms: with {\"@vocab\": \"http://v/\", \"name\": \"http://other/name\"} the predicate "
             "<http://v/name> was written as \"name\" and read back as <http://other/name>", floor=2)
    cx = repo.mod("rdflib.plugins.shared.jsonld.context")
    ex = cx.func("Context.expand")
    epar = ex.args.args[1].arg if len(ex.args.args) > 1 else None
    premise = any(isinstance(c, ast.Call) and isinstance(c.func, ast.Attribute) and c.func.attr == "get" and norm(c.func.value) == "self.terms" and c.args and norm(c.args[0]) == epar for c in own_nodes(ex))
    rep.ob("C06.p-jsonld-vocab-relative-name-yields-to-the-term-table", cx, "Context.expand", "a name is looked up in self.terms first", True,
           "term table wins over @vocab" if premise else "expand() no longer looks the whole name up in self.terms: the obligation below is moot", node=ex)
    nv = 0
    for mname, f in cx.methods("Context").items():
        fdefs = H.local_defs(f)
        params = {a.arg for a in f.args.args}
        for n in own_nodes(f):
            if not (isinstance(n, ast.If) and any(isinstance(x, ast.Compare) and any(norm(o) == "self.vocab" for o in [x.left] + x.comparators) and isinstance(x.ops[0], ast.Eq) for x in ast.walk(n.test))):
                continue
            for r in [x for s in n.body for x in ast.walk(s)]:
                if not (isinstance(r, ast.Return) and isinstance(r.value, ast.Name) and r.value.id not in params):
                    continue
                nv += 1
                v = r.value.id
                ok = False
                for t in H.governing_tests(cx, r, f):
                    for x in H.expand(t, fdefs):
                        if isinstance(x, ast.Call) and isinstance(x.func, ast.Attribute) and x.func.attr == "get" and norm(x.func.value) == "self.terms" and x.args and norm(x.args[0]) == v:
                            ok = True
                        if isinstance(x, ast.Subscript) and norm(x.value) == "self.terms" and norm(x.slice) == v:
                            ok = True
                        if isinstance(x, ast.Compare) and norm(x.left) == v and any(norm(c) == "self.terms" for c in x.comparators):
                            ok = True
                rep.ob("C06.p-jsonld-vocab-relative-name-yields-to-the-term-table", cx, "Context." + mname, "%s [under %s]" % (norm(r), norm(n.test)), ok or not premise,
                       "the name is looked up in self.terms before it is returned" if ok else
                       "the @vocab-relative name is returned without a look into self.terms: when it is a term that stands for another IRI, the reader expands it to that other IRI", node=r)
    if nv < 1:
        raise AnalysisError("Context: no method returns a @vocab-relative name")


def _flows_into_term(repo: Repo, mod, f: ast.AST, q: str, c: ast.Call) -> bool:
    """Does the value of the expression c become (part of the argument of) a call whose static type is an rdflib term?"""
    return bool(_term_sinks(repo, mod, f, q, c, first_only=True))


def _term_kinds(repo: Repo, mod, sink: ast.Call, _depth: int = 1) -> set[str]:
    """The kinds of term (class names of rdflib.term) a term-making call yields: by its static type; else, for a call of a method
    of the same class / function of the module, what the term constructors in that callee yield; else the name called."""
    from vlib import h_c06 as H

    typed = repo.typed
    tf = typed.type_of(mod.name, sink)
    kinds = {i.rsplit(".", 1)[-1] for i in (tf.items if tf is not None else []) if i.startswith("rdflib.term.") and typed.is_subclass(i, "rdflib.term.Node")}
    if not kinds and _depth > 0:
        q = mod.qual_of(sink)
        while q and not isinstance(mod.defs.get(q), ast.ClassDef):
            q = q.rsplit(".", 1)[0] if "." in q else ""
        tgt = H.local_callee(mod, q or None, sink)
        if tgt is not None:
            for x in own_nodes(tgt[0], include_nested=True):
                if isinstance(x, ast.Call) and x is not sink and (norm(x.func) in ("URIRef", "BNode", "Literal") or _has_type(typed, mod.name, x, "rdflib.term.Node")):
                    kinds |= _term_kinds(repo, mod, x, _depth - 1)
    return kinds or {norm(sink.func).rsplit(".", 1)[-1]}


def _term_sinks(repo: Repo, mod, f: ast.AST, q: str, c: ast.Call, first_only: bool = False) -> list[ast.Call]:
    """The term-making calls (static type an rdflib term, or a term constructor by name) that the value of the expression c becomes
    (part of) an argument of: directly, through one local name / self attribute it is stored in, and through one call that hands
    it to a method of the same class / a function of the module as a parameter (the term is then made over there)."""
    from vlib import h_c06 as H

    typed = repo.typed
    sinks: list[ast.Call] = []
    cls = q.rsplit(".", 1)[0] if "." in q else None
    if not (cls and isinstance(mod.defs.get(cls), ast.ClassDef)):
        cls = None

    def term_call(x: ast.AST) -> bool:
        return isinstance(x, ast.Call) and (_has_type(typed, mod.name, x, "rdflib.term.Node") or norm(x.func) in ("URIRef", "BNode", "Literal"))

    def into_callee(call: ast.Call, carries) -> list[ast.Call]:
        """term-making calls, inside the local callee of `call`, fed by a parameter for which the call passes an argument that carries the text"""
        tgt = H.local_callee(mod, cls, call)
        if tgt is None:
            return []
        callee, is_method = tgt
        pos = [a.arg for a in callee.args.posonlyargs + callee.args.args]
        fed = {pos[i + (1 if is_method else 0)] for i, a in enumerate(call.args)
               if not isinstance(a, ast.Starred) and i + (1 if is_method else 0) < len(pos) and carries(a)}
        fed |= {k.arg for k in call.keywords if k.arg and carries(k.value)}
        return [x for x in own_nodes(callee, include_nested=True) if term_call(x) and any(
            isinstance(y, ast.Name) and y.id in fed for a in list(x.args) + [k.value for k in x.keywords] for y in ast.walk(a))]  # type: ignore[misc]

    stmt = None
    for p in mod.parents(c):
        if term_call(p):
            return [p]  # type: ignore[list-item]
        if isinstance(p, ast.Call):
            inner = into_callee(p, lambda a: any(y is c for y in ast.walk(a)))
            if inner:
                return inner
        if isinstance(p, ast.stmt):
            stmt = p
            break
    # one step of def-use: the trimmed text is stored in a local name / self attribute that is later passed to a term constructor
    tgts: list[str] = []
    if isinstance(stmt, ast.Assign):
        tgts = [norm(t) for t in stmt.targets if isinstance(t, (ast.Name, ast.Attribute))]
    elif isinstance(stmt, (ast.AugAssign, ast.AnnAssign)) and isinstance(stmt.target, (ast.Name, ast.Attribute)):
        tgts = [norm(stmt.target)]
    if not tgts:
        return []
    fns = [f]
    if cls and any(t.startswith("self.") for t in tgts):
        fns = list(mod.methods(cls).values())

    def carries_name(a: ast.AST) -> bool:
        return any(isinstance(y, (ast.Name, ast.Attribute)) and norm(y) in tgts for y in ast.walk(a))

    for fn in fns:
        for x in own_nodes(fn, include_nested=True):
            if not isinstance(x, ast.Call):
                continue
            if term_call(x):
                if any(carries_name(a) for a in list(x.args) + [k.value for k in x.keywords]):
                    sinks.append(x)
            else:
                sinks += into_callee(x, carries_name)
            if sinks and first_only:
                return sinks
    return sinks


_run_base5 = run

PLUGIN_IO = ("rdflib.plugins.parsers.", "rdflib.plugins.serializers.", "rdflib.plugins.shared.jsonld.")
JSONLD_CONTEXT = "rdflib.plugins.shared.jsonld.context"


def _rdflib_defs(typed, classes: list[str], module: str) -> set[str]:
    """Non-dunder names defined in the bodies of the classes of `module` that are in the MRO of `classes`."""
    out: set[str] = set()
    for c in classes:
        for b in typed.mro(c):
            d = typed.classes.get(b)
            if d and d.get("module") == module and b != "rdflib.term.Node":
                out |= {x for x in d["defs"] if not (x.startswith("__") and x.endswith("__"))}
    return out


def _encoding_writers(repo: Repo) -> list[tuple]:
    """(module, class name) of the serializer classes that wrap the byte stream in a codec writer (codecs.lookup / getwriter)."""
    out = []
    for mname in sorted(m for m in repo.modules if m.startswith("rdflib.plugins.serializers.")):
        mod = repo.mod(mname)
        for st in mod.tree.body:
            if isinstance(st, ast.ClassDef):
                init = mod.defs.get(st.name + ".__init__")
                if isinstance(init, ast.FunctionDef) and any(isinstance(c, ast.Call) and norm(c.func) in ("codecs.lookup", "codecs.getwriter") for c in own_nodes(init)):
                    out.append((mod, st.name))
    return out


def run(repo: Repo, rep: Report) -> None:  # noqa: F811
    _layer(rep, _run_base5, repo)
    from vlib import h_c06 as H

    typed = repo.typed
    io_mods = [repo.mod(m) for m in sorted(repo.modules) if m.startswith(PLUGIN_IO)]
    ser_mods = [m for m in io_mods if m.name.startswith("rdflib.plugins.serializers.")]

    # ------------------------------------------------------------------ (q)  F260
    rep.rule("C06.q-graph-or-term-probe-uses-a-separating-attribute",
             "in the parsers and serializers, a duck-type probe getattr(x, '<a>', ...) / hasattr(x, '<a>') on a value that may be a graph or a term does not use an attribute "
             "that both the Graph classes and the term classes define: Identifier.identifier exists (it is str(self)), so `getattr(c, 'identifier', c)` over the rows of "
             "Dataset.quads() - where c is the graph NAME - turned the blank node _:g into the str 'g', and the RDF Patch diff wrote the graph as <g>", floor=1)
    g_attrs = _rdflib_defs(typed, ["rdflib.graph.Graph", "rdflib.graph.ConjunctiveGraph", "rdflib.graph.Dataset"], "rdflib.graph")
    t_classes = [c for c in typed.subclasses("rdflib.term.Identifier") if not typed.is_subclass(c, "rdflib.graph.Graph")]
    t_attrs = _rdflib_defs(typed, t_classes, "rdflib.term")
    if "identifier" not in g_attrs or not t_classes:
        raise AnalysisError("class facts: Graph.identifier / the term classes were not found")
    both = g_attrs & t_attrs
    tm = repo.mod("rdflib.term")
    rep.ob("C06.q-graph-or-term-probe-uses-a-separating-attribute", tm, "Identifier", "attributes that do not tell a graph from a term: %s" % ", ".join(sorted(both)) or "-", True,
           "defined by a Graph class and by a term class", node=tm.cls("Identifier"))
    for mod in io_mods:
        for q, f in mod.functions():
            for c in own_nodes(f):
                if not (isinstance(c, ast.Call) and isinstance(c.func, ast.Name) and c.func.id in ("getattr", "hasattr") and len(c.args) >= 2
                        and isinstance(c.args[1], ast.Constant) and isinstance(c.args[1].value, str)):
                    continue
                a = c.args[1].value
                if a not in g_attrs and a not in t_attrs:
                    continue
                tf = typed.type_of(mod.name, c.args[0])
                if tf is not None and not tf.any and "builtins.object" not in tf.items and not any(
                        typed.is_subclass(i, "rdflib.term.Node") for i in tf.items):
                    continue  # statically neither a graph nor a term
                rep.ob("C06.q-graph-or-term-probe-uses-a-separating-attribute", mod, q, c, a not in both,
                       "'%s' separates graphs from terms" % a if a not in both else
                       "every graph and every term has '%s': the probe never takes its default, a term is replaced by its %s (a str for a blank node or IRI: the kind of the term is lost)" % (a, a), node=c)

    # ------------------------------------------------------------------ (r)  F261
    writers = _encoding_writers(repo)
    if not writers:
        raise AnalysisError("no serializer class wraps its stream in a codec writer (XMLWriter was expected)")
    wfull = {"%s.%s" % (m.name, c) for m, c in writers}
    wshort = {c for m, c in writers}
    rep.rule("C06.r-no-raw-write-beside-an-encoding-writer",
             "a serializer function that hands its byte stream to an encoding writer (a class that wraps the stream with codecs.lookup(encoding): XMLWriter) writes nothing to the "
             "raw stream itself: bytes written beside the writer are not in the encoding of the document - the final `stream.write('\\n'.encode('latin-1'))` of the TriX "
             "serializer made a UTF-16 document end in half a code unit, which no XML parser reads", floor=2)
    for mod in ser_mods:
        for q, f in mod.functions():
            for c in own_nodes(f):
                if not isinstance(c, ast.Call):
                    continue
                tf = typed.type_of(mod.name, c)
                if not ((tf is not None and any(i in wfull for i in tf.items)) or (isinstance(c.func, ast.Name) and c.func.id in wshort)):
                    continue
                raw = c.args[0] if c.args else next((k.value for k in c.keywords if k.arg == "stream"), None)
                if not isinstance(raw, ast.Name):
                    continue
                bad = list(H.stream_write_calls(f, lambda r, _n=raw.id: isinstance(r, ast.Name) and r.id == _n))
                for w in bad:
                    rep.ob("C06.r-no-raw-write-beside-an-encoding-writer", mod, q, w, False,
                           "`%s` is handed to %s, which encodes what it writes; this write goes to the raw stream and is not encoded with the document's encoding "
                           "(encoding='utf-16': the document cannot be parsed)" % (raw.id, norm(c.func)), node=w)
                if not bad:
                    rep.ob("C06.r-no-raw-write-beside-an-encoding-writer", mod, q, c, True, "everything is written through the writer", node=c)

    # ------------------------------------------------------------------ (s)  F262
    rep.rule("C06.s-xml-character-data-is-written-with-character-references",
             "an encoding writer (XMLWriter; its stream is a strict codec writer) passes every piece of character data - the result of xml.sax.saxutils.escape / quoteattr, "
             "and a parameter written as it is (CDATA) - through a method of the class that replaces what the encoding does not have ('xmlcharrefreplace'); a raw write "
             "is governed by a comparison with that method's result. Otherwise `Literal('\\u0416')` in a TriX document with encoding='latin-1' raises UnicodeEncodeError "
             "instead of being written as &#1046;", floor=3)
    for mod, cname in writers:
        meths = mod.methods(cname)
        sanit = {n for n, fn in meths.items() if any(isinstance(x, ast.Constant) and x.value == "xmlcharrefreplace" for x in ast.walk(fn))}
        sanit_names = sanit | {"_%s%s" % (cname.lstrip("_"), n) for n in sanit if n.startswith("__") and not n.endswith("__")}  # (private names, also as mangled)
        cd_funcs = H.imported_from(mod, "xml.sax.saxutils")

        def sanitised(e: ast.AST, fn: ast.AST) -> bool:
            for p in mod.parents(e):
                if p is fn:
                    break
                if isinstance(p, ast.Call) and isinstance(p.func, ast.Attribute) and p.func.attr in sanit_names and norm(p.func.value) == "self":
                    return True
            return False

        for mname, fn in meths.items():
            if mname in sanit:
                continue
            q = "%s.%s" % (cname, mname)
            for c in own_nodes(fn, include_nested=True):
                if isinstance(c, ast.Call) and isinstance(c.func, ast.Name) and c.func.id in cd_funcs:
                    ok = sanitised(c, fn)
                    rep.ob("C06.s-xml-character-data-is-written-with-character-references", mod, q, c, ok,
                           "through self.%s" % sorted(sanit)[0] if ok else
                           "%s is written without a character reference for what the encoding of the document does not have: a non-Latin-1 character with encoding='latin-1' "
                           "(or any non-ASCII one with 'ascii') raises UnicodeEncodeError%s" % (norm(c), "" if sanit else " (no method of %s uses 'xmlcharrefreplace')" % cname), node=c)
            pars = set(H.params(fn)) - {"self"}
            for w in H.stream_write_calls(fn, lambda r: norm(r) == "self.stream"):
                if len(w.args) == 1 and isinstance(w.args[0], ast.Name) and w.args[0].id in pars:
                    p = w.args[0].id
                    ok = any(isinstance(x, ast.Compare) and H.mentions(x, p) and any(
                        isinstance(y, ast.Call) and isinstance(y.func, ast.Attribute) and y.func.attr in sanit_names and norm(y.func.value) == "self" and any(H.mentions(a, p) for a in y.args)
                        for y in ast.walk(x)) for t in H.governing_tests(mod, w, fn) for x in ast.walk(t))
                    rep.ob("C06.s-xml-character-data-is-written-with-character-references", mod, q, w, ok,
                           "written as it is only when self.%s leaves it unchanged" % sorted(sanit)[0] if ok else
                           "the parameter %s is written as it is (CDATA) without a test that the encoding has all its characters: UnicodeEncodeError for a character the encoding "
                           "does not have" % p, node=w)
    # (what a quad serializer writes to the writer's stream directly is constant markup)
    for name in QUAD_SER:
        mod = repo.mod("rdflib.plugins.serializers." + name)
        for q, f in mod.functions():
            def through_writer(r: ast.AST, _m=mod) -> bool:
                if not (isinstance(r, ast.Attribute) and r.attr == "stream"):
                    return False
                tf = typed.type_of(_m.name, r.value)
                return tf is not None and any(i in wfull for i in tf.items)
            for w in H.stream_write_calls(f, through_writer):
                ok = all(isinstance(a, ast.Constant) for a in w.args)
                rep.ob("C06.s-xml-character-data-is-written-with-character-references", mod, q, w, ok,
                       "constant markup" if ok else "data is written to the writer's stream directly, without character references for what the encoding does not have", node=w)

    # ------------------------------------------------------------------ (t)  F263
    rep.rule("C06.t-xmlns-declarations-only-for-ncname-prefixes",
             "a serializer that writes `xmlns:<prefix>=` declarations for the bindings of the graph (an iteration over <namespace manager>.namespaces()) declares a binding only "
             "after is_ncname(prefix) and a comparison of the prefix with 'xmlns': the JSON-LD parser binds the context term '3d' as a prefix, and `xmlns:3d=...` in the "
             "TriX document made it one that is not well-formed", floor=1)
    for mod in ser_mods:
        for q, f in mod.functions():
            defs = H.local_defs(f)
            for loop in [n for n in own_nodes(f) if isinstance(n, ast.For)]:
                if not (isinstance(loop.target, ast.Tuple) and loop.target.elts and isinstance(loop.target.elts[0], ast.Name)):
                    continue
                pfx = loop.target.elts[0].id
                decls = [c for s in loop.body for c in ast.walk(s) if isinstance(c, ast.Call) and any(
                    isinstance(x, ast.Constant) and isinstance(x.value, str) and "xmlns:" in x.value for a in c.args for x in ast.walk(a)) and any(H.mentions(a, pfx) for a in c.args)]
                if not decls:
                    continue
                for src in H.expand(loop.iter, defs):
                    if not (isinstance(src, ast.Call) and isinstance(src.func, ast.Attribute) and src.func.attr == "namespaces" and not src.args and not src.keywords):
                        continue
                    tf = typed.type_of(mod.name, src.func.value)
                    if tf is not None and not tf.any and not any(i.endswith(".NamespaceManager") or typed.is_subclass(i, "rdflib.graph.Graph") for i in tf.items):
                        continue
                    comp = next((p for p in mod.parents(src) if isinstance(p, ast.comprehension)), None)
                    if comp is not None and comp.iter is src and isinstance(comp.target, ast.Tuple) and comp.target.elts and isinstance(comp.target.elts[0], ast.Name):
                        v, tests = comp.target.elts[0].id, list(comp.ifs)
                    else:
                        v, tests = pfx, [t for d in decls for t in H.governing_tests(mod, d, f)]
                        # (or a guard at the top of the loop body: `if not is_ncname(prefix) ...: continue`)
                        tests += [st.test for st in loop.body if isinstance(st, ast.If) and any(isinstance(x, ast.Continue) for x in st.body)]
                    nc = any(isinstance(x, ast.Call) and norm(x.func).split(".")[-1] == "is_ncname" and x.args and H.mentions(x.args[0], v) for t in tests for x in ast.walk(t))
                    xm = any(isinstance(x, ast.Compare) and H.mentions(x, v) and H.has_const(x, "xmlns") for t in tests for x in ast.walk(t))
                    rep.ob("C06.t-xmlns-declarations-only-for-ncname-prefixes", mod, q, "%s -> %s" % (norm(src), norm(decls[0])[:70]), nc and xm,
                           "filtered by is_ncname and against 'xmlns'" if nc and xm else
                           "every binding of the graph is declared%s: a prefix that is no NCName ('3d', '1x') or is 'xmlns' gives a document that is not well-formed XML" %
                           ("" if not nc else " that is an NCName, 'xmlns' included"), node=src)

    js = repo.mod("rdflib.plugins.serializers.jsonld")
    cx = repo.mod(JSONLD_CONTEXT)
    CTX = JSONLD_CONTEXT + ".Context"

    # ------------------------------------------------------------------ (u)  F293
    rep.rule("C06.u-compacted-iri-absent-by-identity",
             "in the quad serializers, a local name that is None for 'absent' and otherwise holds the result of a Context method that compacts an IRI (shrink_iri, to_symbol: "
             "the IRI that equals the base is shrunk to '') is tested with `is None`, never by truthiness: `if not graphname and len(nodes) == 1` wrote the only node of the "
             "named graph <base> unwrapped, i.e. into the default graph", floor=1)
    for name in QUAD_SER:
        mod = repo.mod("rdflib.plugins.serializers." + name)
        for q, f in mod.functions():
            if "." in q and isinstance(mod.defs.get(q.rsplit(".", 1)[0]), ast.FunctionDef):
                continue
            defs = H.local_defs(f)
            for v, vals in sorted(defs.items()):
                if not any(H.is_const(d, None) for d in vals):
                    continue
                if not any(isinstance(d, ast.Call) and any(t.startswith(CTX + ".") for t in typed.callees(mod.name, d)) and
                           (lambda tf: tf is not None and "builtins.str" in tf.items)(typed.type_of(mod.name, d)) for d in vals):
                    continue
                seen_u: set[int] = set()
                for e, owner, kind in truthy.bool_contexts(f):
                    if isinstance(e, ast.Name) and e.id == v and id(e) not in seen_u:
                        seen_u.add(id(e))
                        rep.ob("C06.u-compacted-iri-absent-by-identity", mod, q, "%s [in %s: %s]" % (v, kind, norm(getattr(owner, "test", owner))[:70]), False,
                               "%s is None when there is no name and '' when the IRI is the base: by truthiness the graph (node) named by the base is taken for an unnamed one" % v, node=e)
                for n in own_nodes(f, include_nested=True):
                    if isinstance(n, ast.Compare) and isinstance(n.left, ast.Name) and n.left.id == v and isinstance(n.ops[0], (ast.Is, ast.IsNot)) and H.is_const(n.comparators[0], None):
                        rep.ob("C06.u-compacted-iri-absent-by-identity", mod, q, n, True, "tested by identity", node=n)

    # ------------------------------------------------------------------ (v)  F294
    rep.rule("C06.v-context-to-dict-writes-what-compaction-reads",
             "Context.load (through _read_source) stores context-wide settings (@vocab, @base, @language ...) in attributes; every such attribute that the JSON-LD serializer's compaction "
             "reads - in the Context methods the serializer calls, or directly - is written back under its key by Context.to_dict(): from_rdf() emits to_dict() as the "
             "@context of the document when it is given a Context instance, and a property shortened against @vocab cannot be expanded again by a @context without @vocab", floor=3)
    # (the code that reads a context document: what the public Context.load reaches on self - _read_source today)
    rscope = H.reach_methods(cx, "Context", ["load"])
    if "load" not in rscope:
        raise AnalysisError("Context.load not found")
    td = cx.func("Context.to_dict")
    pairs: dict[str, tuple[str, str]] = {}  # keyword -> (constant name, attribute)
    for n in [x for rs in rscope.values() for x in own_nodes(rs)]:
        if not (isinstance(n, ast.Assign) and len(n.targets) == 1 and isinstance(n.targets[0], ast.Attribute) and norm(n.targets[0].value) == "self"):
            continue
        attr = n.targets[0].attr
        cands: list[ast.Name] = []
        if isinstance(n.value, ast.Call) and isinstance(n.value.func, ast.Attribute) and n.value.func.attr == "get" and n.value.args and isinstance(n.value.args[0], ast.Name):
            cands.append(n.value.args[0])
        for t in H.body_tests(cx, n):  # `elif key == K: ... self.attr = value`
            here = [s for x in ast.walk(t) if isinstance(x, ast.Compare) and len(x.ops) == 1 and isinstance(x.ops[0], ast.Eq)
                    for s in (x.left, x.comparators[0]) if isinstance(s, ast.Name) and H.key_value(repo, cx, s.id) is not None]
            if here:
                cands += here
                break
        for k in cands:
            kv = H.key_value(repo, cx, k.id)
            if kv is not None:
                pairs[kv] = (k.id, attr)
    if len(pairs) < 3:
        raise AnalysisError("Context.load and the methods it calls: expected >= 3 (keyword, attribute) settings, found %s" % sorted(pairs))
    cmeths = cx.methods("Context")
    called = set()
    direct = set()
    for q, f in js.functions():
        for n in own_nodes(f):
            if isinstance(n, ast.Attribute) and isinstance(n.ctx, ast.Load):
                tf = typed.type_of(js.name, n.value)
                if tf is not None and CTX in tf.items:
                    (called if n.attr in cmeths else direct).add(n.attr)
    called.discard("to_dict")
    for _ in range(3):
        called |= {m for c in list(called) if c in cmeths for m in H.self_calls(cmeths[c]) if m in cmeths}
    reads = set(direct)
    for c in called:
        reads |= H.self_attr_reads(cmeths[c])
    if not called:
        raise AnalysisError("the JSON-LD serializer calls no Context method")
    written: dict[str, str] = {}
    for n in own_nodes(td):
        kvs: list[tuple[ast.AST, ast.AST]] = []
        if isinstance(n, ast.Assign) and isinstance(n.targets[0], ast.Subscript):
            kvs.append((n.targets[0].slice, n.value))
        if isinstance(n, ast.Dict):
            kvs += [(k, v) for k, v in zip(n.keys, n.values) if k is not None]
        for k, v in kvs:
            kv = H.key_value(repo, cx, k.id) if isinstance(k, ast.Name) else (k.value if isinstance(k, ast.Constant) else None)
            if isinstance(kv, str):
                written[kv] = norm(v)
    for kv, (kname, attr) in sorted(pairs.items()):
        used = attr in reads or bool(H.setter_writes(cx, "Context", attr) & reads)
        if not used:
            continue
        ok = kv in written and ("self.%s" % attr) in written[kv]
        rep.ob("C06.v-context-to-dict-writes-what-compaction-reads", cx, "Context.to_dict", "r[%s] = self.%s" % (kname, attr), ok,
               "written back" if ok else
               "the serializer's compaction reads self.%s (set from %s by _read_source) but to_dict() does not write %s: given a Context instance, the document's @context lacks it and "
               "the names shortened against it do not expand to the IRIs they were made from" % (attr, kv, kv), node=td)

    # ------------------------------------------------------------------ (w)  F295
    rep.rule("C06.w-jsonld-writer-considers-every-container-the-reader-interprets",
             "every @container keyword K for which the JSON-LD reader has a test `K in term.container` (it reads the value under such a term in a special way: as a list, a language "
             "map, an index / id / type / graph map) is looked at by Converter.add_to_node before the term's name is used as the key - by a test `K in term.container` of its own or "
             "by a test of term.container against a constant set that has K: under a term with \"@container\": \"@index\" the value object {\"@id\": \"http://e/o\"} was read "
             "back as the map {index: value}, i.e. as the literal \"http://e/o\"", floor=4)
    jp = repo.mod("rdflib.plugins.parsers.jsonld")

    def container_tests(mod, fn) -> dict[str, ast.AST]:
        out: dict[str, ast.AST] = {}
        for n in own_nodes(fn, include_nested=True):
            if isinstance(n, ast.Compare) and len(n.ops) == 1 and isinstance(n.ops[0], (ast.In, ast.NotIn)) and isinstance(n.left, ast.Name) \
                    and isinstance(n.comparators[0], ast.Attribute) and n.comparators[0].attr == "container":
                kv = H.key_value(repo, mod, n.left.id)
                if kv is not None:
                    out.setdefault(kv, n)
        return out

    reader: dict[str, tuple[str, ast.AST]] = {}
    for q, f in jp.functions():
        for kv, n in container_tests(jp, f).items():
            reader.setdefault(kv, (q, n))
    an = js.func("Converter.add_to_node")
    writer = set(container_tests(js, an))
    for n in own_nodes(an):  # tests of term.container against a module-level constant collection of keywords
        if isinstance(n, (ast.Call, ast.BinOp, ast.Compare)) and any(isinstance(x, ast.Attribute) and x.attr == "container" for x in ast.walk(n)):
            for x in ast.walk(n):
                if isinstance(x, ast.Name) and H.key_value(repo, js, x.id) is None:
                    for st in js.tree.body:
                        if isinstance(st, ast.Assign) and any(isinstance(t, ast.Name) and t.id == x.id for t in st.targets):
                            writer |= {kv for y in ast.walk(st.value) if isinstance(y, ast.Name) for kv in [H.key_value(repo, js, y.id)] if kv is not None}
    if len(reader) < 4:
        raise AnalysisError("JSON-LD parser: expected >= 4 containers tested with `K in term.container`, found %s" % sorted(reader))
    for kv, (q, n) in sorted(reader.items()):
        rep.ob("C06.w-jsonld-writer-considers-every-container-the-reader-interprets", js, "Converter.add_to_node", "%s [reader: %s in %s]" % (kv, norm(n), q), kv in writer,
               "considered by the writer" if kv in writer else
               "the reader interprets the value under a term with the container %s in its own way, the writer uses such a term as the key of an ordinary value object: "
               "the value comes back as the entries of a map (an IRI object as a literal, or as statements about other nodes)" % kv, node=an)

    # ------------------------------------------------------------------ (x)  F296
    rep.rule("C06.x-vocab-relative-name-must-read-back-as-a-term",
             "a Context method that compacts an IRI to its @vocab-relative name returns the name only under tests that it is not empty, has no ':' (Context._prep_expand reads "
             "a name with a colon as a compact or absolute IRI) and does not start with '@' (Context._accept_term drops keyword-like names): with @vocab <http://v/>, "
             "<http://v/taxon:9606> was written as \"taxon:9606\" and read back as the IRI <taxon:9606>", floor=3)
    # (the reader's side: what the public Context.expand reaches on self splits a name at ':' - _prep_expand today -, and what expand / add_term / load reach
    # refuses keyword-like names - _accept_term today)
    pe = H.reach_methods(cx, "Context", ["expand"])
    at = H.reach_methods(cx, "Context", ["expand", "add_term", "load"])
    if not any(isinstance(n, ast.Compare) and H.has_const(n, ":") for fn in pe.values() for n in own_nodes(fn)) or \
            not any(isinstance(n, ast.Compare) and H.has_const(n, "@") for fn in at.values() for n in own_nodes(fn)):
        raise AnalysisError("Context.expand / add_term / load: the reader's tests for ':' and '@' were not found")
    for mname, f in cmeths.items():
        fdefs = H.local_defs(f)
        fpars = set(H.params(f))
        for n in own_nodes(f):
            if not (isinstance(n, ast.If) and any(isinstance(x, ast.Compare) and any(norm(o) == "self.vocab" for o in [x.left] + x.comparators) and isinstance(x.ops[0], ast.Eq) for x in ast.walk(n.test))):
                continue
            for r in [x for s in n.body for x in ast.walk(s)]:
                if not (isinstance(r, ast.Return) and isinstance(r.value, ast.Name) and r.value.id not in fpars):
                    continue
                v = r.value.id
                tests = H.governing_tests(cx, r, f)
                nodes = [x for t in tests for x in H.expand(t, {k: d for k, d in fdefs.items() if k != v})]
                colon = any(isinstance(x, (ast.Compare, ast.Call)) and H.has_const(x, ":") and H.mentions(x, v) for x in nodes)
                kw = any(isinstance(x, (ast.Compare, ast.Call)) and H.mentions(x, v) and (H.has_const(x, "@") or (isinstance(x, ast.Call) and norm(x.func) == "self._accept_term")) for x in nodes)
                nonempty = any(isinstance(e, ast.Name) and e.id == v for t in tests for e in truthy.tested_exprs(t)) or any(
                    isinstance(x, ast.Compare) and H.mentions(x, v) and (H.has_const(x, "") or any(isinstance(y, ast.Call) and norm(y.func) == "len" for y in ast.walk(x))) for x in nodes)
                for what, ok, bad in (("has no ':'", colon, "with a colon ('taxon:9606' for <vocab + 'taxon:9606'>) is read back as a compact or absolute IRI"),
                                      ("does not start with '@'", kw, "that starts with '@' ('@type' for <vocab + '@type'>) is read back as a keyword or dropped"),
                                      ("is not empty", nonempty, "that is empty (the IRI equal to @vocab itself) is the key \"\", which is no term")):
                    rep.ob("C06.x-vocab-relative-name-must-read-back-as-a-term", cx, "Context." + mname, "%s %s [%s under %s]" % (v, what, norm(r), norm(n.test)[:80]), ok,
                           "tested" if ok else "the @vocab-relative name is returned without a test that it %s: a name %s" % (what, bad), node=r)

    # ------------------------------------------------------------------ (y)  F297
    rep.rule("C06.y-a-probing-call-does-not-record-state",
             "JSON-LD Converter: a method call whose result is only tested (it stands inside the test of an if / conditional expression / boolean operation and is not bound to a "
             "name) does not change the converter's record of what has been written: every statement of the callee that mutates a self attribute is governed by a flag parameter "
             "and the probing call passes the constant that switches it off. add_to_node asks to_collection(...) is not None merely to choose between terms; when that call "
             "recorded the cells in self._list_cells and the chosen term was one coerced to @id, only a reference to the head was written and the rdf:first/rdf:rest "
             "statements of the whole list were left out of the document", floor=1)
    conv = js.methods("Converter")
    MUT = ("add", "update", "append", "extend", "discard", "remove", "pop", "clear", "setdefault", "insert")
    for mname, f in conv.items():
        for c in own_nodes(f, include_nested=True):
            if not (isinstance(c, ast.Call) and isinstance(c.func, ast.Attribute) and norm(c.func.value) == "self" and c.func.attr in conv):
                continue
            par = js.parent.get(id(c))
            # (the value is thrown away when the call itself is compared with None, wherever that comparison stands)
            probing = isinstance(par, ast.Compare) and len(par.ops) == 1 and isinstance(par.ops[0], (ast.Is, ast.IsNot)) and any(H.is_const(x, None) for x in [par.left] + par.comparators)
            child: ast.AST = c
            for p in js.parents(c):
                if probing or (isinstance(p, (ast.If, ast.While, ast.IfExp)) and child is p.test):
                    probing = True
                    break
                if isinstance(p, (ast.stmt, ast.Call, ast.Lambda, ast.NamedExpr, ast.comprehension)) or (isinstance(p, ast.IfExp) and child is not p.test):
                    break
                child = p
            if not probing:
                continue
            callee = conv[c.func.attr]
            muts = [s for s in own_nodes(callee) if
                    (isinstance(s, ast.Expr) and isinstance(s.value, ast.Call) and isinstance(s.value.func, ast.Attribute) and s.value.func.attr in MUT and norm(s.value.func.value).startswith("self."))
                    or (isinstance(s, (ast.Assign, ast.AugAssign)) and any(norm(t).startswith("self.") for t in (s.targets if isinstance(s, ast.Assign) else [s.target])))]
            if not muts:
                continue
            cpars = set(H.params(callee)) - {"self"}
            problems = []
            for s in muts:
                off = False
                for t in H.governing_tests(js, s, callee):
                    want = None  # the truth value of the argument that switches the mutation off
                    if isinstance(t, ast.Name) and t.id in cpars:
                        flag, want = t.id, False
                    elif isinstance(t, ast.UnaryOp) and isinstance(t.op, ast.Not) and isinstance(t.operand, ast.Name) and t.operand.id in cpars:
                        flag, want = t.operand.id, True
                    if want is None:
                        continue
                    a = H.arg_for(c, callee, flag)
                    if a is None:
                        a = H.default_of(callee, flag)
                    if isinstance(a, ast.Constant) and bool(a.value) is want:
                        off = True
                if not off:
                    problems.append(norm(s))
            rep.ob("C06.y-a-probing-call-does-not-record-state", js, "Converter." + mname, c, not problems,
                   "the call switches the record keeping of %s off" % c.func.attr if not problems else
                   "the result of this call is only tested, yet %s executes `%s`: what the probe marks as written (the cells of a list) is skipped later although nothing was written "
                   "for it - the statements are missing from the document" % (c.func.attr, problems[0][:80]), node=c)

    # ------------------------------------------------------------------ (z)  F298
    rep.rule("C06.z-literal-under-an-iri-coercing-term-is-a-value-object",
             "JSON-LD Converter.to_raw_value returns a literal as a bare JSON value only under a test of a parameter (other than the value itself) through which the caller says "
             "that the term coerces strings to IRIs; the recursion over list members passes that parameter on, and every call from another method hands in an expression that "
             "reads <term>.type: under {\"p\": {\"@type\": \"@id\", \"@container\": \"@list\"}} the list ( \"x\" ) was written as [\"x\"] and read back as ( <x> )", floor=5)
    rv = js.func("Converter.to_raw_value")
    rdefs = H.local_defs(rv)
    rpars = [p for p in H.params(rv) if p != "self"]
    lit_br = [n for n in own_nodes(rv) if isinstance(n, ast.If) and any(isinstance(x, ast.Call) and norm(x.func) == "isinstance" and len(x.args) == 2 and norm(x.args[1]) == "Literal" for x in ast.walk(n.test))]
    if not lit_br:
        raise AnalysisError("Converter.to_raw_value: the Literal branch was not found")
    valpar = {x.id for br in lit_br for c in ast.walk(br.test) if isinstance(c, ast.Call) and norm(c.func) == "isinstance" for x in ast.walk(c.args[0]) if isinstance(x, ast.Name)}
    flags: Optional[set] = None
    bare = []
    for br in lit_br:
        # (as in rule o: a branch that hands the literal on to other code of the module returns what that code returns; a parameter of
        # that code is followed back to the argument to_raw_value passes for it)
        for r, chain in H.delegated_returns(js, "Converter", rv, br.body):
            if not isinstance(r.value, ast.Dict):
                bare.append(r)
                seen = {x.id for x, frame in H.governing_nodes(js, rv, r, chain, stop=br.test) if frame == 0 and isinstance(x, ast.Name) and x.id in rpars and x.id not in valpar}
                flags = seen if flags is None else flags & seen
                rep.ob("C06.z-literal-under-an-iri-coercing-term-is-a-value-object", js, "Converter." + (chain[-1][2].name if chain else "to_raw_value"), r, bool(seen),
                       "decided by the parameter %s" % ", ".join(sorted(seen)) if seen else
                       "a bare value is returned for a literal whatever the term it is written under: under a term coerced to @id / @vocab the reader takes the string for an IRI", node=r)
    if len(bare) < 2:
        raise AnalysisError("Converter.to_raw_value: expected >= 2 bare returns in the Literal branch, found %d" % len(bare))
    flags = flags or set()
    for mname, f in conv.items():
        fdefs = H.local_defs(f)
        for c in own_nodes(f, include_nested=True):
            if not (isinstance(c, ast.Call) and isinstance(c.func, ast.Attribute) and c.func.attr == "to_raw_value" and norm(c.func.value) == "self"):
                continue
            if f is rv:
                ok = bool(flags) and all((lambda a, _fl=fl: a is not None and H.mentions(a, _fl))(H.arg_for(c, rv, fl)) for fl in flags)
                why = "the members of a list are written without the caller's word on the term: ( \"x\" ) under a term coerced to @id is written as [\"x\"]"
            else:
                ok = False
                for fl in flags:
                    a = H.arg_for(c, rv, fl)
                    if a is not None and any(isinstance(x, ast.Attribute) and x.attr == "type" and not _has_type(typed, js.name, x.value, "rdflib.term.Node") for x in H.expand(a, fdefs)):
                        ok = True
                why = "the call does not tell to_raw_value whether the term it writes under coerces strings to IRIs (no argument reads <term>.type): a literal is written bare and read back as an IRI"
            rep.ob("C06.z-literal-under-an-iri-coercing-term-is-a-value-object", js, "Converter." + mname, c, ok, "the coercion of the term is handed in" if ok else why, node=c)

    # ------------------------------------------------------------------ (aa)  F299
    rep.rule("C06.aa-every-cell-of-a-folded-list-is-checked-against-the-written-nodes",
             "JSON-LD Converter: to_raw_value folds a blank node into @list only if it is not a key of the map of node objects already written (`o.n3() not in nodemap`); "
             "to_collection's walk applies the same membership test to EVERY cell (a `return None` governed by `<cursor ...> in <parameter>`) and every call hands the map in: with "
             "only the head checked, a list reachable only through a cycle could have an inner cell written both as a node object and as a member of the @list, which reads "
             "back as a second copy of the cell", floor=4)
    tc = js.func("Converter.to_collection")
    tpars = [p for p in H.params(tc) if p != "self"]
    walks = []
    for w in own_nodes(tc):
        if isinstance(w, ast.While):
            assigned = {t.id for s in ast.walk(w) if isinstance(s, ast.Assign) for t in s.targets if isinstance(t, ast.Name)}
            cur = [x.id for x in ast.walk(w.test) if isinstance(x, ast.Name) and x.id in assigned]
            if cur:
                walks.append((w, cur[0]))
    if not walks:
        raise AnalysisError("Converter.to_collection: the walk over the cells was not found")
    head_test = [n for n in own_nodes(rv) if isinstance(n, ast.Compare) and isinstance(n.ops[0], (ast.In, ast.NotIn)) and isinstance(n.comparators[0], ast.Name)
                 and n.comparators[0].id in rpars and any(H.mentions(n.left, p) for p in valpar)]
    rep.ob("C06.aa-every-cell-of-a-folded-list-is-checked-against-the-written-nodes", js, "Converter.to_raw_value", head_test[0] if head_test else "head test", True,
           "the head is checked against the written nodes" if head_test else "to_raw_value no longer checks the head against a map of written nodes (premise gone)", node=head_test[0] if head_test else rv)
    maps: set[str] = set()
    for w, cur in walks:
        for n in ast.walk(w):
            if isinstance(n, ast.If) and any(isinstance(s, ast.Return) and (s.value is None or H.is_const(s.value, None)) for s in n.body):
                for x in ast.walk(n.test):
                    if isinstance(x, ast.Compare) and len(x.ops) == 1 and isinstance(x.ops[0], ast.In) and H.mentions(x.left, cur) and isinstance(x.comparators[0], ast.Name) and x.comparators[0].id in tpars:
                        maps.add(x.comparators[0].id)
    rep.ob("C06.aa-every-cell-of-a-folded-list-is-checked-against-the-written-nodes", js, "Converter.to_collection", "each cell: `<cell> in <map handed in>` -> return None", bool(maps) or not head_test,
           "cells are checked against the parameter %s" % ", ".join(sorted(maps)) if maps else
           "the walk does not ask, cell by cell, whether the cell is already written as a node object (no membership test of the cursor in a map handed in by the caller): only the "
           "head is checked, an inner cell can be written twice", node=walks[0][0])
    for mname, f in conv.items():
        for c in own_nodes(f, include_nested=True):
            if isinstance(c, ast.Call) and isinstance(c.func, ast.Attribute) and c.func.attr == "to_collection" and norm(c.func.value) == "self":
                given = [H.arg_for(c, tc, m) for m in sorted(maps)]
                ok = (bool(maps) and all(a is not None and not H.is_const(a, None) for a in given)) or not head_test
                rep.ob("C06.aa-every-cell-of-a-folded-list-is-checked-against-the-written-nodes", js, "Converter." + mname, c, ok,
                       "the map of written nodes is handed in" if ok else "the call does not hand the map of written node objects to the walk: the cells are not checked", node=c)


_run_before_borrow = run


def run(repo: Repo, rep: Report) -> None:  # noqa: F811
    _layer(rep, _run_before_borrow, repo)
    from vlib.core import borrow

    borrow(repo, rep, "C06", "C12", ('C12.b2',))
    borrow(repo, rep, "C06", "C02", ('C02.a',))
