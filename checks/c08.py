"""C08 - solution modifiers and aggregates: exhaustiveness and sibling agreement (DESIGN.md §2 C08)."""
from __future__ import annotations

import ast

from vlib.cfg import CFG
from vlib.core import AnalysisError, Repo, Report, norm, own_nodes
from vlib.core import layer as _layer

EXPLANATION = (
    "(a) the aggregate names of the grammar and the keys of Aggregator.accumulator_classes are the same set and map to "
    "Accumulator subclasses; (b) DISTINCT sibling rule: every accumulator that does not opt out records the evaluated value "
    "in `seen` under `if self.distinct` on every path that updates its state, and the value recorded is the value use_row "
    "tests; (c) empty group: get_value/set_value of every accumulator reads only state initialised in __init__, and with no "
    "GROUP BY the implicit group's aggregator exists before (independently of) the first row; (d) LIMIT/OFFSET: islice bounds "
    "are start and start+length with `length is not None` tested by identity; (e) ORDER BY: keys are applied last-to-first with "
    "the stable sorted(), direction via its reverse= argument, never by reversing the list; (f) DISTINCT/REDUCED remember the "
    "solution itself; projection keeps exactly project.PV. Numeric promotion, mixed-term ordering and HAVING after aliasing "
    "are value-level and not decided. Every rule is a layer of its own (vlib/core.layer): it is judged alone on the tree and on the equivalent views."
)


def run(repo: Repo, rep: Report) -> None:
    rep.extra["explanation"] = EXPLANATION
    ev = repo.mod("rdflib.plugins.sparql.evaluate")
    ag = repo.mod("rdflib.plugins.sparql.aggregates")
    par = repo.mod("rdflib.plugins.sparql.parser")
    typed = repo.typed

    def _sec_a(repo: Repo, rep: Report) -> None:
        # ------------------------------------------------------------------ (a)
        rep.rule("C08.a-aggregate-table", "grammar aggregate names == keys of Aggregator.accumulator_classes, each mapped to an Accumulator subclass", floor=7)
        gram = set()
        for n in ast.walk(par.tree):
            if isinstance(n, ast.Call) and isinstance(n.func, ast.Name) and n.func.id == "Comp" and n.args and isinstance(n.args[0], ast.Constant) and str(n.args[0].value).startswith("Aggregate_"):
                gram.add(n.args[0].value)
        table = {}
        agg_cls = ag.cls("Aggregator")
        for st in agg_cls.body:
            if isinstance(st, ast.Assign) and norm(st.targets[0]) == "accumulator_classes" and isinstance(st.value, ast.Dict):
                for k, v in zip(st.value.keys, st.value.values):
                    table[k.value] = norm(v)
        if len(gram) < 7 or len(table) < 7:
            raise AnalysisError("aggregate tables not found (grammar %s, table %s)" % (sorted(gram), sorted(table)))
        for nm in sorted(gram | set(table)):
            cls = table.get(nm)
            ok = nm in gram and cls is not None and ag.has(cls) and typed.is_subclass("rdflib.plugins.sparql.aggregates." + cls, "rdflib.plugins.sparql.aggregates.Accumulator")
            rep.ob("C08.a-aggregate-table", ag, "Aggregator", "%s -> %s" % (nm, cls), ok,
                   "" if ok else "aggregate %s: in grammar=%s, accumulator class=%s" % (nm, nm in gram, cls), node=agg_cls)

    _layer(rep, _sec_a, repo)

    # ------------------------------------------------------------------ (b)(c)
    def accumulators() -> list[str]:
        accs = [c for c in typed.subclasses("rdflib.plugins.sparql.aggregates.Accumulator") if c.startswith("rdflib.plugins.sparql.aggregates.")]
        if len(accs) < 8:
            raise AnalysisError("expected >= 8 accumulator classes, found %s" % accs)
        return accs

    def init_attrs(cfull: str) -> set[str]:
        out = set()
        for b in typed.mro(cfull):
            if not b.startswith("rdflib.plugins.sparql.aggregates."):
                continue
            cname = b.rsplit(".", 1)[1]
            m = ag.methods(cname).get("__init__")
            if m is None:
                continue
            for n in own_nodes(m):
                if isinstance(n, (ast.Assign, ast.AnnAssign)):
                    tg = n.targets if isinstance(n, ast.Assign) else [n.target]
                    for t in tg:
                        if isinstance(t, ast.Attribute) and isinstance(t.value, ast.Name) and t.value.id == "self":
                            out.add(t.attr)
            for st in ag.cls(cname).body:
                if isinstance(st, (ast.Assign, ast.AnnAssign)):
                    t = st.targets[0] if isinstance(st, ast.Assign) else st.target
                    if isinstance(t, ast.Name) and getattr(st, "value", None) is not None:
                        out.add(t.id)
        return out

    def opts_out(cfull: str) -> bool:
        for b in typed.mro(cfull):
            if not b.startswith("rdflib.plugins.sparql.aggregates.") or b.endswith(".Accumulator"):
                continue
            m = ag.methods(b.rsplit(".", 1)[1]).get("__init__")
            if m is None:
                continue
            for n in own_nodes(m):
                if isinstance(n, ast.Assign) and norm(n.targets[0]) == "self.use_row" and norm(n.value) == "self.dont_care":
                    # unconditional (top level of __init__)
                    if ag.parent.get(id(n)) is m:
                        return True
        return False

    def evaluates_expr(cfull: str, e: ast.expr, depth: int = 0) -> bool:
        """e is the value of the aggregate's expression on the row: `_eval(self.expr, row)` itself, or a call self.<m>(row) of a method
        (own or inherited) each of whose returns is such a value (possibly after raising for an error value)"""
        if norm(e) == "_eval(self.expr, row)":
            return True
        if depth > 3 or not (isinstance(e, ast.Call) and isinstance(e.func, ast.Attribute) and norm(e.func.value) == "self" and [norm(a) for a in e.args] == ["row"]):
            return False
        for b in typed.mro(cfull):
            if not b.startswith("rdflib.plugins.sparql.aggregates."):
                continue
            m = ag.methods(b.rsplit(".", 1)[1]).get(e.func.attr)
            if m is None:
                continue
            rets = [x for x in own_nodes(m) if isinstance(x, ast.Return)]
            if not rets:
                return False
            for x in rets:
                v = x.value
                if isinstance(v, ast.Name):
                    defs = [a.value for a in own_nodes(m) if isinstance(a, ast.Assign) and norm(a.targets[0]) == v.id]
                    if not defs or not all(evaluates_expr(b, d, depth + 1) for d in defs):
                        return False
                elif v is None or not evaluates_expr(b, v, depth + 1):
                    return False
            return True
        return False

    def _sec_b(repo: Repo, rep: Report) -> None:
        rep.rule("C08.b-distinct-bookkeeping",
                 "each Accumulator subclass with its own update() either opts out of DISTINCT in __init__ (self.use_row = self.dont_care) "
                 "or, on every path of update() that changes its accumulated state, reaches `if self.distinct: self.seen.add(<the evaluated value>)`", floor=5)
        for cfull in sorted(accumulators()):
            cname = cfull.rsplit(".", 1)[1]
            if cname == "Accumulator":
                continue
            meths = ag.methods(cname)
            rep.analysed("rdflib/plugins/sparql/aggregates.py:" + cname)
            if "update" in meths:
                upd = meths["update"]
                if opts_out(cfull):
                    rep.ob("C08.b-distinct-bookkeeping", ag, cname + ".update", "opts out of DISTINCT", True,
                           "use_row = dont_care in __init__: DISTINCT does not change this aggregate's value", node=upd)
                else:
                    g = CFG(upd)
                    state_nodes = []
                    for nd in g.nodes:
                        st = nd.ast
                        if nd.kind != "stmt" or st is None:
                            continue
                        tg = []
                        if isinstance(st, ast.Assign):
                            tg = st.targets
                        elif isinstance(st, ast.AugAssign):
                            tg = [st.target]
                        # (a boolean constant stored in an attribute is a flag - "this aggregate is an error" - not accumulated state)
                        is_flag = isinstance(getattr(st, "value", None), ast.Constant) and isinstance(st.value.value, bool)
                        if not is_flag and any(isinstance(t, ast.Attribute) and isinstance(t.value, ast.Name) and t.value.id == "self" and t.attr not in ("datatype", "seen") for t in tg):
                            state_nodes.append(nd.id)
                        if isinstance(st, ast.Expr) and isinstance(st.value, ast.Call) and isinstance(st.value.func, ast.Attribute) and st.value.func.attr in ("append", "extend") \
                                and norm(st.value.func.value).startswith("self.") and "seen" not in norm(st.value.func.value):
                            state_nodes.append(nd.id)
                    marks = set()
                    recorded = None
                    for n in own_nodes(upd):
                        if isinstance(n, ast.If) and norm(n.test) == "self.distinct":
                            adds = [c for s in n.body for c in ast.walk(s) if isinstance(c, ast.Call) and norm(c.func) == "self.seen.add"]
                            if adds:
                                marks.add(g.by_ast[id(n)])
                                recorded = norm(adds[0].args[0])
                    if not state_nodes:
                        raise AnalysisError("%s.update: no state update found" % cname)
                    ok = bool(marks) and all(g.must_pass_after(s, marks, skip_exc=True) or g.must_pass_before(s, marks) for s in state_nodes)
                    rep.ob("C08.b-distinct-bookkeeping", ag, cname + ".update", "state update => if self.distinct: self.seen.add(...)", ok,
                           "every updating path records the value" if ok else "a path updates the accumulator without recording the value in `seen` under `if self.distinct`: DISTINCT counts/sums duplicates", node=upd)
                    if ok and recorded is not None:
                        src_ok = False
                        for n in own_nodes(upd):
                            if isinstance(n, ast.Assign) and norm(n.targets[0]) == recorded:
                                if evaluates_expr(cfull, n.value):
                                    src_ok = True
                        rep.ob("C08.b-distinct-bookkeeping", ag, cname + ".update", "recorded value %s is the evaluated expression" % recorded, src_ok,
                               "" if src_ok else "the value put into `seen` (%s) is not the result of evaluating the aggregate's expression on the row, which is what use_row() tests" % recorded, node=upd)

    _layer(rep, _sec_b, repo)

    def _sec_c(repo: Repo, rep: Report) -> None:
        rep.rule("C08.c-empty-group-values",
                 "get_value()/set_value() of every accumulator read only attributes that __init__ (own or inherited) initialises, so the "
                 "value for a group that received no row is defined; with no GROUP BY the implicit group's Aggregator is created outside the row loop (outside the loops over the "
                 "operand's solutions an expression is evaluated that makes an Aggregator: a call of the class or of a factory of it - a lambda, a functools.partial, a local def - "
                 "or the lookup of a key in a defaultdict whose factory makes one)", floor=6)
        for cfull in sorted(accumulators()):
            cname = cfull.rsplit(".", 1)[1]
            if cname == "Accumulator":
                continue
            meths = ag.methods(cname)
            for mname in ("get_value", "set_value"):
                m = meths.get(mname)
                if m is None:
                    continue
                have = init_attrs(cfull) | {"var", "expr", "distinct", "seen", "get_value", "compare"}
                used = {n.attr for n in ast.walk(m) if isinstance(n, ast.Attribute) and isinstance(n.value, ast.Name) and n.value.id == "self" and isinstance(n.ctx, ast.Load)}
                used -= {x for x in used if x in ag.methods(cname) or any(x in ag.methods(b.rsplit(".", 1)[1]) for b in typed.mro(cfull) if b.startswith("rdflib.plugins.sparql.aggregates."))}
                missing = used - have
                rep.ob("C08.c-empty-group-values", ag, "%s.%s" % (cname, mname), "reads %s" % sorted(used), not missing,
                       "all initialised in __init__" if not missing else "reads %s which only update() sets: undefined for a group without rows" % sorted(missing), node=m)
        # implicit group exists without rows
        f = ev.func("evalAggregateJoin")
        rep.analysed("rdflib/plugins/sparql/evaluate.py:evalAggregateJoin")
        from vlib import h_c08 as _H

        # the loops over the solutions of the operand: over a local, or directly over evalPart(...)
        row_loops = [n for n in own_nodes(f) if isinstance(n, ast.For) and (isinstance(n.iter, ast.Name) or any(
            isinstance(c, ast.Call) and isinstance(c.func, ast.Name) and c.func.id == "evalPart" for c in ast.walk(n.iter)))]
        in_loops = {id(x) for l in row_loops for x in ast.walk(l)}
        imp = _H.import_map(ev)

        def is_aggregator(e: ast.AST) -> bool:
            """the expression names the class Aggregator of aggregates.py (under whatever local name it was imported)"""
            return isinstance(e, ast.Name) and imp.get(e.id, (None, None)) == (ag.name, "Aggregator")

        # an expression outside those loops whose evaluation makes an Aggregator: Aggregator(...) itself, a call of a factory of it (a lambda, a
        # functools.partial, a local def), or the lookup of a key in a defaultdict whose factory makes one (nested lambdas / defs are not entered: their
        # bodies run when called, not where they stand)
        creates = [n for n in own_nodes(f) if id(n) not in in_loops and _H.creates_instance(ev, f, n, is_aggregator)]
        rep.ob("C08.c-empty-group-values", ev, "evalAggregateJoin", "implicit group aggregator created outside the row loop", bool(creates),
               "the single implicit group exists even when the pattern has no solution (COUNT=0, SUM=0, ...)" if creates else
               "without GROUP BY the aggregator is only created when the first row arrives: an aggregate query over an empty pattern returns no row instead of COUNT=0 / SUM=0", node=f)

    _layer(rep, _sec_c, repo)

    def _sec_d(repo: Repo, rep: Report) -> None:
        # ------------------------------------------------------------------ (d)
        rep.rule("C08.d-slice-bounds", "evalSlice passes islice(res, start, start + length if length is not None else None)", floor=3)
        f = ev.func("evalSlice")
        calls = [c for c in ast.walk(f) if isinstance(c, ast.Call) and norm(c.func).endswith("islice")]
        if not calls:
            rep.ob("C08.d-slice-bounds", ev, "evalSlice", "islice(...)", False, "evalSlice no longer slices with islice (unmodelled)", node=f)
        else:
            c = calls[0]
            p = f.args.args[1].arg
            a = c.args

            from vlib import h_c08 as _H

            fparams = {x.arg for x in f.args.args}

            def flat(e):
                """the bound in terms of the parameter: locals that are bound once, unconditionally, are replaced by their values (offset = <p>.start; ...)"""
                return _H.subst_locals(f, e, fparams)

            def unclamp(e):
                """X of min(X, <a bound that does not depend on the slice>): islice() takes no int above sys.maxsize, clamping there changes no slice"""
                if isinstance(e, ast.Call) and norm(e.func) == "min" and len(e.args) == 2:
                    dep = [x for x in e.args if p + "." in norm(x)]
                    if len(dep) == 1:
                        return dep[0]
                return e

            def len_test(t):
                """+1: the test holds iff <p>.length is not None (by identity); -1: iff it is None; 0: something else (truthiness: LIMIT 0 is falsy)"""
                t = flat(t)
                if isinstance(t, ast.UnaryOp) and isinstance(t.op, ast.Not):
                    return -len_test(t.operand)
                if isinstance(t, ast.Compare) and len(t.ops) == 1 and norm(t.left) == p + ".length" and isinstance(t.comparators[0], ast.Constant) and t.comparators[0].value is None:
                    return 1 if isinstance(t.ops[0], ast.IsNot) else -1 if isinstance(t.ops[0], ast.Is) else 0
                return 0

            def alts(e, cond=None, depth=0):
                """the values a bound can hold, each as (value, under which knowledge about LIMIT it is chosen, line): None = on every path, +1 = LIMIT present,
                -1 = LIMIT absent, 0 = under some other test.  Follows conditional expressions and the assignments of a local bound on several paths"""
                def under(c):
                    return c if cond is None else (cond if c == cond else 0)
                if isinstance(e, ast.IfExp):
                    k = len_test(e.test)
                    return alts(e.body, under(k), depth) + alts(e.orelse, under(-k), depth)
                if isinstance(e, ast.Name) and e.id not in fparams and depth < 3:
                    out = []
                    for st in own_nodes(f):
                        if isinstance(st, (ast.Assign, ast.AnnAssign)) and getattr(st, "value", None) is not None and any(
                                isinstance(t, ast.Name) and t.id == e.id for t in (st.targets if isinstance(st, ast.Assign) else [st.target])):
                            c = None
                            child = st
                            for par_ in ev.parents(st):
                                if par_ is f:
                                    break
                                if isinstance(par_, ast.If):
                                    k = len_test(par_.test)
                                    k = k if child in par_.body else -k if child in par_.orelse else 0
                                    c = k if c is None else (c if c == k else 0)
                                elif not isinstance(par_, (ast.With,)):
                                    c = 0  # in a loop, a try, ...: not modelled
                                child = par_
                            out.append((st.value, under(c) if c is not None else cond, st.lineno))
                    if out:
                        res = []
                        for v, c, ln in out:
                            for v2, c2, _ln2 in alts(v, c, depth + 1):
                                res.append((v2, c2, ln))
                        return res
                return [(e, cond, getattr(e, "lineno", 0))]

            def is_sum(e):
                e = unclamp(flat(e))
                return isinstance(e, ast.BinOp) and isinstance(e.op, ast.Add) and {norm(e.left), norm(e.right)} == {p + ".start", p + ".length"}

            def is_none(e):
                return isinstance(e, ast.Constant) and e.value is None

            lo = alts(a[1]) if len(a) == 3 else []
            ok1 = len(a) == 3 and len(lo) == 1 and lo[0][1] is None and norm(unclamp(flat(lo[0][0]))) == p + ".start"
            rep.ob("C08.d-slice-bounds", ev, "evalSlice", "lower bound %s" % (norm(a[1]) if len(a) > 1 else None), ok1, "" if ok1 else "lower bound is not %s.start" % p, node=c)
            # the upper bound is <p>.start + <p>.length where LIMIT is present and None where it is not: exactly these two values reach islice, the sum only under
            # `<p>.length is not None`, None under the opposite test or as the default that the sum overwrites
            hi = alts(a[2]) if len(a) == 3 else []
            sums = [d for d in hi if is_sum(d[0])]
            nones = [d for d in hi if is_none(d[0])]
            ok2 = len(hi) == 2 and len(sums) == 1 and len(nones) == 1
            ok3 = ok2 and sums[0][1] == 1 and (nones[0][1] == -1 or (nones[0][1] is None and nones[0][2] < sums[0][2]))
            rep.ob("C08.d-slice-bounds", ev, "evalSlice", "upper bound start + length", ok2, "" if ok2 else "upper bound is not %s.start + %s.length (else None)" % (p, p), node=c)
            rep.ob("C08.d-slice-bounds", ev, "evalSlice", "`length is not None` by identity", ok3, "" if ok3 else "presence of LIMIT is not tested with `is not None` (LIMIT 0 is falsy)", node=c)

    _layer(rep, _sec_d, repo)

    def _sec_e(repo: Repo, rep: Report) -> None:
        # ------------------------------------------------------------------ (e)
        rep.rule("C08.e-orderby-stable-multikey",
                 "evalOrderBy applies the sort keys from last to first (reversed(part.expr)) with the stable sorted(); descending order is "
                 "requested through sorted(reverse=...) derived from the key's order; the row list is never reversed", floor=3)
        f = ev.func("evalOrderBy")
        lp = [n for n in own_nodes(f) if isinstance(n, ast.For)]
        ok = bool(lp) and norm(lp[0].iter).startswith("reversed(") and ".expr" in norm(lp[0].iter)
        rep.ob("C08.e-orderby-stable-multikey", ev, "evalOrderBy", "for e in reversed(part.expr)", ok,
               "least significant key first" if ok else "sort keys are not applied via reversed(<part>.expr): key priority is wrong or the algebra's list is mutated", node=lp[0] if lp else f)
        if lp:
            srt = [c for c in ast.walk(lp[0]) if isinstance(c, ast.Call) and isinstance(c.func, ast.Name) and c.func.id == "sorted"]
            ok = len(srt) == 1 and any(k.arg == "reverse" for k in srt[0].keywords) and any(k.arg == "key" for k in srt[0].keywords)
            rep.ob("C08.e-orderby-stable-multikey", ev, "evalOrderBy", "sorted(res, key=..., reverse=...)", ok,
                   "stable sort with per-key direction" if ok else "the per-key sort is not a single sorted(..., key=, reverse=) call", node=lp[0])
            if ok:
                rv = [k.value for k in srt[0].keywords if k.arg == "reverse"][0]
                src = norm(rv)
                for n in ast.walk(lp[0]):
                    if isinstance(n, ast.Assign) and norm(n.targets[0]) == src:
                        src = norm(n.value)
                okd = "DESC" in src and ".order" in src
                rep.ob("C08.e-orderby-stable-multikey", ev, "evalOrderBy", "reverse derives from e.order == 'DESC'", okd, "" if okd else "reverse=%s does not derive from the key's order" % src, node=lp[0])
            bad = [n for n in ast.walk(f) if (isinstance(n, ast.Call) and isinstance(n.func, ast.Attribute) and n.func.attr == "reverse") or
                   (isinstance(n, ast.Subscript) and isinstance(n.slice, ast.Slice) and n.slice.step is not None) or
                   (isinstance(n, ast.Call) and isinstance(n.func, ast.Name) and n.func.id == "reversed" and ".expr" not in norm(n))]
            rep.ob("C08.e-orderby-stable-multikey", ev, "evalOrderBy", "rows are never reversed", not bad,
                   "" if not bad else "%s reverses a list: rows that tie on this key lose the order established by the lower-priority keys" % norm(bad[0])[:60], node=bad[0] if bad else f)

    _layer(rep, _sec_e, repo)

    def _sec_f(repo: Repo, rep: Report) -> None:
        # ------------------------------------------------------------------ (f)
        rep.rule("C08.f-distinct-project",
                 "evalDistinct/evalReduced remember and test the solution itself; evalProject keeps exactly project.PV", floor=4)
        for q in ("evalDistinct", "evalReduced"):
            fn = ev.func(q)
            lp = [n for n in own_nodes(fn) if isinstance(n, ast.For)]
            if not lp:
                raise AnalysisError("%s: no loop" % q)
            var = norm(lp[0].target)
            for n in ast.walk(lp[0]):
                if isinstance(n, ast.Call) and isinstance(n.func, ast.Attribute) and n.func.attr in ("add", "appendleft", "append") and n.args:
                    ok = norm(n.args[-1]) == var
                    rep.ob("C08.f-distinct-project", ev, q, n, ok, "remembers the solution" if ok else "remembers %s, not the solution %s: different solutions with equal %s collapse" % (norm(n.args[-1]), var, norm(n.args[-1])), node=n)
                if isinstance(n, ast.Compare) and isinstance(n.ops[0], (ast.In, ast.NotIn)):
                    ok = norm(n.left) == var
                    rep.ob("C08.f-distinct-project", ev, q, n, ok, "tests the solution" if ok else "tests %s, not the solution" % norm(n.left), node=n)
        fn = ev.func("evalProject")
        ok = any(isinstance(c, ast.Call) and isinstance(c.func, ast.Attribute) and c.func.attr == "project" and c.args and norm(c.args[0]).endswith(".PV") for c in ast.walk(fn))
        rep.ob("C08.f-distinct-project", ev, "evalProject", "row.project(project.PV)", ok, "" if ok else "projection no longer keeps exactly the PV variables", node=fn)

    _layer(rep, _sec_f, repo)

    def _sec_g(repo: Repo, rep: Report) -> None:
        # ------------------------------------------------------------------ (g)
        rep.rule("C08.g-accumulated-value-by-identity",
                 "in the accumulators, whether a running value / evaluated term is `not yet set` is decided with `is None`; the truthiness of an "
                 "accumulated or evaluated term (Literal(0), Literal(''), Literal(false) are falsy) is never consulted", floor=2)
        from vlib import truthy as _tr
        for cfull in sorted(accumulators()):
            cname = cfull.rsplit(".", 1)[1]
            for mname, f in ag.methods(cname).items():
                for n in own_nodes(f):
                    if isinstance(n, ast.Compare) and isinstance(n.ops[0], (ast.Is, ast.IsNot)) and isinstance(n.comparators[0], ast.Constant) and n.comparators[0].value is None \
                            and isinstance(n.left, ast.Attribute) and isinstance(n.left.value, ast.Name) and n.left.value.id == "self":
                        rep.ob("C08.g-accumulated-value-by-identity", ag, "%s.%s" % (cname, mname), n, True, "by identity", node=n)
                evaluated = {norm(a.targets[0]) for a in own_nodes(f) if isinstance(a, ast.Assign) and isinstance(a.value, ast.Call) and norm(a.value.func) in ("_eval", "self.eval_row")}
                for e, owner, kind in _tr.bool_contexts(f):
                    txt = norm(e)
                    is_state = isinstance(e, ast.Attribute) and isinstance(e.value, ast.Name) and e.value.id == "self" and e.attr in ("value", "sum", "counter", "result")
                    if (is_state and e.attr == "value") or txt in evaluated:
                        rep.ob("C08.g-accumulated-value-by-identity", ag, "%s.%s" % (cname, mname), "%s [in %s: %s]" % (txt, kind, norm(getattr(owner, "test", owner))[:60]), False,
                               "%s is a term (or None): a falsy literal is treated as `not set`, so e.g. a running MIN/MAX of 0 is overwritten without comparison" % txt, node=e)

    _layer(rep, _sec_g, repo)

    def _sec_h(repo: Repo, rep: Report) -> None:
        # ------------------------------------------------------------------ (h)
        rep.rule("C08.h-group-variables-sampled-in-having-and-orderby",
                 "translateAggregates (SPARQL 18.2.4.1): in HAVING and in ORDER BY every unaggregated variable is replaced by Sample(V) per group whether or not the clause "
                 "itself contains an aggregate call; the rewrite (`q.X = traverse(q.X, _sample ...)`) is therefore not guarded by `traverse(q.X, _hasAggregate, complete=False)`. "
                 "After the AggregateJoin only aggregate results exist, so an unsampled group key that is not projected is unbound in HAVING (all groups dropped) and in "
                 "ORDER BY (rows not ordered)", floor=2)
        alg = repo.mod("rdflib.plugins.sparql.algebra")
        ta = alg.func("translateAggregates")
        for clause in ("having", "orderby"):
            rew = [n for n in own_nodes(ta) if isinstance(n, ast.Assign) and norm(n.targets[0]).endswith("." + clause) and isinstance(n.value, ast.Call)
                   and norm(n.value.func) == "traverse" and any("_sample" in norm(a) for a in n.value.args)]
            if not rew:
                rep.ob("C08.h-group-variables-sampled-in-having-and-orderby", alg, "translateAggregates", "q.%s is rewritten with _sample" % clause, False,
                       "no sampling rewrite of q.%s found: unaggregated variables of the clause are unbound after grouping" % clause, node=ta)
                continue
            for n in rew:
                bad = None
                child = n
                for p_ in alg.parents(n):
                    if isinstance(p_, ast.If) and child in p_.body:
                        for t in ast.walk(p_.test):
                            if isinstance(t, ast.Call) and norm(t.func) == "traverse" and any("_hasAggregate" in norm(a) for a in t.args):
                                comp = [k.value for k in t.keywords if k.arg == "complete"]
                                always = bool(comp) and isinstance(comp[0], ast.Constant) and comp[0].value is True
                                if not always:
                                    bad = t
                    if p_ is ta:
                        break
                    child = p_
                rep.ob("C08.h-group-variables-sampled-in-having-and-orderby", alg, "translateAggregates", "q.%s: %s" % (clause, norm(n)[:80]), bad is None,
                       "sampled unconditionally" if bad is None else
                       "the %s clause is sampled only if `%s` - i.e. only if it contains an aggregate call: `GROUP BY ?d %s` with ?d not projected refers to a variable that no longer exists after grouping" % (
                           clause.upper(), norm(bad), "HAVING (?d != <x>)" if clause == "having" else "ORDER BY ?d"), node=bad or n)

    _layer(rep, _sec_h, repo)




_run_base = run


def run(repo: Repo, rep: Report) -> None:  # noqa: F811
    _layer(rep, _run_base, repo)
    ag = repo.mod("rdflib.plugins.sparql.aggregates")
    def _sec_i(repo: Repo, rep: Report) -> None:
        # ------------------------------------------------------------------ (i)
        rep.rule("C08.i-extremum-is-a-member-of-the-group",
                 "MIN / MAX return one of the group's terms unchanged: Extremum.set_value binds self.value itself (SPARQL orders IRIs, blank nodes and literals; the extremum of a group "
                 "of IRIs is an IRI). Wrapping the running value in Literal(...) unconditionally turns an IRI or blank node into a plain string literal", floor=1)
        sv = ag.func("Extremum.set_value")
        for st in own_nodes(sv):
            if isinstance(st, ast.Assign) and isinstance(st.targets[0], ast.Subscript) and norm(st.targets[0].value) == "bindings":
                v = st.value
                uncond_wrap = isinstance(v, ast.Call) and norm(v.func) == "Literal" and v.args and norm(v.args[0]) == "self.value"
                rep.ob("C08.i-extremum-is-a-member-of-the-group", ag, "Extremum.set_value", st, not uncond_wrap,
                       "the term itself (a Literal is only made of a non-term value)" if not uncond_wrap else
                       "MIN(?x) / MAX(?x) over IRIs or blank nodes answer with Literal('<the IRI text>'): a term that is not in the group", node=st)

    _layer(rep, _sec_i, repo)

    def _sec_j(repo: Repo, rep: Report) -> None:
        # ------------------------------------------------------------------ (j)
        rep.rule("C08.j-numeric-accumulators-agree-on-non-numbers",
                 "SUM and AVG (Sum.update, Average.update) treat a term that is not a number the same way: the conversion numeric(value) comes before any use of value.datatype "
                 "(an IRI or blank node has no datatype attribute) and its SPARQLTypeError is handled in update(); otherwise one non-numeric member makes the whole query raise", floor=4)
        for cname in ("Sum", "Average"):
            f = ag.func(cname + ".update")
            handlers = {norm(h.type) for t in own_nodes(f) if isinstance(t, ast.Try) for h in t.handlers if h.type is not None}
            # the class itself or one of its bases (except SPARQLError: catches it too)
            catching = {b.rsplit(".", 1)[1] for b in repo.typed.mro("rdflib.plugins.sparql.sparql.SPARQLTypeError") if b.startswith("rdflib.")}
            ok = any(c in catching for h in handlers for c in h.replace("(", " ").replace(")", " ").replace(",", " ").split())
            rep.ob("C08.j-numeric-accumulators-agree-on-non-numbers", ag, cname + ".update", "handles SPARQLTypeError of numeric()", ok,
                   "" if ok else "%s.update lets SPARQLTypeError escape: `SELECT (SUM(?v) AS ?s)` over a group with one string or IRI raises instead of answering (AVG on the same group answers)" % cname, node=f)
            num = [c for c in own_nodes(f) if isinstance(c, ast.Call) and norm(c.func) == "numeric"]
            dts = [a for a in own_nodes(f) if isinstance(a, ast.Attribute) and a.attr == "datatype" and isinstance(a.value, ast.Name) and a.value.id != "self"]
            if not num:
                raise AnalysisError("%s.update: numeric() call not found" % cname)
            first_num = min(c.lineno for c in num)
            early = [a for a in dts if a.lineno < first_num]
            rep.ob("C08.j-numeric-accumulators-agree-on-non-numbers", ag, cname + ".update", "numeric(value) precedes value.datatype", not early,
                   "" if not early else "%s is read before numeric() has rejected non-literals: an IRI in the group raises AttributeError" % norm(early[0]), node=early[0] if early else num[0])

    _layer(rep, _sec_j, repo)



_run_base2 = run


def run(repo: Repo, rep: Report) -> None:  # noqa: F811
    _layer(rep, _run_base2, repo)

    def _sec_k(repo: Repo, rep: Report) -> None:
        alg = repo.mod("rdflib.plugins.sparql.algebra")
        rep.rule("C08.k-modifier-keyword-to-algebra-node",
                 "algebra.translate maps SELECT DISTINCT to a `Distinct` node and SELECT REDUCED to a `Reduced` node on every path: under the test `q.modifier == \"DISTINCT\"` the only "
                 "algebra node constructed is Distinct (evalReduced only drops a row equal to the one emitted just before it - rows are sorted on the ORDER BY keys BEFORE projection, so "
                 "equal projected rows need not be adjacent). The arms are read from the chain of ifs or, row by row, from a loop over a constant (keyword, node) table of the module", floor=2)
        tr = [f for q, f in alg.functions() if q == "translate"]
        if not tr:
            raise AnalysisError("algebra.translate vanished")
        from vlib import h_c08 as _H

        # what is done per keyword may be written as a chain of ifs or as a loop over a constant table of (keyword, node) rows of the module: the loop is
        # read row by row, with the loop variables replaced by the constants of the row
        f = _H.unroll_constant_loops(alg, tr[0])
        n_arm = 0
        for n in own_nodes(f):
            if isinstance(n, ast.If):
                for kw, node in (("DISTINCT", "Distinct"), ("REDUCED", "Reduced")):
                    if '"%s"' % kw in norm(n.test).replace("'", '"') and "modifier" in norm(n.test):
                        built = [c.args[0].value for s_ in n.body for c in ast.walk(s_) if isinstance(c, ast.Call) and norm(c.func) == "CompValue" and c.args and isinstance(c.args[0], ast.Constant)]
                        n_arm += 1
                        ok = built == [node]
                        rep.ob("C08.k-modifier-keyword-to-algebra-node", alg, "translate", "%s -> %s" % (norm(n.test)[:50], built), ok,
                               "" if ok else "under `%s` the translator builds %s: SELECT %s does not get the %s evaluator" % (norm(n.test)[:60], built, kw, node), node=n)
        if n_arm < 2:
            raise AnalysisError("translate: DISTINCT / REDUCED arms not found")

    _layer(rep, _sec_k, repo)


_run_base3 = run


def run(repo: Repo, rep: Report) -> None:  # noqa: F811
    """Rules l-r: one structural necessary condition per defect repaired in the audit round (F102-F109), each quantified over every site of its kind."""
    _layer(rep, _run_base3, repo)
    from vlib import h_c08 as H

    rep.extra["explanation"] = rep.extra.get("explanation", "") + (
        " (l) a grammar-optional parameter reaches a mandatory algebra-constructor parameter only under a None test; (m) no SPARQLError leaves use_row/update/set_value of any "
        "accumulator; (n) every result of _eval is tested for being an error before use; (o) sort-key functions return a key on every path; (p) the sort key's `number` block uses "
        "Literal.__gt__'s own predicate; (q) no accumulator binds None; (r) SUM/AVG record numeric()'s type error and set_value consults the mark."
    )

    typed = repo.typed
    ev = repo.mod("rdflib.plugins.sparql.evaluate")
    ag = repo.mod("rdflib.plugins.sparql.aggregates")
    eu = repo.mod("rdflib.plugins.sparql.evalutils")
    par = repo.mod("rdflib.plugins.sparql.parser")
    alg = repo.mod("rdflib.plugins.sparql.algebra")
    ERR = "rdflib.plugins.sparql.sparql.SPARQLError"
    esc = H.Escapes(repo, ERR)
    covers_all_errors = esc.bases["SPARQLError"]  # naming one of these in isinstance / except covers every SPARQL error

    # the classes Aggregator instantiates (values of Aggregator.accumulator_classes)
    # (looked up by the rule that needs them, so that a lost anchor is recorded against that rule)
    def concrete_classes() -> list[str]:
        concrete: list[str] = []
        for st in ag.cls("Aggregator").body:
            if isinstance(st, ast.Assign) and norm(st.targets[0]) == "accumulator_classes" and isinstance(st.value, ast.Dict):
                concrete = sorted({norm(v) for v in st.value.values})
        if len(concrete) < 7 or not all(ag.has(c) for c in concrete):
            raise AnalysisError("Aggregator.accumulator_classes: classes not found (%s)" % concrete)
        return concrete

    AG = "rdflib.plugins.sparql.aggregates."

    def resolved(cname: str, meth: str):
        for b in typed.mro(AG + cname):
            if b.startswith(AG):
                m = ag.methods(b[len(AG):]).get(meth)
                if m is not None:
                    return b[len(AG):], m
        return None, None

    def _sec_l(repo: Repo, rep: Report) -> None:
        # ------------------------------------------------------------------ (l)  F102
        rep.rule("C08.l-grammar-optional-into-mandatory-algebra-field",
                 "algebra.py: where a parse node is known to be the grammar production K (`x.name == \"K\"`) and one of its parameters x.a is passed to an algebra constructor "
                 "(Extend, Filter, Group, ...) for a parameter that has no default, then either a is mandatory in K's production in parser.py, or the call lies in a branch taken "
                 "only when x.a is not None. `GROUP BY (?a + ?b)` has no `AS ?v` (Optional in [20] GroupCondition): passing c.var on makes Extend(var=None) and a None group key, "
                 "and evaluation raises 'Cannot eval thing: None'", floor=3)
        gp = H.grammar_params(par)
        if "GroupAs" not in gp or "var" not in gp["GroupAs"][1] or "expr" in gp["GroupAs"][1]:
            raise AnalysisError("parser.py: production GroupAs ( Expression (AS Var)? ) not recognised: %s" % (gp.get("GroupAs"),))
        ctors: dict[str, list[tuple[str, bool]]] = {}
        for q, f in alg.functions():
            if "." not in q and any(isinstance(r, ast.Return) and isinstance(r.value, ast.Call) and norm(r.value.func) == "CompValue" for r in own_nodes(f)):
                nd = len(f.args.args) - len(f.args.defaults)
                ctors[q] = [(p.arg, i >= nd) for i, p in enumerate(f.args.args)]
        if "Extend" not in ctors or "Group" not in ctors:
            raise AnalysisError("algebra.py: algebra constructors not found (%s)" % sorted(ctors))

        def production_of(node: ast.AST, base: str, stop: ast.AST):
            child = node
            for p_ in alg.parents(node):
                if isinstance(p_, ast.If) and child in p_.body:
                    for t in ast.walk(p_.test):
                        if isinstance(t, ast.Compare) and len(t.ops) == 1 and isinstance(t.ops[0], ast.Eq) and norm(t.left) == base + ".name" \
                                and isinstance(t.comparators[0], ast.Constant) and isinstance(t.comparators[0].value, str):
                            return t.comparators[0].value
                if p_ is stop:
                    return None
                child = p_
            return None

        for q, f in alg.functions():
            for c in own_nodes(f):
                if not (isinstance(c, ast.Call) and isinstance(c.func, ast.Name) and c.func.id in ctors):
                    continue
                sig = ctors[c.func.id]
                passed = [(sig[i], a) for i, a in enumerate(c.args) if i < len(sig)] + [((k.arg, dict(sig).get(k.arg, True)), k.value) for k in c.keywords if k.arg]
                for (pname, has_default), a in passed:
                    if has_default or not (isinstance(a, ast.Attribute) and isinstance(a.value, ast.Name)):
                        continue
                    K = production_of(c, a.value.id, f)
                    if K is None or K not in gp or a.attr not in gp[K][0]:
                        continue
                    optional = a.attr in gp[K][1]
                    ok = not optional or H.non_none_guarded(alg, c, norm(a), f)
                    rep.ob("C08.l-grammar-optional-into-mandatory-algebra-field", alg, q, "%s.%s -> %s(%s=)" % (K, a.attr, c.func.id, pname), ok,
                           ("mandatory in the production" if not optional else "only where it is not None") if ok else
                           "%s is optional in the production %s (it is None when not written) but is passed unguarded as the mandatory `%s` of %s(...): the algebra node gets None where a term is required"
                           % (a.attr, K, pname, c.func.id), node=c)

    _layer(rep, _sec_l, repo)

    def _sec_m(repo: Repo, rep: Report) -> None:
        # ------------------------------------------------------------------ (m)  F103
        rep.rule("C08.m-no-solution-error-escapes-row-protocol",
                 "Aggregator.update calls acc.use_row(row) and acc.update(row, self) for every solution, Aggregator.get_bindings calls acc.set_value(bindings) for every group, all without a "
                 "try: no SPARQLError (NotBoundError of _eval for an unbound variable, the error an expression evaluated to, SPARQLTypeError of numeric()) may leave one of these methods of "
                 "any accumulator class (resolved per class, including the instance-level re-bindings `self.use_row = self.dont_care` made in __init__) - a solution without a value is skipped, it "
                 "does not abort the query. `SELECT (SUM(DISTINCT ?v) AS ?s) { ?x :p ?y OPTIONAL { ?x :q ?v } }` with one ?x lacking :q", floor=21)
        concrete = concrete_classes()
        accs = sorted(c for c in typed.subclasses(AG + "Accumulator") if c.startswith(AG) and c != AG + "Accumulator")
        for cfull in accs:
            cname = cfull[len(AG):]
            for entry in ("use_row", "update", "set_value"):
                ms = esc.self_methods(ag, cfull, entry)
                if not ms:
                    if cname in concrete:
                        raise AnalysisError("%s has no %s()" % (cname, entry))
                    continue
                out: set[str] = set()
                for m in ms:
                    out |= esc.of_function(ag, m, cfull)
                rep.ob("C08.m-no-solution-error-escapes-row-protocol", ag, "%s.%s" % (cname, entry), "SPARQL errors leaving %s() of a %s" % (entry, cname), not out,
                       "none" if not out else "%s can leave %s.%s (defined in %s) and nothing between there and the query's caller handles it: one solution without a value for the "
                       "aggregated expression makes the whole query raise instead of being skipped" % (sorted(out), cname, entry, sorted({ag.qual_of(m) for m in ms})), node=ms[0])

    _layer(rep, _sec_m, repo)

    def _sec_n(repo: Repo, rep: Report) -> None:
        # ------------------------------------------------------------------ (n)  F106 F107 (and F109)
        rep.rule("C08.n-eval-result-tested-for-error",
                 "evalutils._eval RETURNS the SPARQLError an expression evaluated to (it raises only NotBoundError): at every call site the first thing done with the result is "
                 "isinstance(result, SPARQLError) - before it is counted, compared, stored, used as a group key or bound. (A result that is only the operand of a comparison yields no value.) "
                 "Otherwise COUNT(1/?z) counts the error objects, MIN/MAX compare them (TypeError), and GROUP BY STRLEN(?iri) makes one group per failing solution since every error object is a key of its own", floor=4)
        if not any(isinstance(n, ast.FunctionDef) and n.name == "_eval" and n.returns is not None and "SPARQLError" in norm(n.returns) for n in ast.walk(eu.tree)):
            raise AnalysisError("evalutils._eval no longer declares that it returns SPARQLError values: rule C08.n must be revisited")
        for mname, m in sorted(repo.modules.items()):
            if not mname.startswith("rdflib.plugins.sparql") or m is eu:
                continue
            r = H.resolve_function(repo, m, "_eval")
            if r is None or r[0] is not eu:
                continue
            for c in ast.walk(m.tree):
                if not (isinstance(c, ast.Call) and isinstance(c.func, ast.Name) and c.func.id == "_eval"):
                    continue
                fn = next((p_ for p_ in m.parents(c) if isinstance(p_, (ast.FunctionDef, ast.AsyncFunctionDef))), None)
                if fn is None:
                    continue
                where = m.qual_of(c)
                par_ = m.parent.get(id(c))

                def tested_first(scope: ast.AST, name: str, after: ast.AST) -> bool:
                    ld = H.first_load_after(scope, name, after)
                    if ld is None:
                        return False
                    call = m.parent.get(id(ld))
                    return isinstance(call, ast.Call) and norm(call.func) == "isinstance" and len(call.args) == 2 and call.args[0] is ld \
                        and bool(H.type_names(call.args[1]) & covers_all_errors)

                if isinstance(par_, ast.Compare):
                    ok, why = True, "only compared (no value flows on)"
                elif isinstance(par_, (ast.Assign, ast.AnnAssign)) and par_.value is c and isinstance(par_.targets[0] if isinstance(par_, ast.Assign) else par_.target, ast.Name):
                    tname = (par_.targets[0] if isinstance(par_, ast.Assign) else par_.target).id
                    ok = tested_first(fn, tname, par_)
                    why = "tested before any use" if ok else "the result is used without first being tested with isinstance(..., SPARQLError): an error object is handled as if it were a term"
                elif isinstance(par_, (ast.GeneratorExp, ast.ListComp)) and par_.elt is c and isinstance(m.parent.get(id(par_)), ast.comprehension) \
                        and m.parent[id(par_)].iter is par_ and isinstance(m.parent[id(par_)].target, ast.Name):
                    comp = m.parent[id(par_)]
                    owner = m.parent[id(comp)]
                    lds = sorted((n for n in ast.walk(owner) if isinstance(n, ast.Name) and n.id == comp.target.id and isinstance(n.ctx, ast.Load)), key=lambda n: (n.lineno, n.col_offset))
                    call = m.parent.get(id(lds[0])) if lds else None
                    ok = isinstance(call, ast.Call) and norm(call.func) == "isinstance" and call.args[0] is lds[0] and bool(H.type_names(call.args[1]) & covers_all_errors)
                    why = "each result tested before use" if ok else "the results are collected without being tested with isinstance(..., SPARQLError)"
                else:
                    ok, why = False, "the result of _eval is used directly as a value (in `%s`): an error object is handled as if it were a term - every error object is distinct, so as a " \
                                     "group key it makes one group per failing solution; counted, sampled or concatenated it is taken for a value" % norm(par_)[:80]
                rep.ob("C08.n-eval-result-tested-for-error", m, where, c, ok, why, node=c)

    _layer(rep, _sec_n, repo)

    def _sec_o(repo: Repo, rep: Report) -> None:
        # ------------------------------------------------------------------ (o)  F105
        rep.rule("C08.o-sort-key-is-total",
                 "every function used as key= of sorted()/min()/max() in evaluate.py and aggregates.py (ORDER BY, MIN, MAX) returns a key on every path, whatever it is given: an ORDER BY "
                 "expression that is an error for some solution hands the error object to the key function; falling off the end returns None and sorted() raises TypeError comparing None with a tuple "
                 "(`ORDER BY (1/?z)` with one ?z = 0). The function is whatever the key= expression evaluates to: a def, a lambda handing on to one, a functools.partial of one, "
                 "the __call__ of an instance of a class of the package, a local bound to one of these", floor=3)
        # the callable a key= expression evaluates to (H.key_chain): a lambda or a nested def that only hands its argument on to a function of the package is followed;
        # every function on the way has to return on every path, the last one computes the key
        key_sites = H.sort_key_sites(repo, (ev, ag))
        for m, c, chain in key_sites:
            if not chain:
                # an expression (lambda not delegating to a function of the library) or a builtin: yields a value by construction
                rep.ob("C08.o-sort-key-is-total", m, m.qual_of(c), "%s(key=<expression>)" % H.sort_callee(m, c), True, "the key is an expression, not a function with paths", node=c, vacuous=True)
                continue
            partial = [(km, kf) for km, kf, _s in chain if not H.always_returns_value(kf.body)]
            total = not partial
            rep.ob("C08.o-sort-key-is-total", m, m.qual_of(c), "%s(key=%s)" % (H.sort_callee(m, c), chain[-1][1].name), total,
                   "returns a key on every path" if total else "%s.%s has a path that falls off the end (returns None) - taken for an argument that matches none of its tests, e.g. the "
                   "error object an ORDER BY expression evaluated to: None and a tuple are not comparable, sorted() raises TypeError" % (partial[0][0].rel, partial[0][1].name), node=c)

    _layer(rep, _sec_o, repo)

    def _sec_p(repo: Repo, rep: Report) -> None:
        # ------------------------------------------------------------------ (p)  F108
        rep.rule("C08.p-sort-key-number-block-agrees-with-literal-order",
                 "Literal.__gt__ compares two literals by value when both satisfy its `is a number` predicate (datatype in _NUMERIC_LITERAL_TYPES, well typed, has a value) and otherwise by "
                 "datatype / lexical form; that is only an order if numbers form one block. The ORDER BY / MIN / MAX key function therefore puts, before the literal itself, a component computed "
                 "with exactly that predicate. Without it `ORDER BY ?v` over \"0abc\"^^xsd:integer, 5, 9.0e0 is cyclic (\"0abc\" < 5 by text, 5 < 9.0e0 by value, 9.0e0 < \"0abc\" numbers first) "
                 "and the result depends on the input order. (The predicate may be written out or be a computed property of Literal read on the object: a read stands for the property's body)", floor=1)
        term = repo.mod("rdflib.term")
        gt = term.func("Literal.__gt__")
        selfname = gt.args.args[0].arg

        def conjuncts(e: ast.AST, subject: str) -> frozenset[str]:
            out = set()
            for v in e.values:  # type: ignore[attr-defined]
                t = ast.parse(norm(v), mode="eval").body
                for n in ast.walk(t):
                    if isinstance(n, ast.Name) and n.id == subject:
                        n.id = "SUBJECT"
                out.add(norm(t))
            return frozenset(out)

        def is_membership(e: ast.AST) -> bool:
            """one conjunct is `<x>.datatype in <module-level table>`"""
            return any(isinstance(x, ast.Compare) and len(x.ops) == 1 and isinstance(x.ops[0], ast.In) and isinstance(x.comparators[0], ast.Name)
                       and isinstance(x.left, ast.Attribute) and x.left.attr == "datatype" for x in ast.walk(e))

        # the predicate may be written out in __gt__ or be the body of a property of Literal that __gt__ reads on self (and the key function on its argument):
        # a read of such a property stands for its body with self replaced by the object it is read on
        props = H.simple_properties(repo, term, "Literal")

        def conjunctions(nodes, subject: str):
            for b in nodes:
                for x in [b] + ([H.expand_property_reads(b, props)] if isinstance(b, ast.Attribute) and b.attr in props else []):
                    if isinstance(x, ast.BoolOp) and isinstance(x.op, ast.And):
                        yield x

        lit_pred = {conjuncts(b, selfname) for b in conjunctions(own_nodes(gt), selfname) if is_membership(b)
                    and all(selfname in {n.id for n in ast.walk(v) if isinstance(n, ast.Name)} for v in b.values)}
        if len(lit_pred) != 1:
            raise AnalysisError("Literal.__gt__: the predicate selecting comparison by value (datatype in <numeric types> and ...) not found uniquely: %s" % sorted(map(sorted, lit_pred)))
        want = next(iter(lit_pred))
        # The key functions that order TERMS, by role: the key of a sort in the evaluator of the OrderBy node and in the accumulator classes (MIN / MAX) must have a
        # branch for literals (else the rule has lost its anchor); a key function elsewhere (e.g. the count of unbound positions by which the triple patterns of a
        # BGP are arranged) is looked at if it has one, and is not a key over terms otherwise.
        term_keys = H.term_key_functions(repo, ev, ag, H.sort_key_sites(repo, (ev, ag)))
        if not term_keys:
            raise AnalysisError("no sort key function found")
        for km, kfn, p0, lit_returns in term_keys:
            params = {a.arg for a in kfn.args.args}
            for rt in lit_returns:
                if rt.value is None:
                    continue
                elts = rt.value.elts if isinstance(rt.value, ast.Tuple) else [rt.value]
                idx = next((i for i, e in enumerate(elts) if isinstance(e, ast.Name) and e.id == p0), len(elts))
                got = set()
                for e in elts[:idx]:
                    for x in H.expand_locals(kfn, e, params):
                        # (the returns looked at are reached only with the parameter known to be a Literal: a property read on it is Literal's)
                        for b in conjunctions(ast.walk(x), p0):
                            got.add(conjuncts(b, p0))
                ok = want in got
                rep.ob("C08.p-sort-key-number-block-agrees-with-literal-order", km, kfn.name, "key of a Literal: %s" % norm(rt.value), ok,
                       "numbers first, by Literal.__gt__'s own predicate" if ok else
                       "the key of a literal has no component before the literal itself that is computed with Literal.__gt__'s predicate %s%s: numbers (ordered by value across datatypes) are interleaved "
                       "with the literals ordered by datatype and text, the comparison is cyclic" % (sorted(want), " (found %s)" % sorted(map(sorted, got)) if got else ""), node=rt)

    _layer(rep, _sec_p, repo)

    def _sec_q(repo: Repo, rep: Report) -> None:
        # ------------------------------------------------------------------ (q)  F104
        rep.rule("C08.q-no-aggregate-binds-None",
                 "for every class in Aggregator.accumulator_classes the set_value() it resolves to stores into the group's bindings only a term: a stored `self.get_value()` whose resolved "
                 "get_value() can return None (declared `-> None` / `| None`, returns None, or falls through) must be guarded by a None test. SAMPLE over no value (`SELECT ?g (SAMPLE(?u) AS ?s) "
                 "... GROUP BY ?g` with ?u never bound; also every unbound GROUP BY key, which is sampled) otherwise binds Python None: joins, DISTINCT and the serializers break", floor=7)
        for cname in concrete_classes():
            owner, sv = resolved(cname, "set_value")
            if sv is None:
                raise AnalysisError("%s: set_value() not resolved" % cname)
            if len(sv.args.args) < 2:
                raise AnalysisError("%s.set_value: signature not recognised" % owner)
            bparam = sv.args.args[1].arg
            stores = [s_ for s_ in own_nodes(sv) if isinstance(s_, ast.Assign) and any(isinstance(t, ast.Subscript) and norm(t.value) == bparam for t in s_.targets)]
            bad = None
            for s_ in stores:
                v = s_.value
                if isinstance(v, ast.Constant) and v.value is None:
                    bad = (s_, "None")
                if isinstance(v, ast.Call) and isinstance(v.func, ast.Attribute) and norm(v.func.value) == sv.args.args[0].arg and not v.args:
                    gowner, gv = resolved(cname, v.func.attr)
                    if gv is None:
                        raise AnalysisError("%s: %s() not resolved" % (cname, v.func.attr))
                    nullable = (gv.returns is not None and ("None" in norm(gv.returns) or "Optional" in norm(gv.returns))) or not H.always_returns_value(gv.body) \
                        or any(isinstance(x, ast.Return) and isinstance(x.value, ast.Constant) and x.value.value is None for x in own_nodes(gv))
                    if nullable and not H.non_none_guarded(ag, s_, norm(v), sv):
                        bad = (s_, "%s.%s() which can return None" % (gowner, v.func.attr))
            rep.ob("C08.q-no-aggregate-binds-None", ag, "%s.set_value" % cname, "%s: %s" % (ag.qual_of(sv) or owner, "; ".join(norm(s_) for s_ in stores) or "binds nothing"), bad is None,
                   "binds a term (or nothing)" if bad is None else "%s (used for %s) stores %s into the bindings: the variable is bound to Python None instead of staying unbound" % (
                       "%s.set_value" % owner, cname, bad[1]), node=bad[0] if bad else sv)

    _layer(rep, _sec_q, repo)

    def _sec_r(repo: Repo, rep: Report) -> None:
        # ------------------------------------------------------------------ (r)  F109
        rep.rule("C08.r-numeric-aggregate-records-type-error",
                 "an accumulator whose update() converts the value with operators.numeric() (SUM, AVG: numeric-add is an error for a term that is not a number) does not swallow numeric()'s "
                 "SPARQLTypeError: the handler that catches it stores a mark on self, the set_value() the class resolves to binds the variable only under a test of that mark, and the handler "
                 "for NotBoundError (unbound: skipped) sets no mark. `SELECT (SUM(?v) AS ?s)` over 1, 2, \"x\" leaves ?s unbound (W3C agg-err-01) instead of answering 3", floor=6)
        opm = repo.mod("rdflib.plugins.sparql.operators")
        n_num = 0
        for cname in concrete_classes():
            owner, upd = resolved(cname, "update")
            if upd is None:
                raise AnalysisError("%s: update() not resolved" % cname)
            calls = []
            for c in own_nodes(upd):
                if isinstance(c, ast.Call) and isinstance(c.func, ast.Name):
                    r = H.resolve_function(repo, ag, c.func.id)
                    if r is not None and r[0] is opm and r[1].name == "numeric":
                        calls.append((c, r))
            if not calls:
                continue
            n_num += 1
            kinds = esc.of_function(calls[0][1][0], calls[0][1][1])
            if not kinds:
                raise AnalysisError("operators.numeric raises no SPARQL error any more: rule C08.r must be revisited")
            selfn = upd.args.args[0].arg

            def marks(h: ast.ExceptHandler) -> set[str]:
                out = set()
                for s_ in h.body:
                    for x in ast.walk(s_):
                        tg = x.targets if isinstance(x, ast.Assign) else [x.target] if isinstance(x, (ast.AugAssign, ast.AnnAssign)) else []
                        out |= {t.attr for t in tg if isinstance(t, ast.Attribute) and norm(t.value) == selfn}
                return out

            flags: set[str] = set()
            for c, _r in calls:
                tries = [p_ for p_ in ag.parents(c) if isinstance(p_, ast.Try) and any(c in ast.walk(s_) for s_ in p_.body)]
                for kind in sorted(kinds):
                    h = next((h for t in tries for h in t.handlers if esc.catches(h, kind)), None)
                    mk = marks(h) if h is not None else set()
                    flags |= mk
                    ok = bool(mk)
                    rep.ob("C08.r-numeric-aggregate-records-type-error", ag, "%s.update" % cname, "handler of %s from numeric()" % kind, ok,
                           "recorded in self.%s" % sorted(mk) if ok else "the %s numeric() raises for a term that is not a number is %s: the aggregate silently sums the remaining numbers instead of being an error" % (
                               kind, "not handled here" if h is None else "caught by `except %s` which records nothing on self" % norm(h.type)), node=h or c)
                hb = next((h for t in tries for h in t.handlers if esc.catches(h, "NotBoundError")), None)
                ok = hb is not None and not marks(hb)
                rep.ob("C08.r-numeric-aggregate-records-type-error", ag, "%s.update" % cname, "handler of NotBoundError", ok,
                       "skips the solution" if ok else "an unbound variable is not skipped (handler %s): a solution without a value makes the aggregate an error" % (norm(hb.type) if hb is not None and hb.type is not None else hb), node=hb or c)
            if not flags:
                rep.ob("C08.r-numeric-aggregate-records-type-error", ag, "%s.set_value" % cname, "set_value consults the error mark", False,
                       "%s.update records no error mark on self, so set_value cannot leave the variable unbound for an aggregate that is an error" % cname, node=upd)
            else:
                sowner, sv = resolved(cname, "set_value")
                if sv is None:
                    raise AnalysisError("%s: set_value() not resolved" % cname)
                bparam = sv.args.args[1].arg
                stores = [s_ for s_ in own_nodes(sv) if isinstance(s_, ast.Assign) and any(isinstance(t, ast.Subscript) and norm(t.value) == bparam for t in s_.targets)]
                unguarded = [s_ for s_ in stores if not any(isinstance(p_, ast.If) and any(isinstance(a, ast.Attribute) and a.attr in flags and norm(a.value) == sv.args.args[0].arg for a in ast.walk(p_.test))
                                                             for p_ in ag.parents(s_))]
                ok = bool(stores) and not unguarded
                rep.ob("C08.r-numeric-aggregate-records-type-error", ag, "%s.set_value" % cname, "%s.set_value binds under a test of self.%s" % (sowner, sorted(flags)), ok,
                       "an aggregate that is an error leaves the variable unbound" if ok else "%s.set_value binds the variable without consulting self.%s: the error mark set by update() has no effect" % (sowner, sorted(flags)),
                       node=unguarded[0] if unguarded else sv)
        if n_num < 2:
            raise AnalysisError("expected SUM and AVG to convert with operators.numeric(); found %d such accumulator(s)" % n_num)

    _layer(rep, _sec_r, repo)



_run_base4 = run


def run(repo: Repo, rep: Report) -> None:  # noqa: F811
    """Rules s-ac: one structural necessary condition per defect repaired in the second audit round (F273-F283), each quantified over every site of its kind."""
    _layer(rep, _run_base4, repo)
    from vlib import h_c08 as H

    rep.extra["explanation"] = rep.extra.get("explanation", "") + (
        " (s) no evaluator reaches below its operand by a fixed chain of .p steps; (t) an operand is evaluated with the solutions of its sibling pushed in only where the node's "
        "lazy flag allows it, and analyse() records the flag for every node kind whose evaluator reads it; (u) analyse() declares not lazily joinable every node kind whose evaluator "
        "carries state from one solution of its operand to the next; (v) the group keys are sampled also without a SELECT clause; (w) SELECT aliases are kept out of the SAMPLE rewrite; "
        "(x) the sort key separates the literals Literal.__gt__ refuses to compare; (y) the additions of SUM/AVG handle OverflowError like a type error; (z) an aggregate that tracks "
        "the datatype of its operands passes it to the literal it returns; (aa) islice bounds are clamped; (ab) SELECT * does not look for variables where they are not in scope; "
        "(ac) every clause that may hold EXISTS goes through translateExists, and _sample does not enter its pattern."
    )

    ev = repo.mod("rdflib.plugins.sparql.evaluate")
    ag = repo.mod("rdflib.plugins.sparql.aggregates")
    alg = repo.mod("rdflib.plugins.sparql.algebra")
    par = repo.mod("rdflib.plugins.sparql.parser")
    term = repo.mod("rdflib.term")
    opm = repo.mod("rdflib.plugins.sparql.operators")
    typed = repo.typed
    AG = "rdflib.plugins.sparql.aggregates."
    P = H.P_STEPS

    def enclosing(m, n, kinds, stop):
        for p_ in m.parents(n):
            if isinstance(p_, kinds):
                yield p_
            if p_ is stop:
                return

    def _sec_s(repo: Repo, rep: Report) -> None:
        # ------------------------------------------------------------------ (s)  F273
        rep.rule("C08.s-no-positional-algebra-navigation",
                 "evaluate.py: an evaluator looks at its own node and hands the operands (.p / .p1 / .p2) to evalPart; it never takes a second operand step from an operand (x.p.p, or y.p of a "
                 "local y = x.p) unless the kind of that operand was tested (`<operand>.name` in an enclosing if / while). What lies below the root depends on the solution modifiers written: "
                 "`CONSTRUCT WHERE { ?s ?p ?o } LIMIT 1` is ConstructQuery(Slice(Project(BGP))), reading the template as query.p.p.triples finds None there and the query raises TypeError",
                 floor=12)
        for q, f in ev.functions():
            sites = [n for n in own_nodes(f) if isinstance(n, ast.Attribute) and n.attr in P]
            if not sites:
                continue
            derived = {t.id for a in own_nodes(f) if isinstance(a, ast.Assign) and isinstance(a.value, ast.Attribute) and a.value.attr in P for t in a.targets if isinstance(t, ast.Name)}
            bad = None
            for n in sites:
                b = n.value
                if not ((isinstance(b, ast.Attribute) and b.attr in P) or (isinstance(b, ast.Name) and b.id in derived)):
                    continue
                tested = any(isinstance(a, ast.Attribute) and a.attr == "name" and norm(a.value) == norm(b)
                             for g_ in enclosing(ev, n, (ast.If, ast.While, ast.IfExp), f) for a in ast.walk(g_.test))
                if not tested:
                    bad = n
            rep.analysed("rdflib/plugins/sparql/evaluate.py:" + q)
            rep.ob("C08.s-no-positional-algebra-navigation", ev, q, "operand steps of %s" % q if bad is None else bad, bad is None,
                   "one step, or the operand's kind is tested first" if bad is None else
                   "%s takes an operand step from an operand whose kind was not tested: with a solution modifier (LIMIT, ORDER BY, DISTINCT) around the pattern another node is there and the field read is None" % norm(bad),
                   node=bad or f)

    _layer(rep, _sec_s, repo)

    # shared by (t) and (u): the dispatch of evalPart, the operands of a node, analyse()
    def evaluator_table() -> dict[str, str]:
        table = H.dispatch_table(ev)
        if len(table) < 15 or "LeftJoin" not in table or "AggregateJoin" not in table:
            raise AnalysisError("evalPart: dispatch on part.name not recognised (%s)" % sorted(table))
        return table

    def node_param(f):
        return f.args.args[1].arg if len(f.args.args) >= 2 else None

    def operand_call(c, nodep):
        """c is evalPart(<ctx>, <nodep>.pK)"""
        return isinstance(c, ast.Call) and isinstance(c.func, ast.Name) and c.func.id == ev.func("evalPart").name and len(c.args) == 2 \
            and isinstance(c.args[1], ast.Attribute) and c.args[1].attr in P and isinstance(c.args[1].value, ast.Name) and c.args[1].value.id == nodep

    def is_thaw(e):
        return isinstance(e, ast.Call) and isinstance(e.func, ast.Attribute) and e.func.attr == "thaw"

    def _sec_t(repo: Repo, rep: Report) -> None:
        # ------------------------------------------------------------------ (t)  F274
        rep.rule("C08.t-pushed-evaluation-gated-by-lazy",
                 "evaluate.py: an operand is evaluated with the solutions of its sibling operand pushed in (`evalPart(ctx.thaw(a), node.pK)` inside a loop over the solutions of node.pJ) only "
                 "where node.lazy holds - in the branch of a test of node.lazy, after `if node.lazy is False: ...; return`, or in a function only called from such a branch - and analyse() stores "
                 "n[\"lazy\"] for every node kind whose evaluator reads it (a missing field reads as None). Otherwise `?s :p ?o OPTIONAL { SELECT ?o ?x { ?o :q ?x } LIMIT 1 }` takes the LIMIT of the "
                 "sub-select per left solution, i.e. of the sequence already restricted to that ?o, instead of once", floor=5)
        table = evaluator_table()
        for q, f in ev.functions():
            nodep = node_param(f)
            if nodep is None or "." in q:
                continue
            for c in own_nodes(f):
                if not operand_call(c, nodep):
                    continue
                a0 = c.args[0]
                pushed = is_thaw(a0) or (isinstance(a0, ast.Name) and any(is_thaw(v) for v in H.local_values(f, a0.id)))
                if not pushed:
                    continue
                # ... inside a loop over the solutions of another operand of the same node
                loops = [l for l in enclosing(ev, c, (ast.For,), f) if any(operand_call(x, nodep) and x is not c for x in ast.walk(l.iter))]
                if not loops:
                    continue
                gated = H.flag_gated(ev, f, c, nodep, "lazy")
                if not gated:
                    callers = [(q2, c2) for q2, f2 in ev.functions() for c2 in own_nodes(f2)
                               if isinstance(c2, ast.Call) and isinstance(c2.func, ast.Name) and c2.func.id == f.name and q2 != q]
                    gated = bool(callers) and all(len(c2.args) >= 2 and isinstance(c2.args[1], ast.Name) and H.flag_gated(ev, ev.func(q2), c2, c2.args[1].id, "lazy") for q2, c2 in callers)
                rep.ob("C08.t-pushed-evaluation-gated-by-lazy", ev, q, c, gated,
                       "only where the node is lazy" if gated else
                       "%s is evaluated once per solution of the sibling operand, with that solution's bindings pushed in, whether or not the operand is a LIMIT / OFFSET / DISTINCT / grouped sub-select: "
                       "the slice (the groups) are taken of the restricted sequence" % norm(c.args[1]), node=c)
        an = alg.func("analyse")
        an_n = an.args.args[0].arg
        flagged_kinds: set[str] = set()
        for ks, br in H.name_branches(an, an_n, alg):
            if any(isinstance(s_, ast.Assign) and any(isinstance(t, ast.Subscript) and norm(t.value) == an_n and isinstance(t.slice, ast.Constant) and t.slice.value == "lazy" for t in s_.targets)
                   for s_ in br.body):
                flagged_kinds |= ks
        if not flagged_kinds:
            raise AnalysisError("algebra.analyse: no n[\"lazy\"] = ... under a test of n.name")
        for k, fname in sorted(table.items()):
            f = ev.defs.get(fname)
            if not isinstance(f, ast.FunctionDef) or node_param(f) is None:
                continue
            if any(isinstance(a, ast.Attribute) and a.attr == "lazy" and norm(a.value) == node_param(f) for a in own_nodes(f)):
                ok = k in flagged_kinds
                rep.ob("C08.t-pushed-evaluation-gated-by-lazy", alg, "analyse", "%s reads %s.lazy of a %s node" % (fname, node_param(f), k), ok,
                       "analyse() stores it" if ok else "analyse() stores n[\"lazy\"] only for %s: on a %s node the flag reads as None, which %s takes for one of its two cases whatever the operands are" % (
                           sorted(flagged_kinds), k, fname), node=an)

    _layer(rep, _sec_t, repo)

    def _sec_u(repo: Repo, rep: Report) -> None:
        # ------------------------------------------------------------------ (u)  F275
        rep.rule("C08.u-sequence-operators-not-lazy",
                 "algebra.analyse answers False (`cannot be evaluated with outer bindings pushed in`) for every node kind whose evaluator is not a per-solution map or filter of its operand: it "
                 "slices the operand positionally (islice), or inside its loop over the operand's solutions it tests the solution against, or feeds it to, an object that lives across iterations "
                 "(a `seen` set, the aggregators of the groups); collecting the solutions in a list is no such state. With ?k pushed into `{ SELECT ?k (COUNT(?x) AS ?n) { ... } GROUP BY ?k }` an "
                 "inner solution that leaves ?k unbound is compatible with the pushed value and is counted into that value's group, and the group of the unbound key is lost", floor=3)
        table = evaluator_table()
        an = alg.func("analyse")
        an_n = an.args.args[0].arg
        nonlazy: set[str] = set()
        for ks, br in H.name_branches(an, an_n, alg):
            rets = [r for s_ in br.body for r in ast.walk(s_) if isinstance(r, ast.Return)]
            if rets and all(isinstance(r.value, ast.Constant) and r.value.value is False for r in rets):
                nonlazy |= ks
        if len(nonlazy) < 2:
            raise AnalysisError("algebra.analyse: branches answering False not recognised (%s)" % sorted(nonlazy))
        # REDUCED may keep any number of copies between one and all of them (SPARQL 18.5 Reduced): evaluated under pushed bindings it only answers with another permitted multiplicity
        MULTIPLICITY_FREE = {"Reduced"}

        def sequence_state(f) -> str | None:
            nodep, ctxp = node_param(f), f.args.args[0].arg
            opnames = {t.id for a in own_nodes(f) if isinstance(a, ast.Assign) and operand_call(a.value, nodep) for t in a.targets if isinstance(t, ast.Name)}

            def is_operand(e):
                return operand_call(e, nodep) or (isinstance(e, ast.Name) and e.id in opnames)

            for c in own_nodes(f):
                if isinstance(c, ast.Call) and norm(c.func).split(".")[-1] == "islice" and c.args and is_operand(c.args[0]):
                    return "takes a positional slice of the operand's solutions (%s)" % norm(c)[:60]
            for lp in own_nodes(f):
                if not (isinstance(lp, ast.For) and is_operand(lp.iter) and isinstance(lp.target, ast.Name)):
                    continue
                row = lp.target.id
                inner = H.stored_names(lp.body) | {row, ctxp} | {l.target.id for l in enclosing(ev, lp, (ast.For,), f) if isinstance(l.target, ast.Name)}
                for n in [x for s_ in lp.body for x in ast.walk(s_)]:
                    if isinstance(n, ast.Compare) and len(n.ops) == 1 and isinstance(n.ops[0], (ast.In, ast.NotIn)) and isinstance(n.left, ast.Name) and n.left.id == row:
                        r = H.root_name(n.comparators[0])
                        if r is not None and r not in inner:
                            return "tests each solution against `%s`, which lives across the solutions (%s)" % (r, norm(n))
                    if isinstance(n, ast.Call) and isinstance(n.func, ast.Attribute) and any(isinstance(x, ast.Name) and x.id == row for a in n.args for x in ast.walk(a)):
                        r = H.root_name(n.func.value)
                        if r is None or r in inner:
                            continue
                        vals = H.local_values(f, r)
                        is_list = isinstance(n.func.value, ast.Name) and bool(vals) and all(isinstance(v, ast.List) or (isinstance(v, ast.Call) and norm(v.func) == "list") for v in vals)
                        if n.func.attr in ("append", "extend") and is_list:
                            continue  # the solutions are only collected, in order
                        return "feeds each solution to `%s`, which lives across the solutions (%s)" % (r, norm(n)[:60])
            return None

        for k, fname in sorted(table.items()):
            f = ev.defs.get(fname)
            if not isinstance(f, ast.FunctionDef) or node_param(f) is None:
                continue
            why = sequence_state(f)
            if why is None:
                continue
            if k in MULTIPLICITY_FREE:
                rep.ob("C08.u-sequence-operators-not-lazy", alg, "analyse", "%s (%s)" % (k, fname), True, "any multiplicity is a correct answer of REDUCED", node=an, vacuous=True)
                continue
            ok = k in nonlazy
            rep.ob("C08.u-sequence-operators-not-lazy", alg, "analyse", "%s: %s %s" % (k, fname, why), ok,
                   "analyse() answers False" if ok else "%s %s, so its result for a restricted input is not the restriction of its result - but analyse() answers False only for %s: a join with a "
                   "%s sub-select is evaluated lazily, with the outer solution pushed into it" % (fname, why, sorted(nonlazy), k), node=an)

    _layer(rep, _sec_u, repo)

    def aggregates_translator():
        ta = alg.func("translateAggregates")
        if len(ta.args.args) < 2:
            raise AnalysisError("translateAggregates: signature not recognised")
        return ta, ta.args.args[0].arg, ta.args.args[1].arg

    def _sec_v(repo: Repo, rep: Report) -> None:
        # ------------------------------------------------------------------ (v)  F276
        rep.rule("C08.v-group-keys-bound-without-select-clause",
                 "algebra.translateAggregates returns the list of (aggregate variable, variable) pairs that are bound again after grouping; a pair for each variable grouped by (a loop over values "
                 "derived from <Group>.expr) is added - by an append in the function or in a def nested in it that is called there - on a path that does not require q.projection: CONSTRUCT, ASK and DESCRIBE have no SELECT clause. Otherwise `CONSTRUCT { ?t a :Used } WHERE { ?x a ?t } "
                 "GROUP BY ?t` gets one empty solution per group and constructs nothing", floor=1)
        ta, qp, mp = aggregates_translator()
        rets = [r for r in own_nodes(ta) if isinstance(r, ast.Return) and isinstance(r.value, ast.Tuple) and len(r.value.elts) == 2 and isinstance(r.value.elts[1], ast.Name)]
        if not rets:
            raise AnalysisError("translateAggregates: `return <AggregateJoin>, <pairs>` not found")
        pairs = rets[0].value.elts[1].id
        # where a pair is added: `<pairs>.append(..)` in the function itself, or the call of a def nested in it that does the append on the captured list
        # (each as (the statement-level site in translateAggregates, the append itself))
        adds = H.effect_sites(ta, lambda c: isinstance(c, ast.Call) and isinstance(c.func, ast.Attribute) and c.func.attr == "append" and norm(c.func.value) == pairs, {pairs})
        if not adds:
            raise AnalysisError("translateAggregates: nothing is appended to the returned pairs")

        def needs_projection(site) -> bool:
            child = site
            for p_ in alg.parents(site):
                if isinstance(p_, ast.If) and child in p_.body:
                    conj = p_.test.values if isinstance(p_.test, ast.BoolOp) and isinstance(p_.test.op, ast.And) else [p_.test]
                    if any(norm(t) == qp + ".projection" for t in conj):
                        return True
                if p_ is ta:
                    break
                child = p_
            return False

        def over_group_keys(site) -> bool:
            for l in enclosing(alg, site, (ast.For,), ta):
                for x in H.expand_all(ta, l.iter, {qp, mp}):
                    if any(isinstance(a, ast.Attribute) and a.attr == "expr" and norm(a.value) == mp for a in ast.walk(x)):
                        return True
            return False

        free = [c for c, inner in adds if over_group_keys(c) and not needs_projection(c) and not needs_projection(inner)]
        rep.ob("C08.v-group-keys-bound-without-select-clause", alg, "translateAggregates", "%s.append(...) for the variables of %s.expr" % (pairs, mp), bool(free),
               "also without a SELECT clause" if free else "the variables grouped by are bound again after grouping only under `if %s.projection`: a CONSTRUCT / ASK / DESCRIBE query with GROUP BY "
               "gets solutions that bind nothing" % qp, node=adds[-1][0])

    _layer(rep, _sec_v, repo)

    def _sec_w(repo: Repo, rep: Report) -> None:
        # ------------------------------------------------------------------ (w)  F277
        rep.rule("C08.w-select-aliases-not-sampled",
                 "algebra.translateAggregates: the SAMPLE rewrite (`traverse(X, _sample)`) of the clauses that are evaluated after the (expr AS ?var) of the SELECT clause have been bound - the SELECT "
                 "expressions themselves and ORDER BY - is told to keep those variables (the `keep` collection of _sample receives .evar values): they are bound after grouping, not in the group. "
                 "`SELECT (SUM(?v) AS ?s) (COUNT(?v) AS ?n) (?s / ?n AS ?avg)` otherwise computes SAMPLE(?s) / SAMPLE(?n) over the group, where neither is bound, and ?avg stays unbound", floor=2)
        ta, qp, mp = aggregates_translator()
        seen_clauses = set()
        for c in own_nodes(ta):
            if not (isinstance(c, ast.Call) and norm(c.func) == "traverse" and len(c.args) >= 2):
                continue
            fn_ = c.args[1]
            part = fn_ if isinstance(fn_, ast.Call) and norm(fn_.func).split(".")[-1] == "partial" else None
            target = part.args[0] if part is not None and part.args else fn_
            if not (isinstance(target, ast.Name) and target.id == "_sample"):
                continue
            x = c.args[0]
            clause = None
            if isinstance(x, ast.Attribute) and norm(x.value) == qp and x.attr in ("orderby", "having"):
                clause = x.attr
            elif isinstance(x, ast.Attribute) and x.attr == "expr" and isinstance(x.value, ast.Name) and any(
                    isinstance(l.target, ast.Name) and l.target.id == x.value.id and qp + ".projection" in H.iterated_sources(ta, l.iter, {qp, mp}) for l in enclosing(alg, c, (ast.For,), ta)):
                clause = "projection"
            if clause is None:
                raise AnalysisError("translateAggregates: _sample rewrite of %s not modelled" % norm(x))
            seen_clauses.add(clause)
            if clause == "having":
                continue  # HAVING is evaluated before the SELECT expressions are
            keep = [k.value for k in part.keywords if k.arg == "keep"] if part is not None else []
            ok = False
            if keep:
                srcs = list(H.expand_locals(ta, keep[0], {qp, mp}))
                if isinstance(keep[0], ast.Name):
                    srcs += [a for m_ in own_nodes(ta) if isinstance(m_, ast.Call) and isinstance(m_.func, ast.Attribute) and m_.func.attr in ("add", "update", "append")
                             and norm(m_.func.value) == keep[0].id for a in m_.args]
                ok = any(isinstance(a, ast.Attribute) and a.attr == "evar" for s_ in srcs for a in ast.walk(s_))
            rep.ob("C08.w-select-aliases-not-sampled", alg, "translateAggregates", "_sample rewrite of the %s clause" % clause, ok,
                   "keeps the (expr AS ?var) variables" if ok else "%s is rewritten with _sample without a `keep` collection holding the variables of the (expr AS ?var) of the SELECT clause: such a "
                   "variable used in the %s is replaced by SAMPLE(?var) over the group, where it is not bound" % (norm(x), "SELECT clause after its definition" if clause == "projection" else "ORDER BY"), node=c)
        if not {"projection", "orderby"} <= seen_clauses:
            raise AnalysisError("translateAggregates: _sample rewrites found only for %s" % sorted(seen_clauses))

    _layer(rep, _sec_w, repo)

    def _sec_x(repo: Repo, rep: Report) -> None:
        # ------------------------------------------------------------------ (x)  F278
        rep.rule("C08.x-sort-key-separates-incomparable-literals",
                 "Literal.__gt__ answers NotImplemented for two literals under a test of their (coalesced) datatypes being different (rdflib.DAWG_LITERAL_COLLATION); a sort key that contains the "
                 "literal itself is a total order only if an earlier component of the key is computed from the datatype (not merely from its membership in the numeric types), so that two literals "
                 "reaching the comparison have the same one. Otherwise `ORDER BY ?v` over \"b\", \"2020-01-01\"^^xsd:date, \"a\" leaves the rows in store order, and MIN/MAX depend on it", floor=1)
        gt = term.func("Literal.__gt__")
        other = gt.args.args[1].arg
        refuses = False
        other_is_literal = H.instance_test(other, "Literal")
        gt_params = {a.arg for a in gt.args.args}
        # a `return NotImplemented` that is reached only with `other` known to be a Literal (inside `if isinstance(other, Literal)`, or after the guard clause that
        # leaves for everything else), on the side of a comparison of the two datatypes where they differ
        for r in own_nodes(gt):
            if not (isinstance(r, ast.Return) and isinstance(r.value, ast.Name) and r.value.id == "NotImplemented" and H.established(term, gt, r, other_is_literal)):
                continue
            child = r
            for g_ in term.parents(r):
                if g_ is gt:
                    break
                if isinstance(g_, ast.If) and isinstance(g_.test, ast.Compare) and len(g_.test.ops) == 1 and (
                        (isinstance(g_.test.ops[0], ast.NotEq) and child in g_.body) or (isinstance(g_.test.ops[0], ast.Eq) and child in g_.orelse)):
                    srcs = [y for side in (g_.test.left, g_.test.comparators[0]) for y in H.expand_locals(gt, side, gt_params)]
                    if any(isinstance(a, ast.Attribute) and a.attr == "datatype" for y in srcs for a in ast.walk(y)):
                        refuses = True
                child = g_
        if not refuses:
            raise AnalysisError("Literal.__gt__ no longer answers NotImplemented for literals of different datatypes: rule C08.x must be revisited")
        term_keys = H.term_key_functions(repo, ev, ag, H.sort_key_sites(repo, (ev, ag)))
        if not term_keys:
            raise AnalysisError("no sort key function found")
        for km, kfn, p0, lit_returns in term_keys:
            params = {a.arg for a in kfn.args.args}
            for rt in lit_returns:
                if rt.value is None:
                    continue
                elts = rt.value.elts if isinstance(rt.value, ast.Tuple) else [rt.value]
                idx = next((i for i, e in enumerate(elts) if isinstance(e, ast.Name) and e.id == p0), None)
                if idx is None:
                    continue  # the literal itself is not part of the key
                ok = False
                for e in elts[:idx]:
                    for x in H.expand_locals(kfn, e, params):
                        for n, ps in H.walk_with_parents(x):
                            if isinstance(n, ast.Attribute) and n.attr == "datatype" and norm(n.value) == p0 and not any(isinstance(p_, ast.Compare) for p_ in ps):
                                ok = True
                rep.ob("C08.x-sort-key-separates-incomparable-literals", km, kfn.name, "key of a Literal: %s" % norm(rt.value), ok,
                       "the datatype comes before the literal" if ok else "no component before the literal is computed from its datatype: two literals of different datatypes are compared with "
                       "Literal.__gt__/__lt__, which refuse (NotImplemented / False both ways) under DAWG_LITERAL_COLLATION - the key is not an order and sorted() leaves such rows where they were", node=rt)

    _layer(rep, _sec_x, repo)

    # ------------------------------------------------------------------ (y) (z)  F279 F280
    def concrete_accumulators() -> list[str]:
        concrete: list[str] = []
        for st in ag.cls("Aggregator").body:
            if isinstance(st, ast.Assign) and norm(st.targets[0]) == "accumulator_classes" and isinstance(st.value, ast.Dict):
                concrete = sorted({norm(v) for v in st.value.values})
        if len(concrete) < 7:
            raise AnalysisError("Aggregator.accumulator_classes not found")
        return concrete

    def resolved(cname: str, meth: str):
        for b in typed.mro(AG + cname):
            if b.startswith(AG):
                m = ag.methods(b[len(AG):]).get(meth)
                if m is not None:
                    return b[len(AG):], m
        return None, None

    OVERFLOW = {"OverflowError", "ArithmeticError", "Exception", "BaseException"}

    def _sec_y(repo: Repo, rep: Report) -> None:
        rep.rule("C08.y-numeric-aggregate-arithmetic-overflow",
                 "an accumulator whose update() converts with operators.numeric() adds Python numbers of mixed kinds (type_safe_numbers: float + int): the addition lies in a try whose handlers "
                 "catch OverflowError (an xsd:integer beyond the double range cannot be added to a float) and record it on self like numeric()'s type error, so that the aggregate is an error "
                 "(variable unbound). `SELECT (SUM(?v) AS ?s)` over 1.5e0 and 10**400 otherwise aborts the whole query with OverflowError", floor=2)
        n_num = 0
        for cname in concrete_accumulators():
            owner, upd = resolved(cname, "update")
            if upd is None:
                raise AnalysisError("%s: update() not resolved" % cname)
            selfn = upd.args.args[0].arg
            numcalls = [c for c in own_nodes(upd) if isinstance(c, ast.Call) and isinstance(c.func, ast.Name) and (H.resolve_function(repo, ag, c.func.id) or (None, None))[0] is opm
                        and H.resolve_function(repo, ag, c.func.id)[1].name == "numeric"]
            if numcalls:
                n_num += 1
                numnames = {t.id for a in own_nodes(upd) if isinstance(a, ast.Assign) and a.value in numcalls for t in a.targets if isinstance(t, ast.Name)}

                def uses_number(e) -> bool:
                    return any(x in numcalls or (isinstance(x, ast.Name) and x.id in numnames) for x in ast.walk(e))

                arith = [n for n in own_nodes(upd) if uses_number(n) and (
                    (isinstance(n, ast.Call) and isinstance(n.func, ast.Name) and n.func.id == "sum") or
                    (isinstance(n, ast.BinOp) and isinstance(n.op, (ast.Add, ast.Sub, ast.Mult))) or
                    (isinstance(n, ast.AugAssign) and isinstance(n.op, (ast.Add, ast.Sub, ast.Mult))))]
                if not arith:
                    raise AnalysisError("%s.update: the addition of the converted number not found" % owner)
                for a in arith:
                    tries = [t for t in enclosing(ag, a, (ast.Try,), upd) if any(a in ast.walk(s_) for s_ in t.body)]
                    h = next((h for t in tries for h in t.handlers if h.type is None or H.type_names(h.type) & OVERFLOW), None)
                    marks = {t.attr for s_ in (h.body if h is not None else []) for x in ast.walk(s_) for t in (x.targets if isinstance(x, ast.Assign) else [x.target] if isinstance(x, (ast.AugAssign, ast.AnnAssign)) else [])
                             if isinstance(t, ast.Attribute) and norm(t.value) == selfn}
                    ok = h is not None and bool(marks)
                    rep.ob("C08.y-numeric-aggregate-arithmetic-overflow", ag, "%s.update" % cname, a, ok,
                           "OverflowError makes the aggregate an error (self.%s)" % sorted(marks) if ok else
                           "the OverflowError of adding an integer beyond the double range to a float is %s: it leaves update() and Aggregator.update, and the query raises instead of leaving the variable unbound" % (
                               "not caught here" if h is None else "caught without recording it"), node=a)
        if n_num < 2:
            raise AnalysisError("expected SUM and AVG to convert with numeric() (found %d)" % n_num)

    _layer(rep, _sec_y, repo)

    def _sec_z(repo: Repo, rep: Report) -> None:
        rep.rule("C08.z-aggregate-result-datatype",
                 "an accumulator whose update() tracks the promoted datatype of its operands in self.datatype builds the literal it answers with `datatype=self.datatype` wherever more than one "
                 "datatype is possible for the same Python value - unconditionally, or in the branch of a test of self.datatype against several datatypes: Literal(<float>) alone is always "
                 "xsd:double, so AVG over \"1.5\"^^xsd:float, \"2.5\"^^xsd:float answers an xsd:double where SUM answers an xsd:float", floor=2)
        n_dt = 0
        for cname in concrete_accumulators():
            owner, upd = resolved(cname, "update")
            if upd is None:
                raise AnalysisError("%s: update() not resolved" % cname)
            selfn = upd.args.args[0].arg
            # (z)
            tracks = any(isinstance(t, ast.Attribute) and t.attr == "datatype" and norm(t.value) == selfn
                         for a in own_nodes(upd) if isinstance(a, (ast.Assign, ast.AugAssign, ast.AnnAssign)) for t in (a.targets if isinstance(a, ast.Assign) else [a.target]))
            if not tracks:
                continue
            n_dt += 1
            gowner, gv = resolved(cname, "get_value")
            if gv is None:
                raise AnalysisError("%s: get_value() not resolved" % cname)
            gself = gv.args.args[0].arg
            for c in own_nodes(gv):
                if not (isinstance(c, ast.Call) and norm(c.func) == "Literal" and c.args):
                    continue
                ctx_kind = "unconditional"
                child = c
                for p_ in ag.parents(c):
                    if isinstance(p_, ast.If) and any(isinstance(a, ast.Attribute) and a.attr == "datatype" and norm(a.value) == gself for a in ast.walk(p_.test)):
                        t = p_.test
                        several = isinstance(t, ast.Compare) and len(t.ops) == 1 and isinstance(t.ops[0], ast.In) and isinstance(t.comparators[0], (ast.Tuple, ast.List, ast.Set)) and len(t.comparators[0].elts) > 1
                        ctx_kind = "several" if several and child in p_.body else "decided"
                        break
                    if p_ is gv:
                        break
                    child = p_
                reads_state = any(isinstance(a, ast.Attribute) and norm(a.value) == gself for a in ast.walk(c.args[0]))
                if ctx_kind == "decided" or not reads_state:
                    continue  # one datatype follows from the branch (integers average to a decimal) / a constant (the empty group)
                ok = any(k.arg == "datatype" and any(isinstance(a, ast.Attribute) and a.attr == "datatype" and norm(a.value) == gself for a in ast.walk(k.value)) for k in c.keywords)
                rep.ob("C08.z-aggregate-result-datatype", ag, "%s.get_value" % cname, c, ok,
                       "carries the tracked datatype" if ok else "%s.update tracks the datatype of the operands, but this result (%s) is built without it: Literal() derives the datatype from the "
                       "Python value alone, so an xsd:float (or any derived numeric type) operand gives an answer of another datatype" % (owner, "for any datatype" if ctx_kind == "unconditional" else "in the branch for several datatypes"), node=c)
        if n_dt < 2:
            raise AnalysisError("expected SUM and AVG to track self.datatype (found %d)" % n_dt)

    _layer(rep, _sec_z, repo)

    def _sec_aa(repo: Repo, rep: Report) -> None:
        # ------------------------------------------------------------------ (aa)  F281
        rep.rule("C08.aa-islice-bounds-clamped",
                 "every bound handed to itertools.islice that is computed from a field of the algebra node (LIMIT / OFFSET are arbitrary integers of the query) goes through min(<bound>, <a limit "
                 "that does not depend on the node>): islice() raises ValueError for an int above sys.maxsize, and it does so when the result is consumed. `LIMIT 9223372036854775807 OFFSET 1` "
                 "(the `no limit` of generated queries) has start + length = sys.maxsize + 1", floor=2)
        n_isl = 0
        for mname, m in sorted(repo.modules.items()):
            if not mname.startswith("rdflib.plugins.sparql"):
                continue
            for q, f in m.functions():
                params = {a.arg for a in f.args.args}
                for c in own_nodes(f):
                    if not (isinstance(c, ast.Call) and norm(c.func).split(".")[-1] == "islice" and len(c.args) >= 2):
                        continue

                    def alternatives(e, depth=0):
                        if isinstance(e, ast.IfExp):
                            return alternatives(e.body, depth) + alternatives(e.orelse, depth)
                        if isinstance(e, ast.Name) and e.id not in params and depth < 3:
                            vals = H.local_values(f, e.id)
                            if vals:
                                return [x for v in vals for x in alternatives(v, depth + 1)]
                        return [e]

                    def from_node(e) -> bool:
                        return any(isinstance(a, ast.Attribute) and isinstance(a.value, ast.Name) and a.value.id in params for a in ast.walk(e))

                    for i, b in enumerate(c.args[1:], 1):
                        for e in alternatives(b):
                            e = H.subst_locals(f, e, params)  # in terms of the parameters: `offset = part.start` is a copy, not another source
                            if not from_node(e):
                                continue
                            n_isl += 1
                            ok = isinstance(e, ast.Call) and norm(e.func) == "min" and len(e.args) == 2 and sum(1 for a in e.args if from_node(a)) == 1
                            rep.ob("C08.aa-islice-bounds-clamped", m, q, "islice bound %d: %s" % (i, norm(e)), ok,
                                   "clamped" if ok else "%s reaches islice() as it is: a LIMIT / OFFSET (or their sum) above sys.maxsize raises ValueError when the result is consumed" % norm(e), node=c)
        if not n_isl:
            raise AnalysisError("no islice() with bounds taken from an algebra node found: rule C08.aa has lost its anchor")

    _layer(rep, _sec_aa, repo)

    def _sec_ab(repo: Repo, rep: Report) -> None:
        # ------------------------------------------------------------------ (ab)  F282
        rep.rule("C08.ab-select-star-scope",
                 "algebra._findVars (the visitor `translate` runs over the WHERE clause to find what SELECT * projects) stops - returns a value, which ends traverse()'s descent - at every production "
                 "whose content is not in scope (SPARQL 18.2.1): Bind (only its variable), SubSelect (only its projection), Filter (nothing: the expression and its EXISTS patterns bind nothing) and "
                 "MinusGraphPattern (nothing: the right operand of MINUS). Otherwise `SELECT * { ?s ?p ?o FILTER NOT EXISTS { ?s :q ?z } }` has an always-unbound column ?z", floor=4)
        tr = alg.func("translate")
        if not any(isinstance(n, ast.Name) and n.id == "_findVars" for n in ast.walk(tr)):
            raise AnalysisError("algebra.translate no longer collects the SELECT * variables with _findVars")
        fv = alg.func("_findVars")
        fx, fres = fv.args.args[0].arg, fv.args.args[1].arg
        gp = H.grammar_params(par)
        branches = H.name_branches(fv, fx, alg)
        for K, adds_nothing in (("Bind", False), ("SubSelect", False), ("Filter", True), ("MinusGraphPattern", True)):
            if K not in gp:
                raise AnalysisError("parser.py: production %s not found" % K)
            brs = [br for ks, br in branches if K in ks]
            stops = any(H.always_returns_value(br.body) for br in brs)
            collects = [c for br in brs for s_ in br.body for c in ast.walk(s_) if isinstance(c, ast.Call) and isinstance(c.func, ast.Attribute) and norm(c.func.value) == fres]
            ok = stops and not (adds_nothing and collects)
            rep.ob("C08.ab-select-star-scope", alg, "_findVars", "stops at %s" % K, ok,
                   "not descended into" if ok else ("%s is descended into: the variables that occur only inside it (not in scope) are projected by SELECT * as columns that are never bound" % K if not stops
                                                  else "the branch for %s collects variables (%s) although nothing in it is in scope" % (K, norm(collects[0]))), node=brs[0] if brs else fv)

    _layer(rep, _sec_ab, repo)

    def _sec_ac(repo: Repo, rep: Report) -> None:
        # ------------------------------------------------------------------ (ac)  F283
        rep.rule("C08.ac-exists-pattern-translated-in-modifiers",
                 "the expressions that carry a graph pattern (grammar: Builtin_* productions with a `graph` parameter - EXISTS, NOT EXISTS) may be written wherever an Expression may: algebra.translate "
                 "hands every such clause of the query (projection, groupby, having, orderby) to translateExists, whose visitor knows each of these productions, and _sample (the SAMPLE rewrite of an "
                 "aggregate query) returns such a node unchanged instead of rewriting the variables of its pattern. `... GROUP BY ?s HAVING (EXISTS { ?s :q ?z })` otherwise reaches evalPart with the parse "
                 "tree of the pattern: 'I dont know: GroupGraphPatternSub'", floor=8)
        gp = H.grammar_params(par)
        tr = alg.func("translate")
        carriers = sorted(k for k, (allp, _o) in gp.items() if k.startswith("Builtin_") and "graph" in allp)
        if len(carriers) < 2:
            raise AnalysisError("parser.py: Builtin_EXISTS / Builtin_NOTEXISTS productions with a `graph` parameter not found (%s)" % carriers)
        tq = tr.args.args[0].arg
        covered: set[str] = set()
        for c in own_nodes(tr):
            if isinstance(c, ast.Call) and isinstance(c.func, ast.Name) and c.func.id == "translateExists":
                for a in c.args:
                    for x in ast.walk(a):
                        if isinstance(x, ast.Attribute) and norm(x.value) == tq:
                            covered.add(x.attr)
                        if isinstance(x, ast.Name):
                            for l in enclosing(alg, c, (ast.For,), tr):
                                if isinstance(l.target, ast.Name) and l.target.id == x.id and isinstance(l.iter, (ast.Tuple, ast.List)):
                                    covered |= {e.attr for e in l.iter.elts if isinstance(e, ast.Attribute) and norm(e.value) == tq}
        for clause, where in (("projection", "SELECT (EXISTS {...} AS ?b)"), ("groupby", "GROUP BY (EXISTS {...})"), ("having", "HAVING (EXISTS {...})"), ("orderby", "ORDER BY (EXISTS {...})")):
            if not any(isinstance(a, ast.Attribute) and a.attr == clause and norm(a.value) == tq for a in own_nodes(tr)):
                raise AnalysisError("algebra.translate no longer reads %s.%s" % (tq, clause))
            ok = clause in covered
            rep.ob("C08.ac-exists-pattern-translated-in-modifiers", alg, "translate", "%s.%s goes through translateExists" % (tq, clause), ok,
                   "translated" if ok else "the %s clause is put into the algebra without translateExists: the pattern of `%s` stays a parse tree, which evalPart does not know" % (clause, where), node=tr)
        te = alg.func("translateExists")
        te_names = {x.value for x in ast.walk(te) if isinstance(x, ast.Constant) and isinstance(x.value, str)}
        sm = alg.func("_sample")
        se = sm.args.args[0].arg
        sm_br = H.name_branches(sm, se, alg)
        for K in carriers:
            ok = K in te_names
            rep.ob("C08.ac-exists-pattern-translated-in-modifiers", alg, "translateExists", "knows %s" % K, ok, "" if ok else "translateExists does not translate the pattern of %s" % K, node=te)
            ok = any(K in ks and any(isinstance(r, ast.Return) and isinstance(r.value, ast.Name) and r.value.id == se for r in br.body) for ks, br in sm_br)
            rep.ob("C08.ac-exists-pattern-translated-in-modifiers", alg, "_sample", "returns a %s node unchanged" % K, ok,
                   "its pattern is not rewritten" if ok else "_sample descends into the pattern of %s and replaces its variables by SAMPLE(?v): the pattern is matched with the solution of the group "
                   "substituted, `HAVING (EXISTS { ?s :q ?z })` becomes a pattern over aggregate calls" % K, node=sm)

    _layer(rep, _sec_ac, repo)

