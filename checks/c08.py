"""C08 - solution modifiers and aggregates: exhaustiveness and sibling agreement (DESIGN.md §2 C08)."""
from __future__ import annotations

import ast

from vlib.cfg import CFG
from vlib.core import AnalysisError, Repo, Report, norm, own_nodes

EXPLANATION = (
    "(a) the aggregate names of the grammar and the keys of Aggregator.accumulator_classes are the same set and map to "
    "Accumulator subclasses; (b) DISTINCT sibling rule: every accumulator that does not opt out records the evaluated value "
    "in `seen` under `if self.distinct` on every path that updates its state, and the value recorded is the value use_row "
    "tests; (c) empty group: get_value/set_value of every accumulator reads only state initialised in __init__, and with no "
    "GROUP BY the implicit group's aggregator exists before (independently of) the first row; (d) LIMIT/OFFSET: islice bounds "
    "are start and start+length with `length is not None` tested by identity; (e) ORDER BY: keys are applied last-to-first with "
    "the stable sorted(), direction via its reverse= argument, never by reversing the list; (f) DISTINCT/REDUCED remember the "
    "solution itself; projection keeps exactly project.PV. Numeric promotion, mixed-term ordering and HAVING after aliasing "
    "are value-level and not decided."
)


def run(repo: Repo, rep: Report) -> None:
    rep.extra["explanation"] = EXPLANATION
    ev = repo.mod("rdflib.plugins.sparql.evaluate")
    ag = repo.mod("rdflib.plugins.sparql.aggregates")
    par = repo.mod("rdflib.plugins.sparql.parser")
    typed = repo.typed

    # ------------------------------------------------------------------ (a)
    rep.rule("C08.a-aggregate-table", "grammar aggregate names == keys of Aggregator.accumulator_classes, each mapped to an Accumulator subclass", floor=7)
    gram = set()
    for n in ast.walk(par.tree):
        if isinstance(n, ast.Call) and isinstance(n.func, ast.Name) and n.func.id == "Comp" and n.args and isinstance(n.args[0], ast.Constant) and str(n.args[0].value).startswith("Aggregate_"):
            gram.add(n.args[0].value)
    table = {}
    agg_cls = ag.cls("Aggregator")
    for st in agg_cls.body:
        if isinstance(st, ast.Assign) and norm(st.targets[0]) == "accumulator_classes" and isinstance(st.value, ast.Dict):
            for k, v in zip(st.value.keys, st.value.values):
                table[k.value] = norm(v)
    if len(gram) < 7 or len(table) < 7:
        raise AnalysisError("aggregate tables not found (grammar %s, table %s)" % (sorted(gram), sorted(table)))
    for nm in sorted(gram | set(table)):
        cls = table.get(nm)
        ok = nm in gram and cls is not None and ag.has(cls) and typed.is_subclass("rdflib.plugins.sparql.aggregates." + cls, "rdflib.plugins.sparql.aggregates.Accumulator")
        rep.ob("C08.a-aggregate-table", ag, "Aggregator", "%s -> %s" % (nm, cls), ok,
               "" if ok else "aggregate %s: in grammar=%s, accumulator class=%s" % (nm, nm in gram, cls), node=agg_cls)

    # ------------------------------------------------------------------ (b)(c)
    rep.rule("C08.b-distinct-bookkeeping",
             "each Accumulator subclass with its own update() either opts out of DISTINCT in __init__ (self.use_row = self.dont_care) "
             "or, on every path of update() that changes its accumulated state, reaches `if self.distinct: self.seen.add(<the evaluated value>)`", floor=5)
    rep.rule("C08.c-empty-group-values",
             "get_value()/set_value() of every accumulator read only attributes that __init__ (own or inherited) initialises, so the "
             "value for a group that received no row is defined; with no GROUP BY the implicit group's Aggregator is created outside the row loop", floor=6)
    accs = [c for c in typed.subclasses("rdflib.plugins.sparql.aggregates.Accumulator") if c.startswith("rdflib.plugins.sparql.aggregates.")]
    if len(accs) < 8:
        raise AnalysisError("expected >= 8 accumulator classes, found %s" % accs)

    def init_attrs(cfull: str) -> set[str]:
        out = set()
        for b in typed.mro(cfull):
            if not b.startswith("rdflib.plugins.sparql.aggregates."):
                continue
            cname = b.rsplit(".", 1)[1]
            m = ag.methods(cname).get("__init__")
            if m is None:
                continue
            for n in own_nodes(m):
                if isinstance(n, (ast.Assign, ast.AnnAssign)):
                    tg = n.targets if isinstance(n, ast.Assign) else [n.target]
                    for t in tg:
                        if isinstance(t, ast.Attribute) and isinstance(t.value, ast.Name) and t.value.id == "self":
                            out.add(t.attr)
            for st in ag.cls(cname).body:
                if isinstance(st, (ast.Assign, ast.AnnAssign)):
                    t = st.targets[0] if isinstance(st, ast.Assign) else st.target
                    if isinstance(t, ast.Name) and getattr(st, "value", None) is not None:
                        out.add(t.id)
        return out

    def opts_out(cfull: str) -> bool:
        for b in typed.mro(cfull):
            if not b.startswith("rdflib.plugins.sparql.aggregates.") or b.endswith(".Accumulator"):
                continue
            m = ag.methods(b.rsplit(".", 1)[1]).get("__init__")
            if m is None:
                continue
            for n in own_nodes(m):
                if isinstance(n, ast.Assign) and norm(n.targets[0]) == "self.use_row" and norm(n.value) == "self.dont_care":
                    # unconditional (top level of __init__)
                    if ag.parent.get(id(n)) is m:
                        return True
        return False

    def evaluates_expr(cfull: str, e: ast.expr, depth: int = 0) -> bool:
        """e is the value of the aggregate's expression on the row: `_eval(self.expr, row)` itself, or a call self.<m>(row) of a method
        (own or inherited) each of whose returns is such a value (possibly after raising for an error value)"""
        if norm(e) == "_eval(self.expr, row)":
            return True
        if depth > 3 or not (isinstance(e, ast.Call) and isinstance(e.func, ast.Attribute) and norm(e.func.value) == "self" and [norm(a) for a in e.args] == ["row"]):
            return False
        for b in typed.mro(cfull):
            if not b.startswith("rdflib.plugins.sparql.aggregates."):
                continue
            m = ag.methods(b.rsplit(".", 1)[1]).get(e.func.attr)
            if m is None:
                continue
            rets = [x for x in own_nodes(m) if isinstance(x, ast.Return)]
            if not rets:
                return False
            for x in rets:
                v = x.value
                if isinstance(v, ast.Name):
                    defs = [a.value for a in own_nodes(m) if isinstance(a, ast.Assign) and norm(a.targets[0]) == v.id]
                    if not defs or not all(evaluates_expr(b, d, depth + 1) for d in defs):
                        return False
                elif v is None or not evaluates_expr(b, v, depth + 1):
                    return False
            return True
        return False

    for cfull in sorted(accs):
        cname = cfull.rsplit(".", 1)[1]
        if cname == "Accumulator":
            continue
        meths = ag.methods(cname)
        rep.analysed("rdflib/plugins/sparql/aggregates.py:" + cname)
        if "update" in meths:
            upd = meths["update"]
            if opts_out(cfull):
                rep.ob("C08.b-distinct-bookkeeping", ag, cname + ".update", "opts out of DISTINCT", True,
                       "use_row = dont_care in __init__: DISTINCT does not change this aggregate's value", node=upd)
            else:
                g = CFG(upd)
                state_nodes = []
                for nd in g.nodes:
                    st = nd.ast
                    if nd.kind != "stmt" or st is None:
                        continue
                    tg = []
                    if isinstance(st, ast.Assign):
                        tg = st.targets
                    elif isinstance(st, ast.AugAssign):
                        tg = [st.target]
                    # (a boolean constant stored in an attribute is a flag - "this aggregate is an error" - not accumulated state)
                    is_flag = isinstance(getattr(st, "value", None), ast.Constant) and isinstance(st.value.value, bool)
                    if not is_flag and any(isinstance(t, ast.Attribute) and isinstance(t.value, ast.Name) and t.value.id == "self" and t.attr not in ("datatype", "seen") for t in tg):
                        state_nodes.append(nd.id)
                    if isinstance(st, ast.Expr) and isinstance(st.value, ast.Call) and isinstance(st.value.func, ast.Attribute) and st.value.func.attr in ("append", "extend") \
                            and norm(st.value.func.value).startswith("self.") and "seen" not in norm(st.value.func.value):
                        state_nodes.append(nd.id)
                marks = set()
                recorded = None
                for n in own_nodes(upd):
                    if isinstance(n, ast.If) and norm(n.test) == "self.distinct":
                        adds = [c for s in n.body for c in ast.walk(s) if isinstance(c, ast.Call) and norm(c.func) == "self.seen.add"]
                        if adds:
                            marks.add(g.by_ast[id(n)])
                            recorded = norm(adds[0].args[0])
                if not state_nodes:
                    raise AnalysisError("%s.update: no state update found" % cname)
                ok = bool(marks) and all(g.must_pass_after(s, marks, skip_exc=True) or g.must_pass_before(s, marks) for s in state_nodes)
                rep.ob("C08.b-distinct-bookkeeping", ag, cname + ".update", "state update => if self.distinct: self.seen.add(...)", ok,
                       "every updating path records the value" if ok else "a path updates the accumulator without recording the value in `seen` under `if self.distinct`: DISTINCT counts/sums duplicates", node=upd)
                if ok and recorded is not None:
                    src_ok = False
                    for n in own_nodes(upd):
                        if isinstance(n, ast.Assign) and norm(n.targets[0]) == recorded:
                            if evaluates_expr(cfull, n.value):
                                src_ok = True
                    rep.ob("C08.b-distinct-bookkeeping", ag, cname + ".update", "recorded value %s is the evaluated expression" % recorded, src_ok,
                           "" if src_ok else "the value put into `seen` (%s) is not the result of evaluating the aggregate's expression on the row, which is what use_row() tests" % recorded, node=upd)
        for mname in ("get_value", "set_value"):
            m = meths.get(mname)
            if m is None:
                continue
            have = init_attrs(cfull) | {"var", "expr", "distinct", "seen", "get_value", "compare"}
            used = {n.attr for n in ast.walk(m) if isinstance(n, ast.Attribute) and isinstance(n.value, ast.Name) and n.value.id == "self" and isinstance(n.ctx, ast.Load)}
            used -= {x for x in used if x in ag.methods(cname) or any(x in ag.methods(b.rsplit(".", 1)[1]) for b in typed.mro(cfull) if b.startswith("rdflib.plugins.sparql.aggregates."))}
            missing = used - have
            rep.ob("C08.c-empty-group-values", ag, "%s.%s" % (cname, mname), "reads %s" % sorted(used), not missing,
                   "all initialised in __init__" if not missing else "reads %s which only update() sets: undefined for a group without rows" % sorted(missing), node=m)
    # implicit group exists without rows
    f = ev.func("evalAggregateJoin")
    rep.analysed("rdflib/plugins/sparql/evaluate.py:evalAggregateJoin")
    row_loops = [n for n in own_nodes(f) if isinstance(n, ast.For) and isinstance(n.iter, ast.Name)]
    in_loops = {id(x) for l in row_loops for x in ast.walk(l)}
    resname = None
    for n in own_nodes(f):
        if isinstance(n, (ast.Assign, ast.AnnAssign)) and getattr(n, "value", None) is not None and "Aggregator" in norm(n.value):
            t = n.targets[0] if isinstance(n, ast.Assign) else n.target
            resname = norm(t)
    creates = [n for n in own_nodes(f) if id(n) not in in_loops and (
        (isinstance(n, ast.Subscript) and resname and norm(n.value) == resname) or
        (isinstance(n, ast.Call) and norm(n.func) == "Aggregator" and not isinstance(ev.parent.get(id(n)), ast.Lambda)))]
    guarded = [n for n in creates if any(isinstance(p, ast.If) and "is None" in norm(p.test) or isinstance(p, ast.If) and "not " in norm(p.test) for p in ev.parents(n))]
    rep.ob("C08.c-empty-group-values", ev, "evalAggregateJoin", "implicit group aggregator created outside the row loop", bool(creates),
           "the single implicit group exists even when the pattern has no solution (COUNT=0, SUM=0, ...)" if creates else
           "without GROUP BY the aggregator is only created when the first row arrives: an aggregate query over an empty pattern returns no row instead of COUNT=0 / SUM=0", node=f)

    # ------------------------------------------------------------------ (d)
    rep.rule("C08.d-slice-bounds", "evalSlice passes islice(res, start, start + length if length is not None else None)", floor=3)
    f = ev.func("evalSlice")
    calls = [c for c in ast.walk(f) if isinstance(c, ast.Call) and norm(c.func).endswith("islice")]
    if not calls:
        rep.ob("C08.d-slice-bounds", ev, "evalSlice", "islice(...)", False, "evalSlice no longer slices with islice (unmodelled)", node=f)
    else:
        c = calls[0]
        p = f.args.args[1].arg
        a = c.args
        ok1 = len(a) == 3 and norm(a[1]) == p + ".start"
        rep.ob("C08.d-slice-bounds", ev, "evalSlice", "lower bound %s" % (norm(a[1]) if len(a) > 1 else None), ok1, "" if ok1 else "lower bound is not %s.start" % p, node=c)
        ok2 = False
        ok3 = False
        if len(a) == 3 and isinstance(a[2], ast.IfExp):
            ie = a[2]
            ok2 = isinstance(ie.body, ast.BinOp) and isinstance(ie.body.op, ast.Add) and {norm(ie.body.left), norm(ie.body.right)} == {p + ".start", p + ".length"} \
                and isinstance(ie.orelse, ast.Constant) and ie.orelse.value is None
            t = ie.test
            ok3 = isinstance(t, ast.Compare) and isinstance(t.ops[0], ast.IsNot) and norm(t.left) == p + ".length" and isinstance(t.comparators[0], ast.Constant) and t.comparators[0].value is None
        rep.ob("C08.d-slice-bounds", ev, "evalSlice", "upper bound start + length", ok2, "" if ok2 else "upper bound is not %s.start + %s.length (else None)" % (p, p), node=c)
        rep.ob("C08.d-slice-bounds", ev, "evalSlice", "`length is not None` by identity", ok3, "" if ok3 else "presence of LIMIT is not tested with `is not None` (LIMIT 0 is falsy)", node=c)

    # ------------------------------------------------------------------ (e)
    rep.rule("C08.e-orderby-stable-multikey",
             "evalOrderBy applies the sort keys from last to first (reversed(part.expr)) with the stable sorted(); descending order is "
             "requested through sorted(reverse=...) derived from the key's order; the row list is never reversed", floor=3)
    f = ev.func("evalOrderBy")
    lp = [n for n in own_nodes(f) if isinstance(n, ast.For)]
    ok = bool(lp) and norm(lp[0].iter).startswith("reversed(") and ".expr" in norm(lp[0].iter)
    rep.ob("C08.e-orderby-stable-multikey", ev, "evalOrderBy", "for e in reversed(part.expr)", ok,
           "least significant key first" if ok else "sort keys are not applied via reversed(<part>.expr): key priority is wrong or the algebra's list is mutated", node=lp[0] if lp else f)
    if lp:
        srt = [c for c in ast.walk(lp[0]) if isinstance(c, ast.Call) and isinstance(c.func, ast.Name) and c.func.id == "sorted"]
        ok = len(srt) == 1 and any(k.arg == "reverse" for k in srt[0].keywords) and any(k.arg == "key" for k in srt[0].keywords)
        rep.ob("C08.e-orderby-stable-multikey", ev, "evalOrderBy", "sorted(res, key=..., reverse=...)", ok,
               "stable sort with per-key direction" if ok else "the per-key sort is not a single sorted(..., key=, reverse=) call", node=lp[0])
        if ok:
            rv = [k.value for k in srt[0].keywords if k.arg == "reverse"][0]
            src = norm(rv)
            for n in ast.walk(lp[0]):
                if isinstance(n, ast.Assign) and norm(n.targets[0]) == src:
                    src = norm(n.value)
            okd = "DESC" in src and ".order" in src
            rep.ob("C08.e-orderby-stable-multikey", ev, "evalOrderBy", "reverse derives from e.order == 'DESC'", okd, "" if okd else "reverse=%s does not derive from the key's order" % src, node=lp[0])
        bad = [n for n in ast.walk(f) if (isinstance(n, ast.Call) and isinstance(n.func, ast.Attribute) and n.func.attr == "reverse") or
               (isinstance(n, ast.Subscript) and isinstance(n.slice, ast.Slice) and n.slice.step is not None) or
               (isinstance(n, ast.Call) and isinstance(n.func, ast.Name) and n.func.id == "reversed" and ".expr" not in norm(n))]
        rep.ob("C08.e-orderby-stable-multikey", ev, "evalOrderBy", "rows are never reversed", not bad,
               "" if not bad else "%s reverses a list: rows that tie on this key lose the order established by the lower-priority keys" % norm(bad[0])[:60], node=bad[0] if bad else f)

    # ------------------------------------------------------------------ (f)
    rep.rule("C08.f-distinct-project",
             "evalDistinct/evalReduced remember and test the solution itself; evalProject keeps exactly project.PV", floor=4)
    for q in ("evalDistinct", "evalReduced"):
        fn = ev.func(q)
        lp = [n for n in own_nodes(fn) if isinstance(n, ast.For)]
        if not lp:
            raise AnalysisError("%s: no loop" % q)
        var = norm(lp[0].target)
        for n in ast.walk(lp[0]):
            if isinstance(n, ast.Call) and isinstance(n.func, ast.Attribute) and n.func.attr in ("add", "appendleft", "append") and n.args:
                ok = norm(n.args[-1]) == var
                rep.ob("C08.f-distinct-project", ev, q, n, ok, "remembers the solution" if ok else "remembers %s, not the solution %s: different solutions with equal %s collapse" % (norm(n.args[-1]), var, norm(n.args[-1])), node=n)
            if isinstance(n, ast.Compare) and isinstance(n.ops[0], (ast.In, ast.NotIn)):
                ok = norm(n.left) == var
                rep.ob("C08.f-distinct-project", ev, q, n, ok, "tests the solution" if ok else "tests %s, not the solution" % norm(n.left), node=n)
    fn = ev.func("evalProject")
    ok = any(isinstance(c, ast.Call) and isinstance(c.func, ast.Attribute) and c.func.attr == "project" and c.args and norm(c.args[0]).endswith(".PV") for c in ast.walk(fn))
    rep.ob("C08.f-distinct-project", ev, "evalProject", "row.project(project.PV)", ok, "" if ok else "projection no longer keeps exactly the PV variables", node=fn)

    # ------------------------------------------------------------------ (g)
    rep.rule("C08.g-accumulated-value-by-identity",
             "in the accumulators, whether a running value / evaluated term is `not yet set` is decided with `is None`; the truthiness of an "
             "accumulated or evaluated term (Literal(0), Literal(''), Literal(false) are falsy) is never consulted", floor=2)
    from vlib import truthy as _tr
    for cfull in sorted(accs):
        cname = cfull.rsplit(".", 1)[1]
        for mname, f in ag.methods(cname).items():
            for n in own_nodes(f):
                if isinstance(n, ast.Compare) and isinstance(n.ops[0], (ast.Is, ast.IsNot)) and isinstance(n.comparators[0], ast.Constant) and n.comparators[0].value is None \
                        and isinstance(n.left, ast.Attribute) and isinstance(n.left.value, ast.Name) and n.left.value.id == "self":
                    rep.ob("C08.g-accumulated-value-by-identity", ag, "%s.%s" % (cname, mname), n, True, "by identity", node=n)
            evaluated = {norm(a.targets[0]) for a in own_nodes(f) if isinstance(a, ast.Assign) and isinstance(a.value, ast.Call) and norm(a.value.func) in ("_eval", "self.eval_row")}
            for e, owner, kind in _tr.bool_contexts(f):
                txt = norm(e)
                is_state = isinstance(e, ast.Attribute) and isinstance(e.value, ast.Name) and e.value.id == "self" and e.attr in ("value", "sum", "counter", "result")
                if (is_state and e.attr == "value") or txt in evaluated:
                    rep.ob("C08.g-accumulated-value-by-identity", ag, "%s.%s" % (cname, mname), "%s [in %s: %s]" % (txt, kind, norm(getattr(owner, "test", owner))[:60]), False,
                           "%s is a term (or None): a falsy literal is treated as `not set`, so e.g. a running MIN/MAX of 0 is overwritten without comparison" % txt, node=e)

    # ------------------------------------------------------------------ (h)
    rep.rule("C08.h-group-variables-sampled-in-having-and-orderby",
             "translateAggregates (SPARQL 18.2.4.1): in HAVING and in ORDER BY every unaggregated variable is replaced by Sample(V) per group whether or not the clause "
             "itself contains an aggregate call; the rewrite (`q.X = traverse(q.X, _sample ...)`) is therefore not guarded by `traverse(q.X, _hasAggregate, complete=False)`. "
             "After the AggregateJoin only aggregate results exist, so an unsampled group key that is not projected is unbound in HAVING (all groups dropped) and in "
             "ORDER BY (rows not ordered)", floor=2)
    alg = repo.mod("rdflib.plugins.sparql.algebra")
    ta = alg.func("translateAggregates")
    for clause in ("having", "orderby"):
        rew = [n for n in own_nodes(ta) if isinstance(n, ast.Assign) and norm(n.targets[0]).endswith("." + clause) and isinstance(n.value, ast.Call)
               and norm(n.value.func) == "traverse" and any("_sample" in norm(a) for a in n.value.args)]
        if not rew:
            rep.ob("C08.h-group-variables-sampled-in-having-and-orderby", alg, "translateAggregates", "q.%s is rewritten with _sample" % clause, False,
                   "no sampling rewrite of q.%s found: unaggregated variables of the clause are unbound after grouping" % clause, node=ta)
            continue
        for n in rew:
            bad = None
            child = n
            for p_ in alg.parents(n):
                if isinstance(p_, ast.If) and child in p_.body:
                    for t in ast.walk(p_.test):
                        if isinstance(t, ast.Call) and norm(t.func) == "traverse" and any("_hasAggregate" in norm(a) for a in t.args):
                            comp = [k.value for k in t.keywords if k.arg == "complete"]
                            always = bool(comp) and isinstance(comp[0], ast.Constant) and comp[0].value is True
                            if not always:
                                bad = t
                if p_ is ta:
                    break
                child = p_
            rep.ob("C08.h-group-variables-sampled-in-having-and-orderby", alg, "translateAggregates", "q.%s: %s" % (clause, norm(n)[:80]), bad is None,
                   "sampled unconditionally" if bad is None else
                   "the %s clause is sampled only if `%s` - i.e. only if it contains an aggregate call: `GROUP BY ?d %s` with ?d not projected refers to a variable that no longer exists after grouping" % (
                       clause.upper(), norm(bad), "HAVING (?d != <x>)" if clause == "having" else "ORDER BY ?d"), node=bad or n)


_run_base = run


def run(repo: Repo, rep: Report) -> None:  # noqa: F811
    _run_base(repo, rep)
    ag = repo.mod("rdflib.plugins.sparql.aggregates")
    # ------------------------------------------------------------------ (i)
    rep.rule("C08.i-extremum-is-a-member-of-the-group",
             "MIN / MAX return one of the group's terms unchanged: Extremum.set_value binds self.value itself (SPARQL orders IRIs, blank nodes and literals; the extremum of a group "
             "of IRIs is an IRI). Wrapping the running value in Literal(...) unconditionally turns an IRI or blank node into a plain string literal", floor=1)
    sv = ag.func("Extremum.set_value")
    for st in own_nodes(sv):
        if isinstance(st, ast.Assign) and isinstance(st.targets[0], ast.Subscript) and norm(st.targets[0].value) == "bindings":
            v = st.value
            uncond_wrap = isinstance(v, ast.Call) and norm(v.func) == "Literal" and v.args and norm(v.args[0]) == "self.value"
            rep.ob("C08.i-extremum-is-a-member-of-the-group", ag, "Extremum.set_value", st, not uncond_wrap,
                   "the term itself (a Literal is only made of a non-term value)" if not uncond_wrap else
                   "MIN(?x) / MAX(?x) over IRIs or blank nodes answer with Literal('<the IRI text>'): a term that is not in the group", node=st)

    # ------------------------------------------------------------------ (j)
    rep.rule("C08.j-numeric-accumulators-agree-on-non-numbers",
             "SUM and AVG (Sum.update, Average.update) treat a term that is not a number the same way: the conversion numeric(value) comes before any use of value.datatype "
             "(an IRI or blank node has no datatype attribute) and its SPARQLTypeError is handled in update(); otherwise one non-numeric member makes the whole query raise", floor=4)
    for cname in ("Sum", "Average"):
        f = ag.func(cname + ".update")
        handlers = {norm(h.type) for t in own_nodes(f) if isinstance(t, ast.Try) for h in t.handlers if h.type is not None}
        # the class itself or one of its bases (except SPARQLError: catches it too)
        catching = {b.rsplit(".", 1)[1] for b in repo.typed.mro("rdflib.plugins.sparql.sparql.SPARQLTypeError") if b.startswith("rdflib.")}
        ok = any(c in catching for h in handlers for c in h.replace("(", " ").replace(")", " ").replace(",", " ").split())
        rep.ob("C08.j-numeric-accumulators-agree-on-non-numbers", ag, cname + ".update", "handles SPARQLTypeError of numeric()", ok,
               "" if ok else "%s.update lets SPARQLTypeError escape: `SELECT (SUM(?v) AS ?s)` over a group with one string or IRI raises instead of answering (AVG on the same group answers)" % cname, node=f)
        num = [c for c in own_nodes(f) if isinstance(c, ast.Call) and norm(c.func) == "numeric"]
        dts = [a for a in own_nodes(f) if isinstance(a, ast.Attribute) and a.attr == "datatype" and isinstance(a.value, ast.Name) and a.value.id != "self"]
        if not num:
            raise AnalysisError("%s.update: numeric() call not found" % cname)
        first_num = min(c.lineno for c in num)
        early = [a for a in dts if a.lineno < first_num]
        rep.ob("C08.j-numeric-accumulators-agree-on-non-numbers", ag, cname + ".update", "numeric(value) precedes value.datatype", not early,
               "" if not early else "%s is read before numeric() has rejected non-literals: an IRI in the group raises AttributeError" % norm(early[0]), node=early[0] if early else num[0])


_run_base2 = run


def run(repo: Repo, rep: Report) -> None:  # noqa: F811
    _run_base2(repo, rep)
    alg = repo.mod("rdflib.plugins.sparql.algebra")
    rep.rule("C08.k-modifier-keyword-to-algebra-node",
             "algebra.translate maps SELECT DISTINCT to a `Distinct` node and SELECT REDUCED to a `Reduced` node on every path: under the test `q.modifier == \"DISTINCT\"` the only "
             "algebra node constructed is Distinct (evalReduced only drops a row equal to the one emitted just before it - rows are sorted on the ORDER BY keys BEFORE projection, so "
             "equal projected rows need not be adjacent)", floor=2)
    tr = [f for q, f in alg.functions() if q == "translate"]
    if not tr:
        raise AnalysisError("algebra.translate vanished")
    f = tr[0]
    n_arm = 0
    for n in own_nodes(f):
        if isinstance(n, ast.If):
            for kw, node in (("DISTINCT", "Distinct"), ("REDUCED", "Reduced")):
                if '"%s"' % kw in norm(n.test).replace("'", '"') and "modifier" in norm(n.test):
                    built = [c.args[0].value for s_ in n.body for c in ast.walk(s_) if isinstance(c, ast.Call) and norm(c.func) == "CompValue" and c.args and isinstance(c.args[0], ast.Constant)]
                    n_arm += 1
                    ok = built == [node]
                    rep.ob("C08.k-modifier-keyword-to-algebra-node", alg, "translate", "%s -> %s" % (norm(n.test)[:50], built), ok,
                           "" if ok else "under `%s` the translator builds %s: SELECT %s does not get the %s evaluator" % (norm(n.test)[:60], built, kw, node), node=n)
    if n_arm < 2:
        raise AnalysisError("translate: DISTINCT / REDUCED arms not found")
