"""C08 - solution modifiers and aggregates: exhaustiveness and sibling agreement (DESIGN.md §2 C08)."""
from __future__ import annotations

import ast

from vlib.cfg import CFG
from vlib.core import AnalysisError, Repo, Report, norm, own_nodes

EXPLANATION = (
    "(a) the aggregate names of the grammar and the keys of Aggregator.accumulator_classes are the same set and map to "
    "Accumulator subclasses; (b) DISTINCT sibling rule: every accumulator that does not opt out records the evaluated value "
    "in `seen` under `if self.distinct` on every path that updates its state, and the value recorded is the value use_row "
    "tests; (c) empty group: get_value/set_value of every accumulator reads only state initialised in __init__, and with no "
    "GROUP BY the implicit group's aggregator exists before (independently of) the first row; (d) LIMIT/OFFSET: islice bounds "
    "are start and start+length with `length is not None` tested by identity; (e) ORDER BY: keys are applied last-to-first with "
    "the stable sorted(), direction via its reverse= argument, never by reversing the list; (f) DISTINCT/REDUCED remember the "
    "solution itself; projection keeps exactly project.PV. Numeric promotion, mixed-term ordering and HAVING after aliasing "
    "are value-level and not decided."
)


def run(repo: Repo, rep: Report) -> None:
    rep.extra["explanation"] = EXPLANATION
    ev = repo.mod("rdflib.plugins.sparql.evaluate")
    ag = repo.mod("rdflib.plugins.sparql.aggregates")
    par = repo.mod("rdflib.plugins.sparql.parser")
    typed = repo.typed

    # ------------------------------------------------------------------ (a)
    rep.rule("C08.a-aggregate-table", "grammar aggregate names == keys of Aggregator.accumulator_classes, each mapped to an Accumulator subclass", floor=7)
    gram = set()
    for n in ast.walk(par.tree):
        if isinstance(n, ast.Call) and isinstance(n.func, ast.Name) and n.func.id == "Comp" and n.args and isinstance(n.args[0], ast.Constant) and str(n.args[0].value).startswith("Aggregate_"):
            gram.add(n.args[0].value)
    table = {}
    agg_cls = ag.cls("Aggregator")
    for st in agg_cls.body:
        if isinstance(st, ast.Assign) and norm(st.targets[0]) == "accumulator_classes" and isinstance(st.value, ast.Dict):
            for k, v in zip(st.value.keys, st.value.values):
                table[k.value] = norm(v)
    if len(gram) < 7 or len(table) < 7:
        raise AnalysisError("aggregate tables not found (grammar %s, table %s)" % (sorted(gram), sorted(table)))
    for nm in sorted(gram | set(table)):
        cls = table.get(nm)
        ok = nm in gram and cls is not None and ag.has(cls) and typed.is_subclass("rdflib.plugins.sparql.aggregates." + cls, "rdflib.plugins.sparql.aggregates.Accumulator")
        rep.ob("C08.a-aggregate-table", ag, "Aggregator", "%s -> %s" % (nm, cls), ok,
               "" if ok else "aggregate %s: in grammar=%s, accumulator class=%s" % (nm, nm in gram, cls), node=agg_cls)

    # ------------------------------------------------------------------ (b)(c)
    rep.rule("C08.b-distinct-bookkeeping",
             "each Accumulator subclass with its own update() either opts out of DISTINCT in __init__ (self.use_row = self.dont_care) "
             "or, on every path of update() that changes its accumulated state, reaches `if self.distinct: self.seen.add(<the evaluated value>)`", floor=5)
    rep.rule("C08.c-empty-group-values",
             "get_value()/set_value() of every accumulator read only attributes that __init__ (own or inherited) initialises, so the "
             "value for a group that received no row is defined; with no GROUP BY the implicit group's Aggregator is created outside the row loop", floor=6)
    accs = [c for c in typed.subclasses("rdflib.plugins.sparql.aggregates.Accumulator") if c.startswith("rdflib.plugins.sparql.aggregates.")]
    if len(accs) < 8:
        raise AnalysisError("expected >= 8 accumulator classes, found %s" % accs)

    def init_attrs(cfull: str) -> set[str]:
        out = set()
        for b in typed.mro(cfull):
            if not b.startswith("rdflib.plugins.sparql.aggregates."):
                continue
            cname = b.rsplit(".", 1)[1]
            m = ag.methods(cname).get("__init__")
            if m is None:
                continue
            for n in own_nodes(m):
                if isinstance(n, (ast.Assign, ast.AnnAssign)):
                    tg = n.targets if isinstance(n, ast.Assign) else [n.target]
                    for t in tg:
                        if isinstance(t, ast.Attribute) and isinstance(t.value, ast.Name) and t.value.id == "self":
                            out.add(t.attr)
            for st in ag.cls(cname).body:
                if isinstance(st, (ast.Assign, ast.AnnAssign)):
                    t = st.targets[0] if isinstance(st, ast.Assign) else st.target
                    if isinstance(t, ast.Name) and getattr(st, "value", None) is not None:
                        out.add(t.id)
        return out

    def opts_out(cfull: str) -> bool:
        for b in typed.mro(cfull):
            if not b.startswith("rdflib.plugins.sparql.aggregates.") or b.endswith(".Accumulator"):
                continue
            m = ag.methods(b.rsplit(".", 1)[1]).get("__init__")
            if m is None:
                continue
            for n in own_nodes(m):
                if isinstance(n, ast.Assign) and norm(n.targets[0]) == "self.use_row" and norm(n.value) == "self.dont_care":
                    # unconditional (top level of __init__)
                    if ag.parent.get(id(n)) is m:
                        return True
        return False

    def evaluates_expr(cfull: str, e: ast.expr, depth: int = 0) -> bool:
        """e is the value of the aggregate's expression on the row: `_eval(self.expr, row)` itself, or a call self.<m>(row) of a method
        (own or inherited) each of whose returns is such a value (possibly after raising for an error value)"""
        if norm(e) == "_eval(self.expr, row)":
            return True
        if depth > 3 or not (isinstance(e, ast.Call) and isinstance(e.func, ast.Attribute) and norm(e.func.value) == "self" and [norm(a) for a in e.args] == ["row"]):
            return False
        for b in typed.mro(cfull):
            if not b.startswith("rdflib.plugins.sparql.aggregates."):
                continue
            m = ag.methods(b.rsplit(".", 1)[1]).get(e.func.attr)
            if m is None:
                continue
            rets = [x for x in own_nodes(m) if isinstance(x, ast.Return)]
            if not rets:
                return False
            for x in rets:
                v = x.value
                if isinstance(v, ast.Name):
                    defs = [a.value for a in own_nodes(m) if isinstance(a, ast.Assign) and norm(a.targets[0]) == v.id]
                    if not defs or not all(evaluates_expr(b, d, depth + 1) for d in defs):
                        return False
                elif v is None or not evaluates_expr(b, v, depth + 1):
                    return False
            return True
        return False

    for cfull in sorted(accs):
        cname = cfull.rsplit(".", 1)[1]
        if cname == "Accumulator":
            continue
        meths = ag.methods(cname)
        rep.analysed("rdflib/plugins/sparql/aggregates.py:" + cname)
        if "update" in meths:
            upd = meths["update"]
            if opts_out(cfull):
                rep.ob("C08.b-distinct-bookkeeping", ag, cname + ".update", "opts out of DISTINCT", True,
                       "use_row = dont_care in __init__: DISTINCT does not change this aggregate's value", node=upd)
            else:
                g = CFG(upd)
                state_nodes = []
                for nd in g.nodes:
                    st = nd.ast
                    if nd.kind != "stmt" or st is None:
                        continue
                    tg = []
                    if isinstance(st, ast.Assign):
                        tg = st.targets
                    elif isinstance(st, ast.AugAssign):
                        tg = [st.target]
                    # (a boolean constant stored in an attribute is a flag - "this aggregate is an error" - not accumulated state)
                    is_flag = isinstance(getattr(st, "value", None), ast.Constant) and isinstance(st.value.value, bool)
                    if not is_flag and any(isinstance(t, ast.Attribute) and isinstance(t.value, ast.Name) and t.value.id == "self" and t.attr not in ("datatype", "seen") for t in tg):
                        state_nodes.append(nd.id)
                    if isinstance(st, ast.Expr) and isinstance(st.value, ast.Call) and isinstance(st.value.func, ast.Attribute) and st.value.func.attr in ("append", "extend") \
                            and norm(st.value.func.value).startswith("self.") and "seen" not in norm(st.value.func.value):
                        state_nodes.append(nd.id)
                marks = set()
                recorded = None
                for n in own_nodes(upd):
                    if isinstance(n, ast.If) and norm(n.test) == "self.distinct":
                        adds = [c for s in n.body for c in ast.walk(s) if isinstance(c, ast.Call) and norm(c.func) == "self.seen.add"]
                        if adds:
                            marks.add(g.by_ast[id(n)])
                            recorded = norm(adds[0].args[0])
                if not state_nodes:
                    raise AnalysisError("%s.update: no state update found" % cname)
                ok = bool(marks) and all(g.must_pass_after(s, marks, skip_exc=True) or g.must_pass_before(s, marks) for s in state_nodes)
                rep.ob("C08.b-distinct-bookkeeping", ag, cname + ".update", "state update => if self.distinct: self.seen.add(...)", ok,
                       "every updating path records the value" if ok else "a path updates the accumulator without recording the value in `seen` under `if self.distinct`: DISTINCT counts/sums duplicates", node=upd)
                if ok and recorded is not None:
                    src_ok = False
                    for n in own_nodes(upd):
                        if isinstance(n, ast.Assign) and norm(n.targets[0]) == recorded:
                            if evaluates_expr(cfull, n.value):
                                src_ok = True
                    rep.ob("C08.b-distinct-bookkeeping", ag, cname + ".update", "recorded value %s is the evaluated expression" % recorded, src_ok,
                           "" if src_ok else "the value put into `seen` (%s) is not the result of evaluating the aggregate's expression on the row, which is what use_row() tests" % recorded, node=upd)
        for mname in ("get_value", "set_value"):
            m = meths.get(mname)
            if m is None:
                continue
            have = init_attrs(cfull) | {"var", "expr", "distinct", "seen", "get_value", "compare"}
            used = {n.attr for n in ast.walk(m) if isinstance(n, ast.Attribute) and isinstance(n.value, ast.Name) and n.value.id == "self" and isinstance(n.ctx, ast.Load)}
            used -= {x for x in used if x in ag.methods(cname) or any(x in ag.methods(b.rsplit(".", 1)[1]) for b in typed.mro(cfull) if b.startswith("rdflib.plugins.sparql.aggregates."))}
            missing = used - have
            rep.ob("C08.c-empty-group-values", ag, "%s.%s" % (cname, mname), "reads %s" % sorted(used), not missing,
                   "all initialised in __init__" if not missing else "reads %s which only update() sets: undefined for a group without rows" % sorted(missing), node=m)
    # implicit group exists without rows
    f = ev.func("evalAggregateJoin")
    rep.analysed("rdflib/plugins/sparql/evaluate.py:evalAggregateJoin")
    row_loops = [n for n in own_nodes(f) if isinstance(n, ast.For) and isinstance(n.iter, ast.Name)]
    in_loops = {id(x) for l in row_loops for x in ast.walk(l)}
    resname = None
    for n in own_nodes(f):
        if isinstance(n, (ast.Assign, ast.AnnAssign)) and getattr(n, "value", None) is not None and "Aggregator" in norm(n.value):
            t = n.targets[0] if isinstance(n, ast.Assign) else n.target
            resname = norm(t)
    creates = [n for n in own_nodes(f) if id(n) not in in_loops and (
        (isinstance(n, ast.Subscript) and resname and norm(n.value) == resname) or
        (isinstance(n, ast.Call) and norm(n.func) == "Aggregator" and not isinstance(ev.parent.get(id(n)), ast.Lambda)))]
    guarded = [n for n in creates if any(isinstance(p, ast.If) and "is None" in norm(p.test) or isinstance(p, ast.If) and "not " in norm(p.test) for p in ev.parents(n))]
    rep.ob("C08.c-empty-group-values", ev, "evalAggregateJoin", "implicit group aggregator created outside the row loop", bool(creates),
           "the single implicit group exists even when the pattern has no solution (COUNT=0, SUM=0, ...)" if creates else
           "without GROUP BY the aggregator is only created when the first row arrives: an aggregate query over an empty pattern returns no row instead of COUNT=0 / SUM=0", node=f)

    # ------------------------------------------------------------------ (d)
    rep.rule("C08.d-slice-bounds", "evalSlice passes islice(res, start, start + length if length is not None else None)", floor=3)
    f = ev.func("evalSlice")
    calls = [c for c in ast.walk(f) if isinstance(c, ast.Call) and norm(c.func).endswith("islice")]
    if not calls:
        rep.ob("C08.d-slice-bounds", ev, "evalSlice", "islice(...)", False, "evalSlice no longer slices with islice (unmodelled)", node=f)
    else:
        c = calls[0]
        p = f.args.args[1].arg
        a = c.args

        def unclamp(e):
            """X of min(X, <a bound that does not depend on the slice>): islice() takes no int above sys.maxsize, clamping there changes no slice"""
            if isinstance(e, ast.Call) and norm(e.func) == "min" and len(e.args) == 2:
                dep = [x for x in e.args if p + "." in norm(x)]
                if len(dep) == 1:
                    return dep[0]
            return e

        def defs(e):
            """the expressions a bound can hold, each with the test it is assigned under (None: unconditionally)"""
            if not isinstance(e, ast.Name):
                return [(e, None)]
            out = []
            for st in own_nodes(f):
                if isinstance(st, ast.Assign) and norm(st.targets[0]) == e.id:
                    par_ = ev.parent.get(id(st))
                    out.append((st.value, par_.test if isinstance(par_, ast.If) and st in par_.body else None))
            return out

        def is_len_test(t):
            return isinstance(t, ast.Compare) and isinstance(t.ops[0], ast.IsNot) and norm(t.left) == p + ".length" and isinstance(t.comparators[0], ast.Constant) and t.comparators[0].value is None

        def is_sum(e):
            e = unclamp(e)
            return isinstance(e, ast.BinOp) and isinstance(e.op, ast.Add) and {norm(e.left), norm(e.right)} == {p + ".start", p + ".length"}

        lo = defs(a[1]) if len(a) == 3 else []
        ok1 = len(a) == 3 and len(lo) == 1 and lo[0][1] is None and norm(unclamp(lo[0][0])) == p + ".start"
        rep.ob("C08.d-slice-bounds", ev, "evalSlice", "lower bound %s" % (norm(a[1]) if len(a) > 1 else None), ok1, "" if ok1 else "lower bound is not %s.start" % p, node=c)
        ok2 = False
        ok3 = False
        if len(a) == 3 and isinstance(a[2], ast.IfExp):
            ie = a[2]
            ok2 = is_sum(ie.body) and isinstance(ie.orelse, ast.Constant) and ie.orelse.value is None
            ok3 = is_len_test(ie.test)
        elif len(a) == 3 and isinstance(a[2], ast.Name):
            # stop = None; if <p>.length is not None: stop = <p>.start + <p>.length
            hi = defs(a[2])
            nones = [d for d in hi if isinstance(d[0], ast.Constant) and d[0].value is None and d[1] is None]
            sums = [d for d in hi if is_sum(d[0])]
            ok2 = len(hi) == 2 and len(nones) == 1 and len(sums) == 1
            ok3 = ok2 and sums[0][1] is not None and is_len_test(sums[0][1])
        rep.ob("C08.d-slice-bounds", ev, "evalSlice", "upper bound start + length", ok2, "" if ok2 else "upper bound is not %s.start + %s.length (else None)" % (p, p), node=c)
        rep.ob("C08.d-slice-bounds", ev, "evalSlice", "`length is not None` by identity", ok3, "" if ok3 else "presence of LIMIT is not tested with `is not None` (LIMIT 0 is falsy)", node=c)

    # ------------------------------------------------------------------ (e)
    rep.rule("C08.e-orderby-stable-multikey",
             "evalOrderBy applies the sort keys from last to first (reversed(part.expr)) with the stable sorted(); descending order is "
             "requested through sorted(reverse=...) derived from the key's order; the row list is never reversed", floor=3)
    f = ev.func("evalOrderBy")
    lp = [n for n in own_nodes(f) if isinstance(n, ast.For)]
    ok = bool(lp) and norm(lp[0].iter).startswith("reversed(") and ".expr" in norm(lp[0].iter)
    rep.ob("C08.e-orderby-stable-multikey", ev, "evalOrderBy", "for e in reversed(part.expr)", ok,
           "least significant key first" if ok else "sort keys are not applied via reversed(<part>.expr): key priority is wrong or the algebra's list is mutated", node=lp[0] if lp else f)
    if lp:
        srt = [c for c in ast.walk(lp[0]) if isinstance(c, ast.Call) and isinstance(c.func, ast.Name) and c.func.id == "sorted"]
        ok = len(srt) == 1 and any(k.arg == "reverse" for k in srt[0].keywords) and any(k.arg == "key" for k in srt[0].keywords)
        rep.ob("C08.e-orderby-stable-multikey", ev, "evalOrderBy", "sorted(res, key=..., reverse=...)", ok,
               "stable sort with per-key direction" if ok else "the per-key sort is not a single sorted(..., key=, reverse=) call", node=lp[0])
        if ok:
            rv = [k.value for k in srt[0].keywords if k.arg == "reverse"][0]
            src = norm(rv)
            for n in ast.walk(lp[0]):
                if isinstance(n, ast.Assign) and norm(n.targets[0]) == src:
                    src = norm(n.value)
            okd = "DESC" in src and ".order" in src
            rep.ob("C08.e-orderby-stable-multikey", ev, "evalOrderBy", "reverse derives from e.order == 'DESC'", okd, "" if okd else "reverse=%s does not derive from the key's order" % src, node=lp[0])
        bad = [n for n in ast.walk(f) if (isinstance(n, ast.Call) and isinstance(n.func, ast.Attribute) and n.func.attr == "reverse") or
               (isinstance(n, ast.Subscript) and isinstance(n.slice, ast.Slice) and n.slice.step is not None) or
               (isinstance(n, ast.Call) and isinstance(n.func, ast.Name) and n.func.id == "reversed" and ".expr" not in norm(n))]
        rep.ob("C08.e-orderby-stable-multikey", ev, "evalOrderBy", "rows are never reversed", not bad,
               "" if not bad else "%s reverses a list: rows that tie on this key lose the order established by the lower-priority keys" % norm(bad[0])[:60], node=bad[0] if bad else f)

    # ------------------------------------------------------------------ (f)
    rep.rule("C08.f-distinct-project",
             "evalDistinct/evalReduced remember and test the solution itself; evalProject keeps exactly project.PV", floor=4)
    for q in ("evalDistinct", "evalReduced"):
        fn = ev.func(q)
        lp = [n for n in own_nodes(fn) if isinstance(n, ast.For)]
        if not lp:
            raise AnalysisError("%s: no loop" % q)
        var = norm(lp[0].target)
        for n in ast.walk(lp[0]):
            if isinstance(n, ast.Call) and isinstance(n.func, ast.Attribute) and n.func.attr in ("add", "appendleft", "append") and n.args:
                ok = norm(n.args[-1]) == var
                rep.ob("C08.f-distinct-project", ev, q, n, ok, "remembers the solution" if ok else "remembers %s, not the solution %s: different solutions with equal %s collapse" % (norm(n.args[-1]), var, norm(n.args[-1])), node=n)
            if isinstance(n, ast.Compare) and isinstance(n.ops[0], (ast.In, ast.NotIn)):
                ok = norm(n.left) == var
                rep.ob("C08.f-distinct-project", ev, q, n, ok, "tests the solution" if ok else "tests %s, not the solution" % norm(n.left), node=n)
    fn = ev.func("evalProject")
    ok = any(isinstance(c, ast.Call) and isinstance(c.func, ast.Attribute) and c.func.attr == "project" and c.args and norm(c.args[0]).endswith(".PV") for c in ast.walk(fn))
    rep.ob("C08.f-distinct-project", ev, "evalProject", "row.project(project.PV)", ok, "" if ok else "projection no longer keeps exactly the PV variables", node=fn)

    # ------------------------------------------------------------------ (g)
    rep.rule("C08.g-accumulated-value-by-identity",
             "in the accumulators, whether a running value / evaluated term is `not yet set` is decided with `is None`; the truthiness of an "
             "accumulated or evaluated term (Literal(0), Literal(''), Literal(false) are falsy) is never consulted", floor=2)
    from vlib import truthy as _tr
    for cfull in sorted(accs):
        cname = cfull.rsplit(".", 1)[1]
        for mname, f in ag.methods(cname).items():
            for n in own_nodes(f):
                if isinstance(n, ast.Compare) and isinstance(n.ops[0], (ast.Is, ast.IsNot)) and isinstance(n.comparators[0], ast.Constant) and n.comparators[0].value is None \
                        and isinstance(n.left, ast.Attribute) and isinstance(n.left.value, ast.Name) and n.left.value.id == "self":
                    rep.ob("C08.g-accumulated-value-by-identity", ag, "%s.%s" % (cname, mname), n, True, "by identity", node=n)
            evaluated = {norm(a.targets[0]) for a in own_nodes(f) if isinstance(a, ast.Assign) and isinstance(a.value, ast.Call) and norm(a.value.func) in ("_eval", "self.eval_row")}
            for e, owner, kind in _tr.bool_contexts(f):
                txt = norm(e)
                is_state = isinstance(e, ast.Attribute) and isinstance(e.value, ast.Name) and e.value.id == "self" and e.attr in ("value", "sum", "counter", "result")
                if (is_state and e.attr == "value") or txt in evaluated:
                    rep.ob("C08.g-accumulated-value-by-identity", ag, "%s.%s" % (cname, mname), "%s [in %s: %s]" % (txt, kind, norm(getattr(owner, "test", owner))[:60]), False,
                           "%s is a term (or None): a falsy literal is treated as `not set`, so e.g. a running MIN/MAX of 0 is overwritten without comparison" % txt, node=e)

    # ------------------------------------------------------------------ (h)
    rep.rule("C08.h-group-variables-sampled-in-having-and-orderby",
             "translateAggregates (SPARQL 18.2.4.1): in HAVING and in ORDER BY every unaggregated variable is replaced by Sample(V) per group whether or not the clause "
             "itself contains an aggregate call; the rewrite (`q.X = traverse(q.X, _sample ...)`) is therefore not guarded by `traverse(q.X, _hasAggregate, complete=False)`. "
             "After the AggregateJoin only aggregate results exist, so an unsampled group key that is not projected is unbound in HAVING (all groups dropped) and in "
             "ORDER BY (rows not ordered)", floor=2)
    alg = repo.mod("rdflib.plugins.sparql.algebra")
    ta = alg.func("translateAggregates")
    for clause in ("having", "orderby"):
        rew = [n for n in own_nodes(ta) if isinstance(n, ast.Assign) and norm(n.targets[0]).endswith("." + clause) and isinstance(n.value, ast.Call)
               and norm(n.value.func) == "traverse" and any("_sample" in norm(a) for a in n.value.args)]
        if not rew:
            rep.ob("C08.h-group-variables-sampled-in-having-and-orderby", alg, "translateAggregates", "q.%s is rewritten with _sample" % clause, False,
                   "no sampling rewrite of q.%s found: unaggregated variables of the clause are unbound after grouping" % clause, node=ta)
            continue
        for n in rew:
            bad = None
            child = n
            for p_ in alg.parents(n):
                if isinstance(p_, ast.If) and child in p_.body:
                    for t in ast.walk(p_.test):
                        if isinstance(t, ast.Call) and norm(t.func) == "traverse" and any("_hasAggregate" in norm(a) for a in t.args):
                            comp = [k.value for k in t.keywords if k.arg == "complete"]
                            always = bool(comp) and isinstance(comp[0], ast.Constant) and comp[0].value is True
                            if not always:
                                bad = t
                if p_ is ta:
                    break
                child = p_
            rep.ob("C08.h-group-variables-sampled-in-having-and-orderby", alg, "translateAggregates", "q.%s: %s" % (clause, norm(n)[:80]), bad is None,
                   "sampled unconditionally" if bad is None else
                   "the %s clause is sampled only if `%s` - i.e. only if it contains an aggregate call: `GROUP BY ?d %s` with ?d not projected refers to a variable that no longer exists after grouping" % (
                       clause.upper(), norm(bad), "HAVING (?d != <x>)" if clause == "having" else "ORDER BY ?d"), node=bad or n)


_run_base = run


def run(repo: Repo, rep: Report) -> None:  # noqa: F811
    _run_base(repo, rep)
    ag = repo.mod("rdflib.plugins.sparql.aggregates")
    # ------------------------------------------------------------------ (i)
    rep.rule("C08.i-extremum-is-a-member-of-the-group",
             "MIN / MAX return one of the group's terms unchanged: Extremum.set_value binds self.value itself (SPARQL orders IRIs, blank nodes and literals; the extremum of a group "
             "of IRIs is an IRI). Wrapping the running value in Literal(...) unconditionally turns an IRI or blank node into a plain string literal", floor=1)
    sv = ag.func("Extremum.set_value")
    for st in own_nodes(sv):
        if isinstance(st, ast.Assign) and isinstance(st.targets[0], ast.Subscript) and norm(st.targets[0].value) == "bindings":
            v = st.value
            uncond_wrap = isinstance(v, ast.Call) and norm(v.func) == "Literal" and v.args and norm(v.args[0]) == "self.value"
            rep.ob("C08.i-extremum-is-a-member-of-the-group", ag, "Extremum.set_value", st, not uncond_wrap,
                   "the term itself (a Literal is only made of a non-term value)" if not uncond_wrap else
                   "MIN(?x) / MAX(?x) over IRIs or blank nodes answer with Literal('<the IRI text>'): a term that is not in the group", node=st)

    # ------------------------------------------------------------------ (j)
    rep.rule("C08.j-numeric-accumulators-agree-on-non-numbers",
             "SUM and AVG (Sum.update, Average.update) treat a term that is not a number the same way: the conversion numeric(value) comes before any use of value.datatype "
             "(an IRI or blank node has no datatype attribute) and its SPARQLTypeError is handled in update(); otherwise one non-numeric member makes the whole query raise", floor=4)
    for cname in ("Sum", "Average"):
        f = ag.func(cname + ".update")
        handlers = {norm(h.type) for t in own_nodes(f) if isinstance(t, ast.Try) for h in t.handlers if h.type is not None}
        # the class itself or one of its bases (except SPARQLError: catches it too)
        catching = {b.rsplit(".", 1)[1] for b in repo.typed.mro("rdflib.plugins.sparql.sparql.SPARQLTypeError") if b.startswith("rdflib.")}
        ok = any(c in catching for h in handlers for c in h.replace("(", " ").replace(")", " ").replace(",", " ").split())
        rep.ob("C08.j-numeric-accumulators-agree-on-non-numbers", ag, cname + ".update", "handles SPARQLTypeError of numeric()", ok,
               "" if ok else "%s.update lets SPARQLTypeError escape: `SELECT (SUM(?v) AS ?s)` over a group with one string or IRI raises instead of answering (AVG on the same group answers)" % cname, node=f)
        num = [c for c in own_nodes(f) if isinstance(c, ast.Call) and norm(c.func) == "numeric"]
        dts = [a for a in own_nodes(f) if isinstance(a, ast.Attribute) and a.attr == "datatype" and isinstance(a.value, ast.Name) and a.value.id != "self"]
        if not num:
            raise AnalysisError("%s.update: numeric() call not found" % cname)
        first_num = min(c.lineno for c in num)
        early = [a for a in dts if a.lineno < first_num]
        rep.ob("C08.j-numeric-accumulators-agree-on-non-numbers", ag, cname + ".update", "numeric(value) precedes value.datatype", not early,
               "" if not early else "%s is read before numeric() has rejected non-literals: an IRI in the group raises AttributeError" % norm(early[0]), node=early[0] if early else num[0])


_run_base2 = run


def run(repo: Repo, rep: Report) -> None:  # noqa: F811
    _run_base2(repo, rep)
    alg = repo.mod("rdflib.plugins.sparql.algebra")
    rep.rule("C08.k-modifier-keyword-to-algebra-node",
             "algebra.translate maps SELECT DISTINCT to a `Distinct` node and SELECT REDUCED to a `Reduced` node on every path: under the test `q.modifier == \"DISTINCT\"` the only "
             "algebra node constructed is Distinct (evalReduced only drops a row equal to the one emitted just before it - rows are sorted on the ORDER BY keys BEFORE projection, so "
             "equal projected rows need not be adjacent)", floor=2)
    tr = [f for q, f in alg.functions() if q == "translate"]
    if not tr:
        raise AnalysisError("algebra.translate vanished")
    f = tr[0]
    n_arm = 0
    for n in own_nodes(f):
        if isinstance(n, ast.If):
            for kw, node in (("DISTINCT", "Distinct"), ("REDUCED", "Reduced")):
                if '"%s"' % kw in norm(n.test).replace("'", '"') and "modifier" in norm(n.test):
                    built = [c.args[0].value for s_ in n.body for c in ast.walk(s_) if isinstance(c, ast.Call) and norm(c.func) == "CompValue" and c.args and isinstance(c.args[0], ast.Constant)]
                    n_arm += 1
                    ok = built == [node]
                    rep.ob("C08.k-modifier-keyword-to-algebra-node", alg, "translate", "%s -> %s" % (norm(n.test)[:50], built), ok,
                           "" if ok else "under `%s` the translator builds %s: SELECT %s does not get the %s evaluator" % (norm(n.test)[:60], built, kw, node), node=n)
    if n_arm < 2:
        raise AnalysisError("translate: DISTINCT / REDUCED arms not found")


_run_base3 = run


def run(repo: Repo, rep: Report) -> None:  # noqa: F811
    """Rules l-r: one structural necessary condition per defect repaired in the audit round (F102-F109), each quantified over every site of its kind."""
    _run_base3(repo, rep)
    from vlib import h_c08 as H

    rep.extra["explanation"] = rep.extra.get("explanation", "") + (
        " (l) a grammar-optional parameter reaches a mandatory algebra-constructor parameter only under a None test; (m) no SPARQLError leaves use_row/update/set_value of any "
        "accumulator; (n) every result of _eval is tested for being an error before use; (o) sort-key functions return a key on every path; (p) the sort key's `number` block uses "
        "Literal.__gt__'s own predicate; (q) no accumulator binds None; (r) SUM/AVG record numeric()'s type error and set_value consults the mark."
    )

    typed = repo.typed
    ev = repo.mod("rdflib.plugins.sparql.evaluate")
    ag = repo.mod("rdflib.plugins.sparql.aggregates")
    eu = repo.mod("rdflib.plugins.sparql.evalutils")
    par = repo.mod("rdflib.plugins.sparql.parser")
    alg = repo.mod("rdflib.plugins.sparql.algebra")
    ERR = "rdflib.plugins.sparql.sparql.SPARQLError"
    esc = H.Escapes(repo, ERR)
    covers_all_errors = esc.bases["SPARQLError"]  # naming one of these in isinstance / except covers every SPARQL error

    # the classes Aggregator instantiates (values of Aggregator.accumulator_classes)
    concrete: list[str] = []
    for st in ag.cls("Aggregator").body:
        if isinstance(st, ast.Assign) and norm(st.targets[0]) == "accumulator_classes" and isinstance(st.value, ast.Dict):
            concrete = sorted({norm(v) for v in st.value.values})
    if len(concrete) < 7 or not all(ag.has(c) for c in concrete):
        raise AnalysisError("Aggregator.accumulator_classes: classes not found (%s)" % concrete)
    AG = "rdflib.plugins.sparql.aggregates."

    def resolved(cname: str, meth: str):
        for b in typed.mro(AG + cname):
            if b.startswith(AG):
                m = ag.methods(b[len(AG):]).get(meth)
                if m is not None:
                    return b[len(AG):], m
        return None, None

    # ------------------------------------------------------------------ (l)  F102
    rep.rule("C08.l-grammar-optional-into-mandatory-algebra-field",
             "algebra.py: where a parse node is known to be the grammar production K (`x.name == \"K\"`) and one of its parameters x.a is passed to an algebra constructor "
             "(Extend, Filter, Group, ...) for a parameter that has no default, then either a is mandatory in K's production in parser.py, or the call lies in a branch taken "
             "only when x.a is not None. `GROUP BY (?a + ?b)` has no `AS ?v` (Optional in [20] GroupCondition): passing c.var on makes Extend(var=None) and a None group key, "
             "and evaluation raises 'Cannot eval thing: None'", floor=3)
    gp = H.grammar_params(par)
    if "GroupAs" not in gp or "var" not in gp["GroupAs"][1] or "expr" in gp["GroupAs"][1]:
        raise AnalysisError("parser.py: production GroupAs ( Expression (AS Var)? ) not recognised: %s" % (gp.get("GroupAs"),))
    ctors: dict[str, list[tuple[str, bool]]] = {}
    for q, f in alg.functions():
        if "." not in q and any(isinstance(r, ast.Return) and isinstance(r.value, ast.Call) and norm(r.value.func) == "CompValue" for r in own_nodes(f)):
            nd = len(f.args.args) - len(f.args.defaults)
            ctors[q] = [(p.arg, i >= nd) for i, p in enumerate(f.args.args)]
    if "Extend" not in ctors or "Group" not in ctors:
        raise AnalysisError("algebra.py: algebra constructors not found (%s)" % sorted(ctors))

    def production_of(node: ast.AST, base: str, stop: ast.AST):
        child = node
        for p_ in alg.parents(node):
            if isinstance(p_, ast.If) and child in p_.body:
                for t in ast.walk(p_.test):
                    if isinstance(t, ast.Compare) and len(t.ops) == 1 and isinstance(t.ops[0], ast.Eq) and norm(t.left) == base + ".name" \
                            and isinstance(t.comparators[0], ast.Constant) and isinstance(t.comparators[0].value, str):
                        return t.comparators[0].value
            if p_ is stop:
                return None
            child = p_
        return None

    for q, f in alg.functions():
        for c in own_nodes(f):
            if not (isinstance(c, ast.Call) and isinstance(c.func, ast.Name) and c.func.id in ctors):
                continue
            sig = ctors[c.func.id]
            passed = [(sig[i], a) for i, a in enumerate(c.args) if i < len(sig)] + [((k.arg, dict(sig).get(k.arg, True)), k.value) for k in c.keywords if k.arg]
            for (pname, has_default), a in passed:
                if has_default or not (isinstance(a, ast.Attribute) and isinstance(a.value, ast.Name)):
                    continue
                K = production_of(c, a.value.id, f)
                if K is None or K not in gp or a.attr not in gp[K][0]:
                    continue
                optional = a.attr in gp[K][1]
                ok = not optional or H.non_none_guarded(alg, c, norm(a), f)
                rep.ob("C08.l-grammar-optional-into-mandatory-algebra-field", alg, q, "%s.%s -> %s(%s=)" % (K, a.attr, c.func.id, pname), ok,
                       ("mandatory in the production" if not optional else "only where it is not None") if ok else
                       "%s is optional in the production %s (it is None when not written) but is passed unguarded as the mandatory `%s` of %s(...): the algebra node gets None where a term is required"
                       % (a.attr, K, pname, c.func.id), node=c)

    # ------------------------------------------------------------------ (m)  F103
    rep.rule("C08.m-no-solution-error-escapes-row-protocol",
             "Aggregator.update calls acc.use_row(row) and acc.update(row, self) for every solution, Aggregator.get_bindings calls acc.set_value(bindings) for every group, all without a "
             "try: no SPARQLError (NotBoundError of _eval for an unbound variable, the error an expression evaluated to, SPARQLTypeError of numeric()) may leave one of these methods of "
             "any accumulator class (resolved per class, including the instance-level re-bindings `self.use_row = self.dont_care` made in __init__) - a solution without a value is skipped, it "
             "does not abort the query. `SELECT (SUM(DISTINCT ?v) AS ?s) { ?x :p ?y OPTIONAL { ?x :q ?v } }` with one ?x lacking :q", floor=21)
    accs = sorted(c for c in typed.subclasses(AG + "Accumulator") if c.startswith(AG) and c != AG + "Accumulator")
    for cfull in accs:
        cname = cfull[len(AG):]
        for entry in ("use_row", "update", "set_value"):
            ms = esc.self_methods(ag, cfull, entry)
            if not ms:
                if cname in concrete:
                    raise AnalysisError("%s has no %s()" % (cname, entry))
                continue
            out: set[str] = set()
            for m in ms:
                out |= esc.of_function(ag, m, cfull)
            rep.ob("C08.m-no-solution-error-escapes-row-protocol", ag, "%s.%s" % (cname, entry), "SPARQL errors leaving %s() of a %s" % (entry, cname), not out,
                   "none" if not out else "%s can leave %s.%s (defined in %s) and nothing between there and the query's caller handles it: one solution without a value for the "
                   "aggregated expression makes the whole query raise instead of being skipped" % (sorted(out), cname, entry, sorted({ag.qual_of(m) for m in ms})), node=ms[0])

    # ------------------------------------------------------------------ (n)  F106 F107 (and F109)
    rep.rule("C08.n-eval-result-tested-for-error",
             "evalutils._eval RETURNS the SPARQLError an expression evaluated to (it raises only NotBoundError): at every call site the first thing done with the result is "
             "isinstance(result, SPARQLError) - before it is counted, compared, stored, used as a group key or bound. (A result that is only the operand of a comparison yields no value.) "
             "Otherwise COUNT(1/?z) counts the error objects, MIN/MAX compare them (TypeError), and GROUP BY STRLEN(?iri) makes one group per failing solution since every error object is a key of its own", floor=4)
    if not any(isinstance(n, ast.FunctionDef) and n.name == "_eval" and n.returns is not None and "SPARQLError" in norm(n.returns) for n in ast.walk(eu.tree)):
        raise AnalysisError("evalutils._eval no longer declares that it returns SPARQLError values: rule C08.n must be revisited")
    for mname, m in sorted(repo.modules.items()):
        if not mname.startswith("rdflib.plugins.sparql") or m is eu:
            continue
        r = H.resolve_function(repo, m, "_eval")
        if r is None or r[0] is not eu:
            continue
        for c in ast.walk(m.tree):
            if not (isinstance(c, ast.Call) and isinstance(c.func, ast.Name) and c.func.id == "_eval"):
                continue
            fn = next((p_ for p_ in m.parents(c) if isinstance(p_, (ast.FunctionDef, ast.AsyncFunctionDef))), None)
            if fn is None:
                continue
            where = m.qual_of(c)
            par_ = m.parent.get(id(c))

            def tested_first(scope: ast.AST, name: str, after: ast.AST) -> bool:
                ld = H.first_load_after(scope, name, after)
                if ld is None:
                    return False
                call = m.parent.get(id(ld))
                return isinstance(call, ast.Call) and norm(call.func) == "isinstance" and len(call.args) == 2 and call.args[0] is ld \
                    and bool(H.type_names(call.args[1]) & covers_all_errors)

            if isinstance(par_, ast.Compare):
                ok, why = True, "only compared (no value flows on)"
            elif isinstance(par_, (ast.Assign, ast.AnnAssign)) and par_.value is c and isinstance(par_.targets[0] if isinstance(par_, ast.Assign) else par_.target, ast.Name):
                tname = (par_.targets[0] if isinstance(par_, ast.Assign) else par_.target).id
                ok = tested_first(fn, tname, par_)
                why = "tested before any use" if ok else "the result is used without first being tested with isinstance(..., SPARQLError): an error object is handled as if it were a term"
            elif isinstance(par_, (ast.GeneratorExp, ast.ListComp)) and par_.elt is c and isinstance(m.parent.get(id(par_)), ast.comprehension) \
                    and m.parent[id(par_)].iter is par_ and isinstance(m.parent[id(par_)].target, ast.Name):
                comp = m.parent[id(par_)]
                owner = m.parent[id(comp)]
                lds = sorted((n for n in ast.walk(owner) if isinstance(n, ast.Name) and n.id == comp.target.id and isinstance(n.ctx, ast.Load)), key=lambda n: (n.lineno, n.col_offset))
                call = m.parent.get(id(lds[0])) if lds else None
                ok = isinstance(call, ast.Call) and norm(call.func) == "isinstance" and call.args[0] is lds[0] and bool(H.type_names(call.args[1]) & covers_all_errors)
                why = "each result tested before use" if ok else "the results are collected without being tested with isinstance(..., SPARQLError)"
            else:
                ok, why = False, "the result of _eval is used directly as a value (in `%s`): an error object is handled as if it were a term - every error object is distinct, so as a " \
                                 "group key it makes one group per failing solution; counted, sampled or concatenated it is taken for a value" % norm(par_)[:80]
            rep.ob("C08.n-eval-result-tested-for-error", m, where, c, ok, why, node=c)

    # ------------------------------------------------------------------ (o)  F105
    rep.rule("C08.o-sort-key-is-total",
             "every function used as key= of sorted()/min()/max() in evaluate.py and aggregates.py (ORDER BY, MIN, MAX) returns a key on every path, whatever it is given: an ORDER BY "
             "expression that is an error for some solution hands the error object to the key function; falling off the end returns None and sorted() raises TypeError comparing None with a tuple "
             "(`ORDER BY (1/?z)` with one ?z = 0)", floor=3)
    for m in (ev, ag):
        for c in ast.walk(m.tree):
            if not (isinstance(c, ast.Call) and isinstance(c.func, ast.Name) and c.func.id in ("sorted", "min", "max")):
                continue
            for k in c.keywords:
                if k.arg != "key":
                    continue
                kf = k.value
                if isinstance(kf, ast.Lambda) and isinstance(kf.body, ast.Call) and isinstance(kf.body.func, ast.Name):
                    kf = kf.body.func
                r = H.resolve_function(repo, m, kf.id) if isinstance(kf, ast.Name) else None
                if r is None:
                    # an expression (lambda not delegating to a function of the library) or a builtin: yields a value by construction
                    rep.ob("C08.o-sort-key-is-total", m, m.qual_of(c), "%s(key=<expression>)" % c.func.id, True, "the key is an expression, not a function with paths", node=c, vacuous=True)
                    continue
                total = H.always_returns_value(r[1].body)
                rep.ob("C08.o-sort-key-is-total", m, m.qual_of(c), "%s(key=%s)" % (c.func.id, r[1].name), total,
                       "returns a key on every path" if total else "%s.%s has a path that falls off the end (returns None) - taken for an argument that matches none of its tests, e.g. the "
                       "error object an ORDER BY expression evaluated to: None and a tuple are not comparable, sorted() raises TypeError" % (r[0].rel, r[1].name), node=c)

    # ------------------------------------------------------------------ (p)  F108
    rep.rule("C08.p-sort-key-number-block-agrees-with-literal-order",
             "Literal.__gt__ compares two literals by value when both satisfy its `is a number` predicate (datatype in _NUMERIC_LITERAL_TYPES, well typed, has a value) and otherwise by "
             "datatype / lexical form; that is only an order if numbers form one block. The ORDER BY / MIN / MAX key function therefore puts, before the literal itself, a component computed "
             "with exactly that predicate. Without it `ORDER BY ?v` over \"0abc\"^^xsd:integer, 5, 9.0e0 is cyclic (\"0abc\" < 5 by text, 5 < 9.0e0 by value, 9.0e0 < \"0abc\" numbers first) "
             "and the result depends on the input order", floor=1)
    term = repo.mod("rdflib.term")
    gt = term.func("Literal.__gt__")
    selfname = gt.args.args[0].arg

    def conjuncts(e: ast.AST, subject: str) -> frozenset[str]:
        out = set()
        for v in e.values:  # type: ignore[attr-defined]
            t = ast.parse(norm(v), mode="eval").body
            for n in ast.walk(t):
                if isinstance(n, ast.Name) and n.id == subject:
                    n.id = "SUBJECT"
            out.add(norm(t))
        return frozenset(out)

    def is_membership(e: ast.AST) -> bool:
        """one conjunct is `<x>.datatype in <module-level table>`"""
        return any(isinstance(x, ast.Compare) and len(x.ops) == 1 and isinstance(x.ops[0], ast.In) and isinstance(x.comparators[0], ast.Name)
                   and isinstance(x.left, ast.Attribute) and x.left.attr == "datatype" for x in ast.walk(e))

    lit_pred = {conjuncts(b, selfname) for b in own_nodes(gt) if isinstance(b, ast.BoolOp) and isinstance(b.op, ast.And) and is_membership(b)
                and all(selfname in {n.id for n in ast.walk(v) if isinstance(n, ast.Name)} for v in b.values)}
    if len(lit_pred) != 1:
        raise AnalysisError("Literal.__gt__: the predicate selecting comparison by value (datatype in <numeric types> and ...) not found uniquely: %s" % sorted(map(sorted, lit_pred)))
    want = next(iter(lit_pred))
    keyfns = {}
    for m in (ev, ag):
        for c in ast.walk(m.tree):
            if isinstance(c, ast.Call) and isinstance(c.func, ast.Name) and c.func.id in ("sorted", "min", "max"):
                for k in c.keywords:
                    kf = k.value
                    if k.arg == "key":
                        if isinstance(kf, ast.Lambda) and isinstance(kf.body, ast.Call) and isinstance(kf.body.func, ast.Name):
                            kf = kf.body.func
                        r = H.resolve_function(repo, m, kf.id) if isinstance(kf, ast.Name) else None
                        if r is not None:
                            keyfns[id(r[1])] = r
    if not keyfns:
        raise AnalysisError("no sort key function found")
    for km, kfn in keyfns.values():
        p0 = kfn.args.args[0].arg
        params = {a.arg for a in kfn.args.args}
        found = False
        for br in own_nodes(kfn):
            if not (isinstance(br, ast.If) and isinstance(br.test, ast.Call) and norm(br.test.func) == "isinstance" and norm(br.test.args[0]) == p0 and "Literal" in H.type_names(br.test.args[1])):
                continue
            for rt in [x for s_ in br.body for x in ast.walk(s_) if isinstance(x, ast.Return)]:
                found = True
                elts = rt.value.elts if isinstance(rt.value, ast.Tuple) else [rt.value]
                idx = next((i for i, e in enumerate(elts) if isinstance(e, ast.Name) and e.id == p0), len(elts))
                got = set()
                for e in elts[:idx]:
                    for x in H.expand_locals(kfn, e, params):
                        for b in ast.walk(x):
                            if isinstance(b, ast.BoolOp) and isinstance(b.op, ast.And):
                                got.add(conjuncts(b, p0))
                ok = want in got
                rep.ob("C08.p-sort-key-number-block-agrees-with-literal-order", km, kfn.name, "key of a Literal: %s" % norm(rt.value), ok,
                       "numbers first, by Literal.__gt__'s own predicate" if ok else
                       "the key of a literal has no component before the literal itself that is computed with Literal.__gt__'s predicate %s%s: numbers (ordered by value across datatypes) are interleaved "
                       "with the literals ordered by datatype and text, the comparison is cyclic" % (sorted(want), " (found %s)" % sorted(map(sorted, got)) if got else ""), node=rt)
        if not found:
            raise AnalysisError("%s: branch for Literal not found" % kfn.name)

    # ------------------------------------------------------------------ (q)  F104
    rep.rule("C08.q-no-aggregate-binds-None",
             "for every class in Aggregator.accumulator_classes the set_value() it resolves to stores into the group's bindings only a term: a stored `self.get_value()` whose resolved "
             "get_value() can return None (declared `-> None` / `| None`, returns None, or falls through) must be guarded by a None test. SAMPLE over no value (`SELECT ?g (SAMPLE(?u) AS ?s) "
             "... GROUP BY ?g` with ?u never bound; also every unbound GROUP BY key, which is sampled) otherwise binds Python None: joins, DISTINCT and the serializers break", floor=7)
    for cname in concrete:
        owner, sv = resolved(cname, "set_value")
        if sv is None:
            raise AnalysisError("%s: set_value() not resolved" % cname)
        if len(sv.args.args) < 2:
            raise AnalysisError("%s.set_value: signature not recognised" % owner)
        bparam = sv.args.args[1].arg
        stores = [s_ for s_ in own_nodes(sv) if isinstance(s_, ast.Assign) and any(isinstance(t, ast.Subscript) and norm(t.value) == bparam for t in s_.targets)]
        bad = None
        for s_ in stores:
            v = s_.value
            if isinstance(v, ast.Constant) and v.value is None:
                bad = (s_, "None")
            if isinstance(v, ast.Call) and isinstance(v.func, ast.Attribute) and norm(v.func.value) == sv.args.args[0].arg and not v.args:
                gowner, gv = resolved(cname, v.func.attr)
                if gv is None:
                    raise AnalysisError("%s: %s() not resolved" % (cname, v.func.attr))
                nullable = (gv.returns is not None and ("None" in norm(gv.returns) or "Optional" in norm(gv.returns))) or not H.always_returns_value(gv.body) \
                    or any(isinstance(x, ast.Return) and isinstance(x.value, ast.Constant) and x.value.value is None for x in own_nodes(gv))
                if nullable and not H.non_none_guarded(ag, s_, norm(v), sv):
                    bad = (s_, "%s.%s() which can return None" % (gowner, v.func.attr))
        rep.ob("C08.q-no-aggregate-binds-None", ag, "%s.set_value" % cname, "%s: %s" % (ag.qual_of(sv) or owner, "; ".join(norm(s_) for s_ in stores) or "binds nothing"), bad is None,
               "binds a term (or nothing)" if bad is None else "%s (used for %s) stores %s into the bindings: the variable is bound to Python None instead of staying unbound" % (
                   "%s.set_value" % owner, cname, bad[1]), node=bad[0] if bad else sv)

    # ------------------------------------------------------------------ (r)  F109
    rep.rule("C08.r-numeric-aggregate-records-type-error",
             "an accumulator whose update() converts the value with operators.numeric() (SUM, AVG: numeric-add is an error for a term that is not a number) does not swallow numeric()'s "
             "SPARQLTypeError: the handler that catches it stores a mark on self, the set_value() the class resolves to binds the variable only under a test of that mark, and the handler "
             "for NotBoundError (unbound: skipped) sets no mark. `SELECT (SUM(?v) AS ?s)` over 1, 2, \"x\" leaves ?s unbound (W3C agg-err-01) instead of answering 3", floor=6)
    opm = repo.mod("rdflib.plugins.sparql.operators")
    n_num = 0
    for cname in concrete:
        owner, upd = resolved(cname, "update")
        if upd is None:
            raise AnalysisError("%s: update() not resolved" % cname)
        calls = []
        for c in own_nodes(upd):
            if isinstance(c, ast.Call) and isinstance(c.func, ast.Name):
                r = H.resolve_function(repo, ag, c.func.id)
                if r is not None and r[0] is opm and r[1].name == "numeric":
                    calls.append((c, r))
        if not calls:
            continue
        n_num += 1
        kinds = esc.of_function(calls[0][1][0], calls[0][1][1])
        if not kinds:
            raise AnalysisError("operators.numeric raises no SPARQL error any more: rule C08.r must be revisited")
        selfn = upd.args.args[0].arg

        def marks(h: ast.ExceptHandler) -> set[str]:
            out = set()
            for s_ in h.body:
                for x in ast.walk(s_):
                    tg = x.targets if isinstance(x, ast.Assign) else [x.target] if isinstance(x, (ast.AugAssign, ast.AnnAssign)) else []
                    out |= {t.attr for t in tg if isinstance(t, ast.Attribute) and norm(t.value) == selfn}
            return out

        flags: set[str] = set()
        for c, _r in calls:
            tries = [p_ for p_ in ag.parents(c) if isinstance(p_, ast.Try) and any(c in ast.walk(s_) for s_ in p_.body)]
            for kind in sorted(kinds):
                h = next((h for t in tries for h in t.handlers if esc.catches(h, kind)), None)
                mk = marks(h) if h is not None else set()
                flags |= mk
                ok = bool(mk)
                rep.ob("C08.r-numeric-aggregate-records-type-error", ag, "%s.update" % cname, "handler of %s from numeric()" % kind, ok,
                       "recorded in self.%s" % sorted(mk) if ok else "the %s numeric() raises for a term that is not a number is %s: the aggregate silently sums the remaining numbers instead of being an error" % (
                           kind, "not handled here" if h is None else "caught by `except %s` which records nothing on self" % norm(h.type)), node=h or c)
            hb = next((h for t in tries for h in t.handlers if esc.catches(h, "NotBoundError")), None)
            ok = hb is not None and not marks(hb)
            rep.ob("C08.r-numeric-aggregate-records-type-error", ag, "%s.update" % cname, "handler of NotBoundError", ok,
                   "skips the solution" if ok else "an unbound variable is not skipped (handler %s): a solution without a value makes the aggregate an error" % (norm(hb.type) if hb is not None and hb.type is not None else hb), node=hb or c)
        if not flags:
            rep.ob("C08.r-numeric-aggregate-records-type-error", ag, "%s.set_value" % cname, "set_value consults the error mark", False,
                   "%s.update records no error mark on self, so set_value cannot leave the variable unbound for an aggregate that is an error" % cname, node=upd)
        else:
            sowner, sv = resolved(cname, "set_value")
            if sv is None:
                raise AnalysisError("%s: set_value() not resolved" % cname)
            bparam = sv.args.args[1].arg
            stores = [s_ for s_ in own_nodes(sv) if isinstance(s_, ast.Assign) and any(isinstance(t, ast.Subscript) and norm(t.value) == bparam for t in s_.targets)]
            unguarded = [s_ for s_ in stores if not any(isinstance(p_, ast.If) and any(isinstance(a, ast.Attribute) and a.attr in flags and norm(a.value) == sv.args.args[0].arg for a in ast.walk(p_.test))
                                                         for p_ in ag.parents(s_))]
            ok = bool(stores) and not unguarded
            rep.ob("C08.r-numeric-aggregate-records-type-error", ag, "%s.set_value" % cname, "%s.set_value binds under a test of self.%s" % (sowner, sorted(flags)), ok,
                   "an aggregate that is an error leaves the variable unbound" if ok else "%s.set_value binds the variable without consulting self.%s: the error mark set by update() has no effect" % (sowner, sorted(flags)),
                   node=unguarded[0] if unguarded else sv)
    if n_num < 2:
        raise AnalysisError("expected SUM and AVG to convert with operators.numeric(); found %d such accumulator(s)" % n_num)
