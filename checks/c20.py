"""C20 - SPARQLStore / SPARQLUpdateStore: queue and flush discipline (DESIGN.md §2 C20)."""
from __future__ import annotations

import ast

from vlib import truthy
from vlib.cfg import CFG
from vlib.core import AnalysisError, Repo, Report, norm, own_nodes

EXPLANATION = (
    "Rules over rdflib/plugins/stores/sparqlstore.py and sparqlconnector.py: (a) every read of SPARQLUpdateStore "
    "that reaches the connector's query is an override that flushes pending edits first unless dirty reads are "
    "allowed; (b) every write enqueues unconditionally through _transaction() and commits under autocommit, "
    "_update is called only from commit, commit sends the queue in list order and clears it, rollback only clears; "
    "(c) pattern wildcards are tested by identity (a falsy literal is a bound term); (d) per-request argument "
    "dicts are deep copies of the connector's shared kwargs before nested entries are mutated. Whether the "
    "generated SPARQL text means the intended pattern at a real endpoint is not decided (needs an evaluator)."
)


def _self_calls(fn: ast.AST) -> list[ast.Call]:
    return [n for n in own_nodes(fn, include_nested=True) if isinstance(n, ast.Call) and isinstance(n.func, ast.Attribute)
            and isinstance(n.func.value, ast.Name) and n.func.value.id == "self"]


def _conjuncts(test: ast.expr) -> set[str] | None:
    """conjuncts of a flush condition, normalised: {'not self.autocommit', 'not self.dirty_reads'}"""
    if isinstance(test, ast.BoolOp) and isinstance(test.op, ast.And):
        out = set()
        for v in test.values:
            c = _conjuncts(v)
            if c is None:
                return None
            out |= c
        return out
    if isinstance(test, ast.UnaryOp) and isinstance(test.op, ast.Not):
        inner = test.operand
        if isinstance(inner, ast.BoolOp) and isinstance(inner.op, ast.Or):
            out = set()
            for v in inner.values:
                out.add("not " + norm(v))
            return out
        return {"not " + norm(inner)}
    return None


def run(repo: Repo, rep: Report) -> None:
    rep.extra["explanation"] = EXPLANATION
    mod = repo.mod("rdflib.plugins.stores.sparqlstore")
    con = repo.mod("rdflib.plugins.stores.sparqlconnector")
    base = mod.methods("SPARQLStore")
    upd = mod.methods("SPARQLUpdateStore")
    for m in base:
        rep.analysed("rdflib/plugins/stores/sparqlstore.py:SPARQLStore." + m)
    for m in upd:
        rep.analysed("rdflib/plugins/stores/sparqlstore.py:SPARQLUpdateStore." + m)

    # ------------------------------------------------------------------ (a)
    rep.rule("C20.a-flush-before-read",
             "every SPARQLStore method that sends a query to the endpoint (calls self._query) is overridden in "
             "SPARQLUpdateStore by a method whose delegation to the base implementation is dominated by "
             "`if not self.autocommit and not self.dirty_reads: self.commit()` (or a stronger flush)", floor=4)
    direct = {m for m, f in base.items() if any(c.func.attr == "_query" for c in _self_calls(f)) and m != "_query"}
    if len(direct) < 4:
        raise AnalysisError("expected >= 4 SPARQLStore methods calling self._query, found %s" % sorted(direct))
    for m in sorted(direct):
        f = upd.get(m)
        if f is None:
            rep.ob("C20.a-flush-before-read", mod, "SPARQLUpdateStore." + m, "override of SPARQLStore.%s" % m, False,
                   "SPARQLStore.%s queries the endpoint but SPARQLUpdateStore does not override it: queued edits are not visible to this read" % m,
                   node=base[m])
            continue
        g = CFG(f)
        deleg = [n for n in own_nodes(f) if isinstance(n, ast.Call) and (
            norm(n.func) == "SPARQLStore." + m or norm(n.func) == "super().%s" % m or norm(n.func) == "super(SPARQLUpdateStore, self).%s" % m)]
        if not deleg:
            # the override may implement the read itself through self._query
            deleg = [c for c in _self_calls(f) if c.func.attr == "_query"]
        if not deleg:
            rep.ob("C20.a-flush-before-read", mod, "SPARQLUpdateStore." + m, "delegation to SPARQLStore.%s" % m, False,
                   "override neither delegates to the base read nor queries", node=f)
            continue
        flush_nodes = set()
        for n in own_nodes(f):
            if isinstance(n, ast.If):
                cj = _conjuncts(n.test)
                commits = any(isinstance(c, ast.Call) and norm(c.func) == "self.commit" for s in n.body for c in ast.walk(s))
                if cj is not None and commits and cj <= {"not self.autocommit", "not self.dirty_reads"}:
                    flush_nodes.add(g.by_ast[id(n)])
            if isinstance(n, ast.Expr) and isinstance(n.value, ast.Call) and norm(n.value.func) == "self.commit":
                par = mod.parent.get(id(n))
                if par is f:
                    flush_nodes.add(g.by_ast[id(n)])
        for d in deleg:
            ok = bool(flush_nodes) and g.must_pass_before(g.node_of(d, mod), flush_nodes)
            rep.ob("C20.a-flush-before-read", mod, "SPARQLUpdateStore." + m, d, ok,
                   "read is dominated by the flush guard" if ok else
                   "the read reaches the endpoint on a path that does not pass `if not self.autocommit and not self.dirty_reads: self.commit()`", node=d)
    # derived reads must go through self.<direct read> (dynamic dispatch to the flushing override)
    for m, f in list(base.items()) + list(upd.items()):
        if m in direct or m.startswith("_") or m in ("query",):
            continue
        for c in [n for n in own_nodes(f, include_nested=True) if isinstance(n, ast.Call)]:
            if norm(c.func).startswith("SPARQLStore.") and norm(c.func).split(".", 1)[1] in direct and m not in direct:
                rep.ob("C20.a-flush-before-read", mod, m, c, False,
                       "calls the base read directly, bypassing the flushing override", node=c)

    # ------------------------------------------------------------------ (b)
    rep.rule("C20.b-enqueue-discipline",
             "every write method of SPARQLUpdateStore appends/extends the queue obtained from self._transaction() on "
             "every normal path (never conditionally on the queue's content) and then commits under "
             "`if self.autocommit:`; self._update is called only from commit; commit sends the queue joined in list "
             "order and clears it afterwards; rollback only clears the queue", floor=10)
    writers = [m for m, f in upd.items() if any(norm(c.func) == "self._transaction" for c in ast.walk(f) if isinstance(c, ast.Call)) and m != "_transaction"]
    if len(writers) < 4:
        raise AnalysisError("expected >= 4 writer methods using self._transaction(), found %s" % writers)
    for m in writers:
        f = upd[m]
        g = CFG(f)
        enq = []
        qalias = {nm.id for n in own_nodes(f) if isinstance(n, ast.Assign) and isinstance(n.value, ast.Call)
                  and norm(n.value.func) == "self._transaction" for nm in n.targets if isinstance(nm, ast.Name)}
        for n in own_nodes(f):
            if isinstance(n, ast.Call) and isinstance(n.func, ast.Attribute) and n.func.attr in ("append", "extend") and (
                    (isinstance(n.func.value, ast.Call) and norm(n.func.value.func) == "self._transaction")
                    or (isinstance(n.func.value, ast.Name) and n.func.value.id in qalias)):
                enq.append(n)
            if isinstance(n, ast.AugAssign) and isinstance(n.op, ast.Add) and isinstance(n.target, ast.Name) and n.target.id in qalias:
                enq.append(n)
        if not enq:
            rep.ob("C20.b-enqueue-discipline", mod, "SPARQLUpdateStore." + m, "self._transaction().append(...)", False,
                   "writer does not enqueue through append/extend", node=f)
            continue
        enodes = {g.node_of(e, mod) for e in enq}
        allpaths = g.exit not in g.reach(g.entry, avoid=enodes)
        rep.ob("C20.b-enqueue-discipline", mod, "SPARQLUpdateStore." + m, enq[0], allpaths,
               "every normal path through %s enqueues its edit" % m if allpaths else
               "a normal path through %s returns without enqueuing (the edit is dropped, e.g. de-duplicated against the queue): writes no longer reach the endpoint in order" % m,
               node=enq[0])
        commits = set()
        for n in own_nodes(f):
            if isinstance(n, ast.If) and norm(n.test) == "self.autocommit" and any(
                    isinstance(c, ast.Call) and norm(c.func) == "self.commit" for s in n.body for c in ast.walk(s)):
                commits.add(g.by_ast[id(n)])
        ok = bool(commits) and all(g.must_pass_after(e, commits) for e in enodes)
        rep.ob("C20.b-enqueue-discipline", mod, "SPARQLUpdateStore." + m, "if self.autocommit: self.commit() after the enqueue", ok,
               "autocommit flush follows the enqueue on every path" if ok else "with autocommit on, %s can return without committing its edit" % m, node=f)
    # add_graph / remove_graph go through self.update
    for m in ("add_graph", "remove_graph"):
        f = upd.get(m)
        if f is None:
            raise AnalysisError("SPARQLUpdateStore.%s vanished" % m)
        bad = [c for c in _self_calls(f) if c.func.attr in ("_update", "_query")]
        rep.ob("C20.b-enqueue-discipline", mod, "SPARQLUpdateStore." + m, "graph management goes through self.update", not bad,
               "uses the queued update path" if not bad else "%s talks to the endpoint directly (%s), overtaking queued edits" % (m, norm(bad[0])), node=f)
    # _update only from commit
    for m, f in upd.items():
        for c in _self_calls(f):
            if c.func.attr == "_update":
                rep.ob("C20.b-enqueue-discipline", mod, "SPARQLUpdateStore." + m, c, m == "commit",
                       "commit is the only sender" if m == "commit" else "%s sends an update directly, overtaking queued edits" % m, node=c)
    cm = upd.get("commit")
    rb = upd.get("rollback")
    if cm is None or rb is None:
        raise AnalysisError("commit/rollback vanished")
    sends = [c for c in _self_calls(cm) if c.func.attr == "_update"]
    if not sends:
        rep.ob("C20.b-enqueue-discipline", mod, "SPARQLUpdateStore.commit", "self._update(...)", False, "commit sends nothing", node=cm)
    for s in sends:
        arg = s.args[0] if s.args else None
        # the queue itself, or a local name that holds it (taken before the queue attribute is re-bound)
        aliases = {norm(a.targets[0]) for a in own_nodes(cm) if isinstance(a, ast.Assign) and isinstance(a.targets[0], ast.Name) and norm(a.value) == "self._edits"}
        for a in own_nodes(cm):
            if isinstance(a, ast.Assign) and isinstance(a.targets[0], ast.Name) and norm(a.targets[0]) in aliases and norm(a.value) != "self._edits":
                aliases.discard(norm(a.targets[0]))  # re-bound to something else
        ok = isinstance(arg, ast.Call) and isinstance(arg.func, ast.Attribute) and arg.func.attr == "join" and len(arg.args) == 1 \
            and (norm(arg.args[0]) == "self._edits" or norm(arg.args[0]) in aliases)
        via_alias = ok and norm(arg.args[0]) in aliases
        rep.ob("C20.b-enqueue-discipline", mod, "SPARQLUpdateStore.commit", s, ok,
               "sends all queued edits joined in queue order" if ok else "commit does not send `<sep>.join(self._edits)` (order/multiplicity of queued edits may change): %s" % norm(arg)[:80], node=s)
        g = CFG(cm)
        clears = set()
        for nd in g.nodes:
            st = nd.ast
            if nd.kind == "stmt" and isinstance(st, ast.Assign) and any(norm(t) == "self._edits" for t in st.targets) \
                    and (isinstance(st.value, ast.Constant) and st.value.value is None or isinstance(st.value, ast.List) and not st.value.elts):
                clears.add(nd.id)
        sn = g.node_of(s, mod)
        # (re-binding the attribute before the send does not change what is sent when the send reads the queue through a local name)
        ok = bool(clears) and g.must_pass_after(sn, clears) and (via_alias or not any(sn in g.reach(c) for c in clears))
        if via_alias:
            # the local name must have been taken before any clearing
            an = [g.node_of(a, mod) for a in own_nodes(cm) if isinstance(a, ast.Assign) and norm(a.targets[0]) == norm(arg.args[0])]
            ok = ok and all(g.must_pass_before(sn, {x}) for x in an) and not any(x in g.reach(c) for x in an for c in clears)
        rep.ob("C20.b-enqueue-discipline", mod, "SPARQLUpdateStore.commit", "queue cleared after sending", ok,
               "cleared after the send" if ok else "queue is not cleared on every path after sending (edits would be re-sent) or is cleared before", node=cm)
    rb_calls = [c for c in _self_calls(rb)]
    rb_clears = [n for n in own_nodes(rb) if isinstance(n, ast.Assign) and any(norm(t) == "self._edits" for t in n.targets)]
    ok = not [c for c in rb_calls if c.func.attr in ("_update", "commit", "update")] and bool(rb_clears)
    rep.ob("C20.b-enqueue-discipline", mod, "SPARQLUpdateStore.rollback", "rollback only clears the queue", ok,
           "discards exactly the uncommitted edits" if ok else "rollback sends or fails to clear", node=rb)
    # _transaction returns the live queue object
    tr = upd.get("_transaction")
    if tr is None:
        raise AnalysisError("_transaction vanished")
    rets = [n for n in own_nodes(tr) if isinstance(n, ast.Return)]
    ok = bool(rets) and all(r.value is not None and norm(r.value) == "self._edits" for r in rets)
    rep.ob("C20.b-enqueue-discipline", mod, "SPARQLUpdateStore._transaction", "returns the live queue self._edits", ok,
           "" if ok else "_transaction returns %s (a copy would lose appended edits)" % [norm(r.value) for r in rets if r.value is not None], node=tr)

    # ------------------------------------------------------------------ (c)
    rep.rule("C20.c-wildcards-by-identity",
             "in SPARQLStore/SPARQLUpdateStore a pattern position is replaced by a variable only when it `is None`; "
             "its truthiness is never consulted", floor=6)
    for cls, ms in (("SPARQLStore", base), ("SPARQLUpdateStore", upd)):
        for m, f in ms.items():
            truthy.scan(repo, rep, "C20.c-wildcards-by-identity", mod, f, "%s.%s" % (cls, m), require_optional=False)

    # ------------------------------------------------------------------ (d)
    rep.rule("C20.d-request-args-isolated",
             "in SPARQLConnector.query/update the per-request argument dict whose nested entries are mutated is a "
             "deep copy of the connector's shared kwargs (an alias or shallow copy would leak one request's "
             "default-graph / headers into later requests)", floor=2)
    cmeth = con.methods("SPARQLConnector")
    for m in ("query", "update"):
        f = cmeth.get(m)
        if f is None:
            raise AnalysisError("SPARQLConnector.%s vanished" % m)
        rep.analysed("rdflib/plugins/stores/sparqlconnector.py:SPARQLConnector." + m)
        origin: dict[str, tuple[str, ast.AST]] = {}
        for n in own_nodes(f):
            if isinstance(n, ast.Assign) and len(n.targets) == 1 and isinstance(n.targets[0], ast.Name):
                v = n.value
                shared = [a for a in ast.walk(v) if isinstance(a, ast.Attribute) and isinstance(a.value, ast.Name) and a.value.id == "self"
                          and not (isinstance(con.parent.get(id(a)), ast.Call) and con.parent.get(id(a)).func is a)]
                shared = [a for a in shared if a.attr in ("kwargs",) or a.attr.startswith("_kw")]
                if not shared:
                    continue
                if isinstance(v, ast.Call) and norm(v.func) in ("copy.deepcopy", "deepcopy"):
                    origin[n.targets[0].id] = ("deep", n)
                elif isinstance(v, ast.Attribute):
                    origin[n.targets[0].id] = ("alias", n)
                else:
                    origin[n.targets[0].id] = ("shallow", n)
        if not origin:
            raise AnalysisError("SPARQLConnector.%s: per-request copy of self.kwargs not found" % m)
        for nm, (kind, st) in origin.items():
            nested = []
            for n in own_nodes(f):
                # NAME[k].update/append/extend/setdefault(...), NAME[k][j] = v
                if isinstance(n, ast.Call) and isinstance(n.func, ast.Attribute) and n.func.attr in ("update", "append", "extend", "setdefault", "pop", "clear") \
                        and isinstance(n.func.value, ast.Subscript) and norm(n.func.value.value) == nm:
                    nested.append(n)
                if isinstance(n, ast.Assign) and any(isinstance(t, ast.Subscript) and isinstance(t.value, ast.Subscript) and norm(t.value.value) == nm for t in n.targets):
                    nested.append(n)
                if kind == "alias" and isinstance(n, ast.Call) and isinstance(n.func, ast.Attribute) and n.func.attr in ("update", "setdefault", "pop", "clear") and norm(n.func.value) == nm:
                    nested.append(n)
            ok = kind == "deep" or not nested
            rep.ob("C20.d-request-args-isolated", con, "SPARQLConnector." + m, st, ok,
                   "%s copy of the shared kwargs; %d nested mutation(s)" % (kind, len(nested)) if ok else
                   "%s is a %s of self.kwargs and its nested dict is mutated (%s): the change persists into later requests" % (nm, kind, norm(nested[0])[:60]), node=st)

    # ------------------------------------------------------------------ (e)
    rep.rule("C20.e-no-stale-loop-variable",
             "inside a loop of a SPARQLStore/SPARQLUpdateStore method, no name is read that is bound only as the target of an earlier, already "
             "finished loop of the same function (it would hold that loop's last element for every iteration - e.g. every batch sent to one graph)", floor=1)
    from vlib.loops import names as _names

    for cls, ms in (("SPARQLStore", base), ("SPARQLUpdateStore", upd)):
        for m, f in ms.items():
            top = [n for n in f.body]
            loops_ = [n for n in own_nodes(f) if isinstance(n, ast.For)]
            if len(loops_) < 2:
                continue
            params = {a.arg for a in f.args.args}
            for i, l2 in enumerate(sorted(loops_, key=lambda n: n.lineno)):
                inner = {id(x) for x in ast.walk(l2)}
                earlier = [l1 for l1 in loops_ if l1.lineno < l2.lineno and id(l2) not in {id(x) for x in ast.walk(l1)}]
                if not earlier:
                    continue
                bound_elsewhere = set(params)
                for n in own_nodes(f):
                    if isinstance(n, ast.Name) and isinstance(n.ctx, ast.Store):
                        # bound by something that is not an earlier loop's target
                        owner_loop = None
                        for l1 in earlier:
                            if any(n is x for x in ast.walk(l1.target)):
                                owner_loop = l1
                        if owner_loop is None:
                            bound_elsewhere.add(n.id)
                stale = set()
                for l1 in earlier:
                    for nm in _names(l1.target, ast.Store):
                        if nm in bound_elsewhere:
                            continue
                        reads = [x for x in ast.walk(l2) if isinstance(x, ast.Name) and x.id == nm and isinstance(x.ctx, ast.Load)]
                        # comprehension-local rebinding inside l2 hides it
                        if reads and nm not in _names(l2.target, ast.Store):
                            stale.add(nm)
                rep.ob("C20.e-no-stale-loop-variable", mod, "%s.%s" % (cls, m), "for %s in %s" % (norm(l2.target), norm(l2.iter)[:40]), not stale,
                       "uses its own loop variables" if not stale else "the loop reads %s, which is only bound by an earlier loop that has finished: every iteration sees that loop's last element" % sorted(stale), node=l2)

    # ------------------------------------------------------------------ (f) result decoding (anchored: results/jsonresults.py, xmlresults.py)
    from checks.c16 import json_memo_rule

    json_memo_rule(repo, rep, "C20.f-json-result-terms-parsed-individually")
