"""C20 - SPARQLStore / SPARQLUpdateStore: queue and flush discipline (DESIGN.md §2 C20)."""
from __future__ import annotations

import ast

from vlib import truthy
from vlib.cfg import CFG
from vlib.core import AnalysisError, Repo, Report, norm, own_nodes

EXPLANATION = (
    "Rules over rdflib/plugins/stores/sparqlstore.py and sparqlconnector.py: (a) every read of SPARQLUpdateStore "
    "that reaches the connector's query is an override that flushes pending edits first unless dirty reads are "
    "allowed; (b) every write enqueues unconditionally through _transaction() and commits under autocommit, "
    "_update is called only from commit, commit sends the queue in list order and clears it, rollback only clears; "
    "(c) pattern wildcards are tested by identity (a falsy literal is a bound term); (d) per-request argument "
    "dicts are deep copies of the connector's shared kwargs before nested entries are mutated. Whether the "
    "generated SPARQL text means the intended pattern at a real endpoint is not decided (needs an evaluator)."
)


def _self_calls(fn: ast.AST) -> list[ast.Call]:
    return [n for n in own_nodes(fn, include_nested=True) if isinstance(n, ast.Call) and isinstance(n.func, ast.Attribute)
            and isinstance(n.func.value, ast.Name) and n.func.value.id == "self"]


def _conjuncts(test: ast.expr) -> set[str] | None:
    """conjuncts of a flush condition, normalised: {'not self.autocommit', 'not self.dirty_reads'}"""
    if isinstance(test, ast.BoolOp) and isinstance(test.op, ast.And):
        out = set()
        for v in test.values:
            c = _conjuncts(v)
            if c is None:
                return None
            out |= c
        return out
    if isinstance(test, ast.UnaryOp) and isinstance(test.op, ast.Not):
        inner = test.operand
        if isinstance(inner, ast.BoolOp) and isinstance(inner.op, ast.Or):
            out = set()
            for v in inner.values:
                out.add("not " + norm(v))
            return out
        return {"not " + norm(inner)}
    return None


def run(repo: Repo, rep: Report) -> None:
    rep.extra["explanation"] = EXPLANATION
    mod = repo.mod("rdflib.plugins.stores.sparqlstore")
    con = repo.mod("rdflib.plugins.stores.sparqlconnector")
    base = mod.methods("SPARQLStore")
    upd = mod.methods("SPARQLUpdateStore")
    for m in base:
        rep.analysed("rdflib/plugins/stores/sparqlstore.py:SPARQLStore." + m)
    for m in upd:
        rep.analysed("rdflib/plugins/stores/sparqlstore.py:SPARQLUpdateStore." + m)

    # ------------------------------------------------------------------ (a)
    rep.rule("C20.a-flush-before-read",
             "every SPARQLStore method that sends a query to the endpoint (calls self._query) is overridden in "
             "SPARQLUpdateStore by a method whose delegation to the base implementation is dominated by "
             "`if not self.autocommit and not self.dirty_reads: self.commit()` (or a stronger flush)", floor=4)
    direct = {m for m, f in base.items() if any(c.func.attr == "_query" for c in _self_calls(f)) and m != "_query"}
    if len(direct) < 4:
        raise AnalysisError("expected >= 4 SPARQLStore methods calling self._query, found %s" % sorted(direct))
    for m in sorted(direct):
        f = upd.get(m)
        if f is None:
            rep.ob("C20.a-flush-before-read", mod, "SPARQLUpdateStore." + m, "override of SPARQLStore.%s" % m, False,
                   "SPARQLStore.%s queries the endpoint but SPARQLUpdateStore does not override it: queued edits are not visible to this read" % m,
                   node=base[m])
            continue
        g = CFG(f)
        deleg = [n for n in own_nodes(f) if isinstance(n, ast.Call) and (
            norm(n.func) == "SPARQLStore." + m or norm(n.func) == "super().%s" % m or norm(n.func) == "super(SPARQLUpdateStore, self).%s" % m)]
        if not deleg:
            # the override may implement the read itself through self._query
            deleg = [c for c in _self_calls(f) if c.func.attr == "_query"]
        if not deleg:
            rep.ob("C20.a-flush-before-read", mod, "SPARQLUpdateStore." + m, "delegation to SPARQLStore.%s" % m, False,
                   "override neither delegates to the base read nor queries", node=f)
            continue
        flush_nodes = set()
        for n in own_nodes(f):
            if isinstance(n, ast.If):
                cj = _conjuncts(n.test)
                commits = any(isinstance(c, ast.Call) and norm(c.func) == "self.commit" for s in n.body for c in ast.walk(s))
                if cj is not None and commits and cj <= {"not self.autocommit", "not self.dirty_reads"}:
                    flush_nodes.add(g.by_ast[id(n)])
            if isinstance(n, ast.Expr) and isinstance(n.value, ast.Call) and norm(n.value.func) == "self.commit":
                par = mod.parent.get(id(n))
                if par is f:
                    flush_nodes.add(g.by_ast[id(n)])
        for d in deleg:
            ok = bool(flush_nodes) and g.must_pass_before(g.node_of(d, mod), flush_nodes)
            rep.ob("C20.a-flush-before-read", mod, "SPARQLUpdateStore." + m, d, ok,
                   "read is dominated by the flush guard" if ok else
                   "the read reaches the endpoint on a path that does not pass `if not self.autocommit and not self.dirty_reads: self.commit()`", node=d)
    # derived reads must go through self.<direct read> (dynamic dispatch to the flushing override)
    for m, f in list(base.items()) + list(upd.items()):
        if m in direct or m.startswith("_") or m in ("query",):
            continue
        for c in [n for n in own_nodes(f, include_nested=True) if isinstance(n, ast.Call)]:
            if norm(c.func).startswith("SPARQLStore.") and norm(c.func).split(".", 1)[1] in direct and m not in direct:
                rep.ob("C20.a-flush-before-read", mod, m, c, False,
                       "calls the base read directly, bypassing the flushing override", node=c)

    # ------------------------------------------------------------------ (b)
    rep.rule("C20.b-enqueue-discipline",
             "every write method of SPARQLUpdateStore appends/extends the queue obtained from self._transaction() on "
             "every normal path (never conditionally on the queue's content) and then commits under "
             "`if self.autocommit:`; self._update is called only from commit; commit sends the queue joined in list "
             "order and clears it afterwards; rollback only clears the queue", floor=10)
    writers = [m for m, f in upd.items() if any(norm(c.func) == "self._transaction" for c in ast.walk(f) if isinstance(c, ast.Call)) and m != "_transaction"]
    if len(writers) < 4:
        raise AnalysisError("expected >= 4 writer methods using self._transaction(), found %s" % writers)
    for m in writers:
        f = upd[m]
        g = CFG(f)
        enq = []
        qalias = {nm.id for n in own_nodes(f) if isinstance(n, ast.Assign) and isinstance(n.value, ast.Call)
                  and norm(n.value.func) == "self._transaction" for nm in n.targets if isinstance(nm, ast.Name)}
        for n in own_nodes(f):
            if isinstance(n, ast.Call) and isinstance(n.func, ast.Attribute) and n.func.attr in ("append", "extend") and (
                    (isinstance(n.func.value, ast.Call) and norm(n.func.value.func) == "self._transaction")
                    or (isinstance(n.func.value, ast.Name) and n.func.value.id in qalias)):
                enq.append(n)
            if isinstance(n, ast.AugAssign) and isinstance(n.op, ast.Add) and isinstance(n.target, ast.Name) and n.target.id in qalias:
                enq.append(n)
        if not enq:
            rep.ob("C20.b-enqueue-discipline", mod, "SPARQLUpdateStore." + m, "self._transaction().append(...)", False,
                   "writer does not enqueue through append/extend", node=f)
            continue
        enodes = {g.node_of(e, mod) for e in enq}
        allpaths = g.exit not in g.reach(g.entry, avoid=enodes)
        rep.ob("C20.b-enqueue-discipline", mod, "SPARQLUpdateStore." + m, enq[0], allpaths,
               "every normal path through %s enqueues its edit" % m if allpaths else
               "a normal path through %s returns without enqueuing (the edit is dropped, e.g. de-duplicated against the queue): writes no longer reach the endpoint in order" % m,
               node=enq[0])
        commits = set()
        for n in own_nodes(f):
            if isinstance(n, ast.If) and norm(n.test) == "self.autocommit" and any(
                    isinstance(c, ast.Call) and norm(c.func) == "self.commit" for s in n.body for c in ast.walk(s)):
                commits.add(g.by_ast[id(n)])
        ok = bool(commits) and all(g.must_pass_after(e, commits) for e in enodes)
        rep.ob("C20.b-enqueue-discipline", mod, "SPARQLUpdateStore." + m, "if self.autocommit: self.commit() after the enqueue", ok,
               "autocommit flush follows the enqueue on every path" if ok else "with autocommit on, %s can return without committing its edit" % m, node=f)
    # add_graph / remove_graph go through self.update
    for m in ("add_graph", "remove_graph"):
        f = upd.get(m)
        if f is None:
            raise AnalysisError("SPARQLUpdateStore.%s vanished" % m)
        bad = [c for c in _self_calls(f) if c.func.attr in ("_update", "_query")]
        rep.ob("C20.b-enqueue-discipline", mod, "SPARQLUpdateStore." + m, "graph management goes through self.update", not bad,
               "uses the queued update path" if not bad else "%s talks to the endpoint directly (%s), overtaking queued edits" % (m, norm(bad[0])), node=f)
    # _update only from commit
    for m, f in upd.items():
        for c in _self_calls(f):
            if c.func.attr == "_update":
                rep.ob("C20.b-enqueue-discipline", mod, "SPARQLUpdateStore." + m, c, m == "commit",
                       "commit is the only sender" if m == "commit" else "%s sends an update directly, overtaking queued edits" % m, node=c)
    cm = upd.get("commit")
    rb = upd.get("rollback")
    if cm is None or rb is None:
        raise AnalysisError("commit/rollback vanished")
    sends = [c for c in _self_calls(cm) if c.func.attr == "_update"]
    if not sends:
        rep.ob("C20.b-enqueue-discipline", mod, "SPARQLUpdateStore.commit", "self._update(...)", False, "commit sends nothing", node=cm)
    for s in sends:
        arg = s.args[0] if s.args else None
        # the queue itself, or a local name that holds it (taken before the queue attribute is re-bound)
        aliases = {norm(a.targets[0]) for a in own_nodes(cm) if isinstance(a, ast.Assign) and isinstance(a.targets[0], ast.Name) and norm(a.value) == "self._edits"}
        for a in own_nodes(cm):
            if isinstance(a, ast.Assign) and isinstance(a.targets[0], ast.Name) and norm(a.targets[0]) in aliases and norm(a.value) != "self._edits":
                aliases.discard(norm(a.targets[0]))  # re-bound to something else
        ok = isinstance(arg, ast.Call) and isinstance(arg.func, ast.Attribute) and arg.func.attr == "join" and len(arg.args) == 1 \
            and (norm(arg.args[0]) == "self._edits" or norm(arg.args[0]) in aliases)
        via_alias = ok and norm(arg.args[0]) in aliases
        rep.ob("C20.b-enqueue-discipline", mod, "SPARQLUpdateStore.commit", s, ok,
               "sends all queued edits joined in queue order" if ok else "commit does not send `<sep>.join(self._edits)` (order/multiplicity of queued edits may change): %s" % norm(arg)[:80], node=s)
        g = CFG(cm)
        clears = set()
        for nd in g.nodes:
            st = nd.ast
            if nd.kind == "stmt" and isinstance(st, ast.Assign) and any(norm(t) == "self._edits" for t in st.targets) \
                    and (isinstance(st.value, ast.Constant) and st.value.value is None or isinstance(st.value, ast.List) and not st.value.elts):
                clears.add(nd.id)
        sn = g.node_of(s, mod)
        # (re-binding the attribute before the send does not change what is sent when the send reads the queue through a local name)
        ok = bool(clears) and g.must_pass_after(sn, clears) and (via_alias or not any(sn in g.reach(c) for c in clears))
        if via_alias:
            # the local name must have been taken before any clearing
            an = [g.node_of(a, mod) for a in own_nodes(cm) if isinstance(a, ast.Assign) and norm(a.targets[0]) == norm(arg.args[0])]
            ok = ok and all(g.must_pass_before(sn, {x}) for x in an) and not any(x in g.reach(c) for x in an for c in clears)
        rep.ob("C20.b-enqueue-discipline", mod, "SPARQLUpdateStore.commit", "queue cleared after sending", ok,
               "cleared after the send" if ok else "queue is not cleared on every path after sending (edits would be re-sent) or is cleared before", node=cm)
    rb_calls = [c for c in _self_calls(rb)]
    rb_clears = [n for n in own_nodes(rb) if isinstance(n, ast.Assign) and any(norm(t) == "self._edits" for t in n.targets)]
    ok = not [c for c in rb_calls if c.func.attr in ("_update", "commit", "update")] and bool(rb_clears)
    rep.ob("C20.b-enqueue-discipline", mod, "SPARQLUpdateStore.rollback", "rollback only clears the queue", ok,
           "discards exactly the uncommitted edits" if ok else "rollback sends or fails to clear", node=rb)
    # _transaction returns the live queue object
    tr = upd.get("_transaction")
    if tr is None:
        raise AnalysisError("_transaction vanished")
    rets = [n for n in own_nodes(tr) if isinstance(n, ast.Return)]
    ok = bool(rets) and all(r.value is not None and norm(r.value) == "self._edits" for r in rets)
    rep.ob("C20.b-enqueue-discipline", mod, "SPARQLUpdateStore._transaction", "returns the live queue self._edits", ok,
           "" if ok else "_transaction returns %s (a copy would lose appended edits)" % [norm(r.value) for r in rets if r.value is not None], node=tr)

    # ------------------------------------------------------------------ (c)
    rep.rule("C20.c-wildcards-by-identity",
             "in SPARQLStore/SPARQLUpdateStore a pattern position is replaced by a variable only when it `is None`; "
             "its truthiness is never consulted", floor=6)
    for cls, ms in (("SPARQLStore", base), ("SPARQLUpdateStore", upd)):
        for m, f in ms.items():
            truthy.scan(repo, rep, "C20.c-wildcards-by-identity", mod, f, "%s.%s" % (cls, m), require_optional=False)

    # ------------------------------------------------------------------ (d)
    rep.rule("C20.d-request-args-isolated",
             "in SPARQLConnector.query/update the per-request argument dict whose nested entries are mutated is a "
             "deep copy of the connector's shared kwargs (an alias or shallow copy would leak one request's "
             "default-graph / headers into later requests)", floor=2)
    cmeth = con.methods("SPARQLConnector")
    for m in ("query", "update"):
        f = cmeth.get(m)
        if f is None:
            raise AnalysisError("SPARQLConnector.%s vanished" % m)
        rep.analysed("rdflib/plugins/stores/sparqlconnector.py:SPARQLConnector." + m)
        origin: dict[str, tuple[str, ast.AST]] = {}
        for n in own_nodes(f):
            if isinstance(n, ast.Assign) and len(n.targets) == 1 and isinstance(n.targets[0], ast.Name):
                v = n.value
                shared = [a for a in ast.walk(v) if isinstance(a, ast.Attribute) and isinstance(a.value, ast.Name) and a.value.id == "self"
                          and not (isinstance(con.parent.get(id(a)), ast.Call) and con.parent.get(id(a)).func is a)]
                shared = [a for a in shared if a.attr in ("kwargs",) or a.attr.startswith("_kw")]
                if not shared:
                    continue
                if isinstance(v, ast.Call) and norm(v.func) in ("copy.deepcopy", "deepcopy"):
                    origin[n.targets[0].id] = ("deep", n)
                elif isinstance(v, ast.Attribute):
                    origin[n.targets[0].id] = ("alias", n)
                else:
                    origin[n.targets[0].id] = ("shallow", n)
        if not origin:
            raise AnalysisError("SPARQLConnector.%s: per-request copy of self.kwargs not found" % m)
        for nm, (kind, st) in origin.items():
            nested = []
            for n in own_nodes(f):
                # NAME[k].update/append/extend/setdefault(...), NAME[k][j] = v
                if isinstance(n, ast.Call) and isinstance(n.func, ast.Attribute) and n.func.attr in ("update", "append", "extend", "setdefault", "pop", "clear") \
                        and isinstance(n.func.value, ast.Subscript) and norm(n.func.value.value) == nm:
                    nested.append(n)
                if isinstance(n, ast.Assign) and any(isinstance(t, ast.Subscript) and isinstance(t.value, ast.Subscript) and norm(t.value.value) == nm for t in n.targets):
                    nested.append(n)
                if kind == "alias" and isinstance(n, ast.Call) and isinstance(n.func, ast.Attribute) and n.func.attr in ("update", "setdefault", "pop", "clear") and norm(n.func.value) == nm:
                    nested.append(n)
            ok = kind == "deep" or not nested
            rep.ob("C20.d-request-args-isolated", con, "SPARQLConnector." + m, st, ok,
                   "%s copy of the shared kwargs; %d nested mutation(s)" % (kind, len(nested)) if ok else
                   "%s is a %s of self.kwargs and its nested dict is mutated (%s): the change persists into later requests" % (nm, kind, norm(nested[0])[:60]), node=st)

    # ------------------------------------------------------------------ (e)
    rep.rule("C20.e-no-stale-loop-variable",
             "inside a loop of a SPARQLStore/SPARQLUpdateStore method, no name is read that is bound only as the target of an earlier, already "
             "finished loop of the same function (it would hold that loop's last element for every iteration - e.g. every batch sent to one graph)", floor=1)
    from vlib.loops import names as _names

    for cls, ms in (("SPARQLStore", base), ("SPARQLUpdateStore", upd)):
        for m, f in ms.items():
            top = [n for n in f.body]
            loops_ = [n for n in own_nodes(f) if isinstance(n, ast.For)]
            if len(loops_) < 2:
                continue
            params = {a.arg for a in f.args.args}
            for i, l2 in enumerate(sorted(loops_, key=lambda n: n.lineno)):
                inner = {id(x) for x in ast.walk(l2)}
                earlier = [l1 for l1 in loops_ if l1.lineno < l2.lineno and id(l2) not in {id(x) for x in ast.walk(l1)}]
                if not earlier:
                    continue
                bound_elsewhere = set(params)
                for n in own_nodes(f):
                    if isinstance(n, ast.Name) and isinstance(n.ctx, ast.Store):
                        # bound by something that is not an earlier loop's target
                        owner_loop = None
                        for l1 in earlier:
                            if any(n is x for x in ast.walk(l1.target)):
                                owner_loop = l1
                        if owner_loop is None:
                            bound_elsewhere.add(n.id)
                stale = set()
                for l1 in earlier:
                    for nm in _names(l1.target, ast.Store):
                        if nm in bound_elsewhere:
                            continue
                        reads = [x for x in ast.walk(l2) if isinstance(x, ast.Name) and x.id == nm and isinstance(x.ctx, ast.Load)]
                        # comprehension-local rebinding inside l2 hides it
                        if reads and nm not in _names(l2.target, ast.Store):
                            stale.add(nm)
                rep.ob("C20.e-no-stale-loop-variable", mod, "%s.%s" % (cls, m), "for %s in %s" % (norm(l2.target), norm(l2.iter)[:40]), not stale,
                       "uses its own loop variables" if not stale else "the loop reads %s, which is only bound by an earlier loop that has finished: every iteration sees that loop's last element" % sorted(stale), node=l2)

    # ------------------------------------------------------------------ (f) result decoding (anchored: results/jsonresults.py, xmlresults.py)
    from checks.c16 import json_memo_rule

    json_memo_rule(repo, rep, "C20.f-json-result-terms-parsed-individually")


# ======================================================================================================================
# second layer: the text that is sent (update rewriting, graph designators, paging, request address), what a failed
# autocommit write leaves behind, and the shape of what triples() yields
# ======================================================================================================================
_run_base = run

_STORE_MODS = ("rdflib.plugins.stores.sparqlstore", "rdflib.plugins.stores.sparqlconnector")


def _fn_params(fn: ast.AST) -> set[str]:
    a = fn.args  # type: ignore[attr-defined]
    return {x.arg for x in a.posonlyargs + a.args + a.kwonlyargs + ([a.vararg] if a.vararg else []) + ([a.kwarg] if a.kwarg else [])}


def _pattern_names(m) -> set[str]:
    """names bound to re.compile(...) in the module body or a class body"""
    from vlib import h_c20 as H

    out = set()
    for n in ast.walk(m.tree):
        if isinstance(n, ast.Assign) and H.is_re_compile(n.value):
            for t in n.targets:
                if isinstance(t, ast.Name):
                    out.add(t.id)
                elif isinstance(t, ast.Attribute):
                    out.add(t.attr)
    return out


def _regex_sub_calls(repo: Repo, m, fn: ast.AST):
    """(call, replacement argument) of every regular-expression substitution in fn: re.sub/subn(p, repl, s) and
    <compiled pattern>.sub/subn(repl, s), the receiver being recognised by its binding to re.compile or by its type"""
    pats = _pattern_names(m)
    for n in own_nodes(fn, include_nested=True):
        if not (isinstance(n, ast.Call) and isinstance(n.func, ast.Attribute) and n.func.attr in ("sub", "subn")):
            continue
        recv = n.func.value
        kw = next((k.value for k in n.keywords if k.arg == "repl"), None)
        if isinstance(recv, ast.Name) and recv.id == "re":
            yield n, kw if kw is not None else (n.args[1] if len(n.args) > 1 else None)
            continue
        tf = repo.typed.type_of(m.name, recv)
        is_pat = (isinstance(recv, ast.Name) and recv.id in pats) or (isinstance(recv, ast.Attribute) and recv.attr in pats) \
            or (tf is not None and "Pattern" in tf.text)
        if is_pat:
            yield n, kw if kw is not None else (n.args[0] if n.args else None)


def _is_backslash_doubling(e: ast.AST) -> bool:
    return isinstance(e, ast.Call) and isinstance(e.func, ast.Attribute) and e.func.attr == "replace" and len(e.args) >= 2 \
        and isinstance(e.args[0], ast.Constant) and e.args[0].value in ("\\", b"\\") \
        and isinstance(e.args[1], ast.Constant) and e.args[1].value in ("\\\\", b"\\\\")


def _repl_kind(repo: Repo, m, fn: ast.AST, e: ast.AST | None, depth: int = 4) -> str:
    """'callable' | 'constant' | 'escaped' | 'dynamic' | 'unknown' for the replacement argument of a substitution"""
    from vlib import h_c20 as H

    if e is None:
        return "unknown"
    if isinstance(e, ast.Lambda):
        return "callable"
    if isinstance(e, ast.Constant):
        return "constant"
    if _is_backslash_doubling(e):
        return "escaped"
    if isinstance(e, ast.Name):
        defs = H.local_defs(fn).get(e.id, [])
        if defs and depth > 0:
            kinds = {_repl_kind(repo, m, fn, v, depth - 1) for _s, v in defs}
            for k in ("dynamic", "unknown", "escaped", "constant", "callable"):
                if k in kinds:
                    return k
        if any(isinstance(d, (ast.FunctionDef, ast.AsyncFunctionDef)) and d.name == e.id for d in ast.walk(m.tree)):
            return "callable"
    if isinstance(e, ast.BinOp) and isinstance(e.op, ast.Add):
        kinds = {_repl_kind(repo, m, fn, x, depth) for x in (e.left, e.right)}
        if kinds <= {"constant"}:
            return "constant"
        if kinds <= {"constant", "escaped"}:
            return "escaped"
        return "dynamic"
    if isinstance(e, (ast.BinOp, ast.JoinedStr)) or (isinstance(e, ast.Call) and isinstance(e.func, ast.Attribute) and e.func.attr in ("format", "join")) \
            or (isinstance(e, ast.Call) and isinstance(e.func, ast.Name) and e.func.id in ("str", "repr")):
        cls = m.qual_of(fn).rsplit(".", 1)[0] if "." in m.qual_of(fn) else None
        if H.StrEnv(m, cls if cls and isinstance(m.defs.get(cls), ast.ClassDef) else None).value(e) is not None:  # type: ignore[arg-type]
            return "constant"
        return "dynamic"
    tf = repo.typed.type_of(m.name, e)
    if tf is not None:
        if tf.text.startswith("def ") or "Callable" in tf.text:
            return "callable"
        if any(t in tf.text for t in ("str", "bytes", "Literal", "URIRef", "Identifier", "Node")):
            return "dynamic"
    return "unknown"


def _graph_polarity(test: ast.expr, x: str, dflt: set[str]) -> bool | None:
    """True: the test being true implies that the graph designator x is a named graph (not the dataset's default graph);
    False: the test being false implies it; None: the test decides nothing about x"""
    if isinstance(test, ast.Call) and isinstance(test.func, ast.Attribute) and test.func.attr == "_is_contextual" and test.args and norm(test.args[0]) == x:
        return True
    if isinstance(test, ast.Compare) and len(test.ops) == 1:
        sides = [test.left, test.comparators[0]]
        if any(norm(s) in (x, x + ".identifier") for s in sides) and any(isinstance(n, ast.Name) and n.id in dflt for s in sides for n in ast.walk(s)):
            if isinstance(test.ops[0], (ast.NotEq, ast.IsNot)):
                return True
            if isinstance(test.ops[0], (ast.Eq, ast.Is)):
                return False
        return None
    if isinstance(test, ast.UnaryOp) and isinstance(test.op, ast.Not):
        p = _graph_polarity(test.operand, x, dflt)
        return None if p is None else (not p)
    if isinstance(test, ast.BoolOp):
        ps = [_graph_polarity(v, x, dflt) for v in test.values]
        if isinstance(test.op, ast.And) and any(p is True for p in ps):
            return True
        if isinstance(test.op, ast.Or) and any(p is False for p in ps):
            return False
    return None


def run(repo: Repo, rep: Report) -> None:  # noqa: F811
    _run_base(repo, rep)
    from vlib import h_c20 as H

    rep.extra["explanation"] = EXPLANATION + (
        " Second layer: (g) run-time text never is the replacement TEMPLATE of a regex substitution; (h) no alternative of the update "
        "tokeniser's ordered choice is shadowed by an earlier one; (i) a graph designator reaches the endpoint only under a test that it is "
        "not the dataset's default graph, and (j) that predicate compares with the default-graph identifier in every representation; (k) "
        "paging attributes are read only for the SELECT form; (l) under autocommit the queue is empty when the send can raise; (m) the "
        "request address keeps an endpoint's own query string; (n) every Store.triples yields an iterable of contexts.")
    mod = repo.mod(_STORE_MODS[0])
    con = repo.mod(_STORE_MODS[1])
    base = mod.methods("SPARQLStore")
    upd = mod.methods("SPARQLUpdateStore")
    both = [("SPARQLStore", base), ("SPARQLUpdateStore", upd)]

    # ------------------------------------------------------------------ (g) data never becomes a replacement template
    rep.rule("C20.g-substituted-text-is-literal",
             "in the SPARQL store modules, the replacement argument of a regular-expression substitution (re.sub / pattern.sub / subn) that "
             "carries run-time text is a function (or has its backslashes doubled): a replacement STRING is a template in which `\\\\`, `\\n`, "
             "`\\g<..>` are processed, so e.g. update(..., initBindings={'x': Literal('a\\\\nb')}) would send the literal with a real newline "
             "(a different term, or a syntax error for `\\\"`)", floor=1)
    info = []
    for mname, m in sorted(repo.modules.items()):
        gating = mname in _STORE_MODS
        if not gating and ".sub" not in m.text:
            continue
        for q, f in m.functions():
            if isinstance(m.parent.get(id(f)), (ast.FunctionDef, ast.AsyncFunctionDef)):
                continue  # nested functions are walked with their parent
            for call, repl in _regex_sub_calls(repo, m, f):
                kind = _repl_kind(repo, m, f, repl)
                if not gating:
                    if kind == "dynamic":
                        info.append("%s %s :: %s" % (m.rel, q, norm(call)[:100]))
                    continue
                if kind == "unknown":
                    raise AnalysisError("%s %s: cannot classify the replacement argument of %s" % (m.rel, q, norm(call)[:80]))
                rep.ob("C20.g-substituted-text-is-literal", m, q, call, kind != "dynamic",
                       "replacement is %s" % kind if kind != "dynamic" else
                       "run-time text is passed as the replacement template of a regular-expression substitution: its backslash escapes are "
                       "processed a second time, so a bound literal containing `\\` reaches the endpoint changed", node=call)
    rep.info["C20.g-package-wide-template-replacements (information, other properties' scope)"] = info

    # ------------------------------------------------------------------ (h) ordered alternations of the update tokeniser
    rep.rule("C20.h-no-shadowed-alternative",
             "in every regular expression the SPARQL store compiles, no alternative of the ordered choice at the end of the pattern is dead: an "
             "EARLIER alternative that can match a prefix of the text a LATER alternative must start with wins at every position where the later "
             "one could match (the short string form '...' before the long form '''...''' reads ''' as the empty string '' and then takes the "
             "braces inside the literal for block delimiters: update(\"INSERT DATA { <a> <b> '''}''' }\") on a named graph is mis-rewritten)", floor=9)
    n_pat = 0
    for m in (mod, con):
        for q, call, pat, flags in H.compiled_patterns(m):
            n_pat += 1
            alts = H.leaf_alternatives(H.parse_regex(pat, flags))
            for j in range(1, len(alts)):
                lit = H.literal_prefix(alts[j])
                if not lit:
                    continue
                shadow = [i for i in range(j) if H.match_ends(alts[i], lit, 0, flags)]
                rep.ob("C20.h-no-shadowed-alternative", m, q, "alternative %d (starts with %r) of %s" % (j + 1, lit, q), not shadow,
                       "no earlier alternative matches a prefix of %r" % lit if not shadow else
                       "alternative %d already matches a prefix of %r, the text alternative %d must start with: alternative %d can never be chosen "
                       "(e.g. a long string literal is tokenised as an empty short one and its body is scanned for braces)" % (shadow[0] + 1, lit, j + 1, j + 1),
                       node=call)
    if n_pat < 3:
        raise AnalysisError("expected >= 3 compiled regular expressions in the SPARQL store modules, found %d" % n_pat)

    # ------------------------------------------------------------------ (i) the default graph is never addressed by name
    dflt = H.imported_as(mod, "graph", "DATASET_DEFAULT_GRAPH_ID")
    if not dflt:
        raise AnalysisError("sparqlstore no longer imports DATASET_DEFAULT_GRAPH_ID")
    rep.rule("C20.i-default-graph-never-named",
             "in SPARQLStore/SPARQLUpdateStore every place where a graph designator reaches the endpoint - `<g>.identifier` rendered into the text "
             "or passed on, the value of a `default_graph=` argument, the graph argument of _insert_named_graph - is control-dependent on a test "
             "that excludes the dataset's default graph for that same designator (`self._is_contextual(<g>)` true, or `<g>.identifier` compared "
             "with DATASET_DEFAULT_GRAPH_ID): otherwise ds.addN([(s, p, o, ds.default_context)]) writes into a NAMED graph <urn:x-rdflib:default> "
             "that no read of the default graph sees", floor=9)
    for cls, ms in both:
        for mname, f in ms.items():
            if mname == "_is_contextual":
                continue
            sinks: list[tuple[ast.AST, str]] = []
            seen_ids: set[int] = set()

            def add_sink(node: ast.AST, x: str) -> None:
                if id(node) not in seen_ids:
                    seen_ids.add(id(node))
                    sinks.append((node, x))

            for n in own_nodes(f, include_nested=True):
                if isinstance(n, ast.Attribute) and n.attr == "identifier" and isinstance(n.ctx, ast.Load) and isinstance(n.value, ast.Name) \
                        and n.value.id not in ("self", "cls") and not isinstance(mod.parent.get(id(n)), ast.Compare):
                    add_sink(n, n.value.id)
                if isinstance(n, ast.Call):
                    vals = [k.value for k in n.keywords if k.arg == "default_graph"]
                    if isinstance(n.func, ast.Attribute) and n.func.attr == "_insert_named_graph":
                        vals += n.args[1:2] + [k.value for k in n.keywords if k.arg == "query_graph"]
                    for v in vals:
                        for x in ast.walk(v):
                            if isinstance(x, ast.Name) and isinstance(x.ctx, ast.Load) and x.id not in ("self", "cls") \
                                    and not (isinstance(mod.parent.get(id(x)), ast.Attribute)) \
                                    and not any(kind == "test" for _c, kind in H.branch_of(mod, x, n)) \
                                    and not any(isinstance(p, ast.Call) and p is not n for p in _upto(mod, x, n)):
                                add_sink(x, x.id)
            for node, x in sinks:
                ok = False
                for cond, kind in H.branch_of(mod, node, f):
                    if kind == "test":
                        continue
                    pol = _graph_polarity(cond.test, x, dflt)  # type: ignore[attr-defined]
                    if (pol is True and kind == "body") or (pol is False and kind == "orelse"):
                        ok = True
                        break
                rep.ob("C20.i-default-graph-never-named", mod, "%s.%s" % (cls, mname), node, ok,
                       "only reached for a graph other than the dataset's default graph" if ok else
                       "the graph designator %s reaches the endpoint without a test that it is not the dataset's default graph: the default graph is "
                       "addressed as a named graph <urn:x-rdflib:default> (reads of the default graph do not see what was written)" % x, node=node)

    # ------------------------------------------------------------------ (j) the default-graph predicate itself
    rep.rule("C20.j-default-graph-predicate-complete",
             "every return of SPARQLStore._is_contextual that can answer True has compared the designator with DATASET_DEFAULT_GRAPH_ID - in "
             "each representation the predicate accepts (a Graph, or the identifier that Graph.query / Graph.update pass): otherwise "
             "Dataset(store).update('INSERT DATA {..}') is rewritten into GRAPH <urn:x-rdflib:default> {..} and Dataset.query reads that graph", floor=2)
    pred = base.get("_is_contextual")
    if pred is None:
        raise AnalysisError("SPARQLStore._is_contextual vanished")
    rep.analysed("rdflib/plugins/stores/sparqlstore.py:SPARQLStore._is_contextual")
    gp = CFG(pred)
    for r in [n for n in own_nodes(pred) if isinstance(n, ast.Return)]:
        if r.value is None or (isinstance(r.value, ast.Constant) and r.value.value in (False, None)):
            continue
        ok = H.mentions(r.value, dflt, pred, mod)
        if not ok:
            # or every path to the return has passed a test against the default-graph identifier that left on the other branch
            tests = {gp.by_ast[id(n)] for n in own_nodes(pred) if isinstance(n, ast.If) and H.mentions(n.test, dflt, pred, mod)
                     and n.body and isinstance(n.body[-1], ast.Return) and id(n) in gp.by_ast}
            ok = bool(tests) and gp.must_pass_before(gp.node_of(r, mod), tests)
        rep.ob("C20.j-default-graph-predicate-complete", mod, "SPARQLStore._is_contextual", r, ok,
               "answers after comparing with the default-graph identifier" if ok else
               "this return answers True for a designator without comparing it with DATASET_DEFAULT_GRAPH_ID: the dataset's default graph, given in "
               "this form, is treated as a named graph", node=r)

    # ------------------------------------------------------------------ (k) paging belongs to SELECT
    rep.rule("C20.k-paging-only-for-select",
             "in a method that chooses between a SELECT and an ASK form of its query, every read of the graph's paging attributes (LIMIT / OFFSET / "
             "ORDER BY via hasattr/getattr) depends on the condition that selected SELECT - by control (inside a branch of a test on it) or by "
             "data (read from a name that is None unless SELECT): an ASK has no solution variable to order by and a single solution to slice, so "
             "with g.LIMIT set `(s, p, o) in g` raised on None.n3() and with g.OFFSET = 1 a present triple is reported absent", floor=8)
    pconst = {nm for nm, v in H.StrEnv._assigns(mod.tree.body).items() if isinstance(v, ast.Constant) and v.value in ("LIMIT", "OFFSET", "ORDER BY")}
    n_forms = 0
    for cls, ms in both:
        for mname, f in ms.items():
            det = _select_determinants(f)
            if det is None:
                continue
            n_forms += 1
            where = "%s.%s" % (cls, mname)
            defs = H.local_defs(f)
            gated: set[str] = set()

            def dep(e: ast.AST) -> bool:
                return any(isinstance(x, ast.Name) and (x.id in det or x.id in gated) for x in ast.walk(e))

            def ctl(node: ast.AST) -> bool:
                child = node
                for p in mod.parents(node):
                    if isinstance(p, (ast.If, ast.While, ast.IfExp)) and child is not p.test and dep(p.test):
                        return True
                    if isinstance(p, ast.BoolOp) and isinstance(p.op, ast.And):
                        k = next(i for i, v in enumerate(p.values) if v is child)
                        if any(dep(v) for v in p.values[:k]):
                            return True
                    if p is f:
                        break
                    child = p
                return False

            changed = True
            while changed:
                changed = False
                for nm, ds in defs.items():
                    if nm in gated or nm in det or not ds:
                        continue
                    good = True
                    some = False
                    for st, v in ds:
                        if v is not None and isinstance(v, ast.Constant) and v.value is None:
                            continue
                        if v is not None and ((isinstance(v, ast.IfExp) and dep(v.test)) or (isinstance(v, ast.BoolOp) and isinstance(v.op, ast.And) and dep(v.values[0])) or ctl(st)):
                            some = True
                            continue
                        good = False
                    if good and some:
                        gated.add(nm)
                        changed = True
            for n in own_nodes(f):
                if isinstance(n, ast.Call) and isinstance(n.func, ast.Name) and n.func.id in ("hasattr", "getattr") and len(n.args) >= 2 and (
                        (isinstance(n.args[1], ast.Name) and n.args[1].id in pconst) or (isinstance(n.args[1], ast.Constant) and n.args[1].value in ("LIMIT", "OFFSET", "ORDER BY"))):
                    ok = (isinstance(n.args[0], ast.Name) and n.args[0].id in gated) or ctl(n)
                    rep.ob("C20.k-paging-only-for-select", mod, where, n, ok,
                           "read only when the query is a SELECT" if ok else
                           "the paging attribute is read whatever the query form: a fully bound pattern (ASK) gets ORDER BY / LIMIT / OFFSET too "
                           "(None.n3() when there is no variable; OFFSET skips the only solution)", node=n)
    if not n_forms:
        raise AnalysisError("no SPARQLStore method chooses between SELECT and ASK any more")

    # ------------------------------------------------------------------ (l) a rejected autocommit write is not kept queued
    queue = {norm(r.value) for r in own_nodes(upd["_transaction"]) if isinstance(r, ast.Return) and r.value is not None}
    if len(queue) != 1:
        raise AnalysisError("SPARQLUpdateStore._transaction does not return one queue attribute: %s" % sorted(queue))
    qattr = queue.pop()
    rep.rule("C20.l-failed-autocommit-write-dropped",
             "in every SPARQLUpdateStore method that sends (self._update), on the autocommit path the queue is emptied BEFORE the send (or in an "
             "exception handler / finally around it): the send may raise (endpoint rejects the update), and an edit still queued then is "
             "re-sent in front of every later write, which fails again - after one rejected add() no later add() reaches the endpoint", floor=1)

    def is_clear(st: ast.AST) -> bool:
        return isinstance(st, ast.Assign) and any(norm(t) == qattr for t in st.targets) and (
            (isinstance(st.value, ast.Constant) and st.value.value is None) or (isinstance(st.value, (ast.List, ast.Tuple)) and not st.value.elts))

    def is_clear_call(st: ast.AST) -> bool:
        return isinstance(st, ast.Expr) and isinstance(st.value, ast.Call) and norm(st.value.func) in (qattr + ".clear", "self.rollback")

    for mname, f in upd.items():
        sends = [c for c in _self_calls(f) if c.func.attr == "_update"]
        if not sends:
            continue
        g = CFG(f)
        before: set[int] = set()
        for n in own_nodes(f):
            if (is_clear(n) or is_clear_call(n)) and id(n) in g.by_ast:
                par = mod.parent.get(id(n))
                if par is f:
                    before.add(g.by_ast[id(n)])
                elif isinstance(par, ast.If) and any(n is s for s in par.body) and mod.parent.get(id(par)) is not None:
                    cj = {norm(v) for v in (par.test.values if isinstance(par.test, ast.BoolOp) and isinstance(par.test.op, ast.And) else [par.test])}
                    if cj == {"self.autocommit"}:
                        # the whole `if self.autocommit:` statement stands for "cleared when autocommit is on"
                        before.add(g.by_ast[id(par)])
        for s in sends:
            sn = g.node_of(s, mod)
            ok = any(g.must_pass_before(sn, {b}) and sn in g.reach(b) and not _inside(mod, s, g.nodes[b].ast) for b in before)
            if not ok:
                for p in mod.parents(s):
                    if isinstance(p, ast.Try) and any(s is x for st in p.body for x in ast.walk(st)):
                        hs = [st for h in p.handlers if h.type is None or norm(h.type) in ("Exception", "BaseException") for st in h.body] + list(p.finalbody)
                        if any(is_clear(x) or is_clear_call(x) for st in hs for x in ast.walk(st)):
                            ok = True
                    if p is f:
                        break
            rep.ob("C20.l-failed-autocommit-write-dropped", mod, "SPARQLUpdateStore." + mname, s, ok,
                   "with autocommit on the queue is already empty when the send can raise" if ok else
                   "with autocommit on, the queue is only emptied after the send: if the endpoint rejects the update the exception leaves the edit "
                   "queued and it is sent again, in front of every later write", node=s)

    # ------------------------------------------------------------------ (m) request address keeps the endpoint's own query string
    rep.rule("C20.m-endpoint-query-string-kept",
             "in the SPARQL connector every request whose address is built from urlencode()d parameters chooses the separator after testing "
             "whether the endpoint address already has a query string ('?' in <address>, or urlsplit/urlparse): with a fixed '?' an endpoint "
             "http://host/sparql?apikey=k gets ...?apikey=k?query=..., i.e. the query and default-graph-uri are swallowed by the value of apikey", floor=3)
    info_m = []
    for mname, m in sorted(repo.modules.items()):
        gating = mname in _STORE_MODS
        if not gating and "urlencode" not in m.text:
            continue
        enc = H.imported_as(m, "urllib.parse", "urlencode") | {"urlencode"}
        req = H.imported_as(m, "urllib.request", "Request") | {"Request"}
        splitters = {"urlsplit", "urlparse", "urlunsplit", "urlunparse", "urljoin"}
        for q, f in m.functions():
            for c in own_nodes(f):
                if not (isinstance(c, ast.Call) and ((isinstance(c.func, ast.Name) and c.func.id in req) or (isinstance(c.func, ast.Attribute) and c.func.attr == "Request"))):
                    continue
                url = c.args[0] if c.args else next((k.value for k in c.keywords if k.arg == "url"), None)
                if url is None:
                    continue
                sl = H.backward_slice(url, f, m)
                has_enc = any(isinstance(x, ast.Call) and ((isinstance(x.func, ast.Name) and x.func.id in enc) or (isinstance(x.func, ast.Attribute) and x.func.attr == "urlencode")) for x in sl)
                if not has_enc:
                    continue  # no parameters in the address (they travel in the body)
                tested = any(
                    (isinstance(x, ast.Compare) and any(isinstance(o, (ast.In, ast.NotIn)) for o in x.ops) and isinstance(x.left, ast.Constant) and isinstance(x.left.value, str) and "?" in x.left.value)
                    or (isinstance(x, ast.Call) and isinstance(x.func, ast.Attribute) and x.func.attr in ("find", "rfind", "index", "count", "partition", "rpartition", "split", "endswith")
                        and any(isinstance(a, ast.Constant) and isinstance(a.value, str) and "?" in a.value for a in x.args))
                    or (isinstance(x, ast.Call) and ((isinstance(x.func, ast.Name) and x.func.id in splitters) or (isinstance(x.func, ast.Attribute) and x.func.attr in splitters)))
                    for x in sl)
                if gating:
                    rep.analysed("%s:%s" % (m.rel, q))
                    rep.ob("C20.m-endpoint-query-string-kept", m, q, c, tested,
                           "separator chosen after looking for an existing query string" if tested else
                           "the parameters are appended to the endpoint address with a fixed separator: when the address already has a query string "
                           "(http://host/sparql?apikey=k) the protocol parameters (query, default-graph-uri, using-graph-uri) become part of its last value", node=c)
                elif not tested:
                    info_m.append("%s %s :: %s" % (m.rel, q, norm(c)[:100]))
    rep.info["C20.m-package-wide-fixed-separator (information, other properties' scope)"] = info_m

    # ------------------------------------------------------------------ (n) what triples() yields
    rep.rule("C20.n-triples-yield-context-iterator",
             "every Store implementation's triples()/triples_choices() yields pairs (triple, <iterator of contexts>): the second member is never None "
             "(Graph.quads / Dataset.__iter__ / ConjunctiveGraph.quads iterate it; SPARQLStore yielded None, so `for q in Dataset(store)` raised "
             "TypeError instead of listing the endpoint's quads)", floor=20)
    n_sparql = 0
    for full in sorted(repo.typed.subclasses("rdflib.store.Store")):
        mn, _, cn = full.rpartition(".")
        if mn not in repo.modules or not isinstance(repo.modules[mn].defs.get(cn), ast.ClassDef):
            continue
        sm = repo.modules[mn]
        for mname, f in sm.methods(cn).items():
            if mname not in ("triples", "triples_choices"):
                continue
            defs = H.local_defs(f)
            for y in own_nodes(f):
                if not (isinstance(y, ast.Yield) and isinstance(y.value, ast.Tuple) and len(y.value.elts) == 2):
                    continue
                second = y.value.elts[1]
                none = isinstance(second, ast.Constant) and second.value is None
                if isinstance(second, ast.Name) and second.id not in _fn_params(f):
                    ds = defs.get(second.id, [])
                    none = bool(ds) and all(v is not None and isinstance(v, ast.Constant) and v.value is None for _s, v in ds)
                if mn == _STORE_MODS[0]:
                    n_sparql += 1
                rep.analysed("%s:%s.%s" % (sm.rel, cn, mname))
                rep.ob("C20.n-triples-yield-context-iterator", sm, "%s.%s" % (cn, mname), y.value, not none,
                       "yields an iterable of contexts" if not none else
                       "yields None where the Store interface promises an iterator over the triple's contexts: quads() and iteration over a "
                       "Dataset/ConjunctiveGraph on this store raise TypeError ('NoneType' object is not iterable)", node=y)
    if n_sparql < 2:
        raise AnalysisError("SPARQLStore.triples no longer yields (triple, contexts) pairs that the rule can see")


def _upto(m, node: ast.AST, stop: ast.AST):
    for p in m.parents(node):
        if p is stop:
            return
        yield p


def _inside(m, node: ast.AST, container: ast.AST | None) -> bool:
    """is node inside the `if` statement `container` itself (either branch)?  Such a send is not 'after the statement'."""
    if not isinstance(container, ast.If):
        return False
    return any(node is x for st in container.orelse for x in ast.walk(st)) or any(node is x for st in container.body for x in ast.walk(st))


def _str_head(e: ast.AST) -> str | None:
    """leading constant text of a string-building expression"""
    if isinstance(e, ast.Constant) and isinstance(e.value, str):
        return e.value
    if isinstance(e, ast.BinOp) and isinstance(e.op, (ast.Mod, ast.Add)):
        return _str_head(e.left)
    if isinstance(e, ast.JoinedStr) and e.values:
        return _str_head(e.values[0])
    if isinstance(e, ast.Call) and isinstance(e.func, ast.Attribute) and e.func.attr == "format":
        return _str_head(e.func.value)
    return None


def _select_determinants(f: ast.AST) -> set[str] | None:
    """names read by the condition under which f's query text starts with SELECT rather than ASK (None: f has no such choice)"""

    def form(e: ast.AST) -> str | None:
        h = _str_head(e)
        if h is None:
            return None
        h = h.lstrip().upper()
        return "SELECT" if h.startswith("SELECT") else ("ASK" if h.startswith("ASK") else None)

    for n in own_nodes(f):
        pairs: list[tuple[ast.expr, set]] = []
        if isinstance(n, ast.If) and n.orelse:
            a = {norm(t): form(s.value) for s in n.body if isinstance(s, ast.Assign) for t in s.targets}
            b = {norm(t): form(s.value) for s in n.orelse if isinstance(s, ast.Assign) for t in s.targets}
            for k in set(a) & set(b):
                pairs.append((n.test, {a[k], b[k]}))
        if isinstance(n, ast.IfExp):
            pairs.append((n.test, {form(n.body), form(n.orelse)}))
        for test, forms in pairs:
            if forms == {"SELECT", "ASK"}:
                return {x.id for x in ast.walk(test) if isinstance(x, ast.Name)}
    return None
