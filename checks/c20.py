"""C20 - SPARQLStore / SPARQLUpdateStore: queue and flush discipline (DESIGN.md §2 C20)."""
from __future__ import annotations

import ast

from vlib import truthy
from vlib.cfg import CFG
from vlib.core import AnalysisError, Repo, Report, norm, own_nodes

EXPLANATION = (
    "Rules over rdflib/plugins/stores/sparqlstore.py and sparqlconnector.py: (a) every read of SPARQLUpdateStore "
    "that reaches the connector's query is an override that flushes pending edits first unless dirty reads are "
    "allowed; (b) every write enqueues unconditionally on the live queue and commits exactly when autocommit is on, "
    "the connector's update() is reached only from commit, commit sends the queue in list order and clears it, rollback only clears; "
    "(c) pattern wildcards are tested by identity (a falsy literal is a bound term); (d) per-request argument "
    "dicts are deep copies of the connector's shared kwargs before nested entries are mutated. Whether the "
    "generated SPARQL text means the intended pattern at a real endpoint is not decided (needs an evaluator)."
)


def _self_calls(fn: ast.AST) -> list[ast.Call]:
    return [n for n in own_nodes(fn, include_nested=True) if isinstance(n, ast.Call) and isinstance(n.func, ast.Attribute)
            and isinstance(n.func.value, ast.Name) and n.func.value.id == "self"]


class _Cx:
    """what every rule section needs: the two store modules, the two classes and who does what in them (roles, by the flow of
    values from the public names - see vlib/h_c20.py StoreRoles)"""

    def __init__(self, repo: Repo, rep: Report):
        from vlib import h_c20 as H

        self.repo, self.rep, self.H = repo, rep, H
        self.mod = repo.mod(_STORE_MODS[0])
        self.con = repo.mod(_STORE_MODS[1])
        self.roles = H.StoreRoles(repo, self.mod)
        self.base = self.roles.base
        self.upd = self.roles.upd
        self.both = [("SPARQLStore", self.base), ("SPARQLUpdateStore", self.upd)]

    def all(self):
        return self.repo, self.rep, self.H, self.mod, self.con, self.base, self.upd, self.both, self.roles


class _Flush:
    """Where a method of SPARQLUpdateStore sends the queue, under an assumption on the store's switches (`env`: truth of
    `self.autocommit`, `self.dirty_reads`, `<queue attribute>` = edits are pending): a statement FLUSHES when it calls
    self.commit(), or a method of the store that - under the same assumption - cannot return normally without having done so
    (whatever it is called and however its test is written: guard clause, negated disjunction, nested ifs)."""

    def __init__(self, cx: _Cx, env: dict):
        self.cx, self.env = cx, env
        self._always: dict[int, bool] = {}
        self._may: dict[int, bool] = {}

    def env_for(self, fn: ast.AST) -> dict:
        # an assumption about an attribute does not outlive an assignment to it
        stored = {norm(n) for n in own_nodes(fn, include_nested=True) if isinstance(n, ast.Attribute) and isinstance(n.ctx, (ast.Store, ast.Del))}
        return {k: v for k, v in self.env.items() if k not in stored}

    def _self_call(self, c: ast.Call) -> str | None:
        f = c.func
        return f.attr if isinstance(f, ast.Attribute) and isinstance(f.value, ast.Name) and f.value.id == "self" else None

    def nodes(self, fn: ast.AST, g: CFG, must: bool, busy: frozenset = frozenset()) -> set[int]:
        H = self.cx.H
        out: set[int] = set()
        for nd in g.nodes:
            if nd.ast is None or nd.kind in ("entry", "exit", "raise", "handler", "def"):
                continue
            calls = list(H.unconditional_calls(nd.ast)) if must else [c for h in H.head_exprs(nd.ast) for c in ast.walk(h) if isinstance(c, ast.Call)]
            for c in calls:
                nm = self._self_call(c)
                if nm is None:
                    continue
                if nm == "commit":
                    out.add(nd.id)
                    continue
                r = self.cx.roles.scope_upd.resolve(nm)
                if r is not None and id(r[1]) not in busy and (self.always(r[1], busy) if must else self.may(r[1], busy)):
                    out.add(nd.id)
        return out

    def always(self, fn: ast.AST, busy: frozenset = frozenset()) -> bool:
        """under the assumption, fn cannot return normally without having flushed"""
        if id(fn) not in self._always:
            g = CFG(fn)
            fl = self.nodes(fn, g, True, busy | {id(fn)})
            self._always[id(fn)] = g.exit not in self.cx.H.feasible_reach(g, g.entry, fl, self.env_for(fn))
        return self._always[id(fn)]

    def may(self, fn: ast.AST, busy: frozenset = frozenset()) -> bool:
        """under the assumption, some feasible path through fn flushes"""
        if id(fn) not in self._may:
            g = CFG(fn)
            fl = self.nodes(fn, g, False, busy | {id(fn)})
            self._may[id(fn)] = bool(fl & ({g.entry} | self.cx.H.feasible_reach(g, g.entry, (), self.env_for(fn))))
        return self._may[id(fn)]


def _rule_a(cx: _Cx) -> None:
    repo, rep, H, mod, con, base, upd, both, roles = cx.all()
    for m in base:
        rep.analysed("rdflib/plugins/stores/sparqlstore.py:SPARQLStore." + m)
    for m in upd:
        rep.analysed("rdflib/plugins/stores/sparqlstore.py:SPARQLUpdateStore." + m)

    # ------------------------------------------------------------------ (a)
    rep.rule("C20.a-flush-before-read",
             "every SPARQLStore method that sends a query to the endpoint (reaches the connector's query(), itself or through a private "
             "method) is overridden in SPARQLUpdateStore by a method in which, with autocommit and dirty_reads both off and edits pending, "
             "every path to the delegation to the base implementation has called self.commit() - in the method or in a method of the store "
             "it calls that cannot return without having done so - and in which, with autocommit off and dirty reads allowed, no path calls it "
             "(`if not self.autocommit and not self.dirty_reads: self.commit()`, or any equivalent spelling of that test)", floor=4)
    readers = roles.carriers("query")
    direct = {m for m, f in base.items() if m not in readers and roles.sites(f, "SPARQLStore", "query")}
    if len(direct) < 4:
        raise AnalysisError("expected >= 4 SPARQLStore methods that reach the connector's query(), found %s" % sorted(direct))
    env = {"self.autocommit": False, "self.dirty_reads": False}
    try:
        env[roles.qattr] = True  # edits are pending (nothing has to be flushed otherwise)
    except AnalysisError:
        pass
    flush = _Flush(cx, env)
    # ... and with dirty reads allowed (autocommit off) a read sends nothing: what is pending stays for commit() / rollback()
    dirty = _Flush(cx, {"self.autocommit": False, "self.dirty_reads": True})
    for m in sorted(direct):
        f = upd.get(m)
        if f is None:
            rep.ob("C20.a-flush-before-read", mod, "SPARQLUpdateStore." + m, "override of SPARQLStore.%s" % m, False,
                   "SPARQLStore.%s queries the endpoint but SPARQLUpdateStore does not override it: queued edits are not visible to this read" % m,
                   node=base[m])
            continue
        g = CFG(f)
        deleg = [n for n in own_nodes(f) if isinstance(n, ast.Call) and (
            norm(n.func) == "SPARQLStore." + m or norm(n.func) == "super().%s" % m or norm(n.func) == "super(SPARQLUpdateStore, self).%s" % m)]
        if not deleg:
            # the override may implement the read itself
            deleg = roles.sites(f, "SPARQLUpdateStore", "query")
        if not deleg:
            rep.ob("C20.a-flush-before-read", mod, "SPARQLUpdateStore." + m, "delegation to SPARQLStore.%s" % m, False,
                   "override neither delegates to the base read nor queries", node=f)
            continue
        def judge(fn: ast.AST, gg: CFG, calls: list) -> tuple[dict[int, bool], str | None]:
            """per call of `calls` in fn: has every feasible path to it flushed (switches off, edits pending); and the first statement of fn
            that flushes although dirty reads are allowed, if there is one"""
            fl = flush.nodes(fn, gg, True, frozenset({id(fn)}))
            unflushed = {gg.entry} | H.feasible_reach(gg, gg.entry, fl, flush.env_for(fn))
            early = dirty.nodes(fn, gg, False, frozenset({id(fn)})) & ({gg.entry} | H.feasible_reach(gg, gg.entry, (), dirty.env_for(fn)))
            res = {}
            for d_ in calls:
                dn = gg.node_of(d_, mod)
                res[id(d_)] = bool(fl) and dn not in unflushed and dn not in fl
            return res, (norm(gg.nodes[sorted(early)[0]].ast)[:60] if early else None)

        inner, early_txt = judge(f, g, deleg)
        # a method defined under a decorator of this module that returns a closure around it IS that closure: what the closure does before
        # it calls the function it was given happens before the method's own body, on every call
        outer_all = False
        for w, rname in H.wrapping_closures(mod, f):
            wcalls = [c for c in own_nodes(w) if isinstance(c, ast.Call) and isinstance(c.func, ast.Name) and c.func.id == rname]
            if not wcalls:
                continue
            wres, wearly = judge(w, CFG(w), wcalls)
            outer_all = outer_all or all(wres.values())
            early_txt = early_txt or wearly
        for d in deleg:
            flushed = inner[id(d)] or outer_all
            ok = flushed and early_txt is None
            rep.ob("C20.a-flush-before-read", mod, "SPARQLUpdateStore." + m, d, ok,
                   "with autocommit and dirty reads off, every path to the read has flushed the pending edits; with dirty reads on, none does" if ok else
                   ("the read reaches the endpoint on a path that does not pass `if not self.autocommit and not self.dirty_reads: self.commit()`" if not flushed else
                    "with autocommit off and dirty reads allowed the read still sends the pending edits (%s): they are at the endpoint before commit() "
                    "and rollback() cannot discard them" % early_txt), node=d)
    # derived reads must go through self.<direct read> (dynamic dispatch to the flushing override)
    for m, f in list(base.items()) + list(upd.items()):
        if m in direct or m.startswith("_") or m in ("query",):
            continue
        for c in [n for n in own_nodes(f, include_nested=True) if isinstance(n, ast.Call)]:
            if norm(c.func).startswith("SPARQLStore.") and norm(c.func).split(".", 1)[1] in direct and m not in direct:
                rep.ob("C20.a-flush-before-read", mod, m, c, False,
                       "calls the base read directly, bypassing the flushing override", node=c)


def _rule_b(cx: _Cx) -> None:
    repo, rep, H, mod, con, base, upd, both, roles = cx.all()
    # ------------------------------------------------------------------ (b)
    rep.rule("C20.b-enqueue-discipline",
             "every write method of SPARQLUpdateStore appends/extends the live queue (the attribute commit() sends, or the result of the "
             "private method that returns it) on every normal path (never conditionally on the queue's content); after that, with autocommit on "
             "every path commits and with autocommit off none does; the connector's update() is reached only from commit; commit sends the "
             "queue joined in list order and clears it afterwards; rollback only clears the queue", floor=10)
    qattr = roles.qattr
    accessors = roles.accessors()
    special = set(accessors) | {"commit", "rollback", "__init__"}
    writers = [m for m, f in upd.items() if m not in special and (
        roles.enqueues(f) or any(c.func.attr in accessors for c in H.self_calls(f)))]
    if len(writers) < 4:
        raise AnalysisError("expected >= 4 writer methods that add to the queue of pending updates, found %s" % writers)
    on, off = _Flush(cx, {"self.autocommit": True}), _Flush(cx, {"self.autocommit": False})
    for m in writers:
        f = upd[m]
        g = CFG(f)
        enq = roles.enqueues(f)
        if not enq:
            rep.ob("C20.b-enqueue-discipline", mod, "SPARQLUpdateStore." + m, "<queue>.append(...)", False,
                   "writer does not enqueue through append/extend", node=f)
            continue
        enodes = {g.node_of(e, mod) for e in enq}
        allpaths = g.exit not in g.reach(g.entry, avoid=enodes)
        rep.ob("C20.b-enqueue-discipline", mod, "SPARQLUpdateStore." + m, enq[0], allpaths,
               "every normal path through %s enqueues its edit" % m if allpaths else
               "a normal path through %s returns without enqueuing (the edit is dropped, e.g. de-duplicated against the queue): writes no longer reach the endpoint in order" % m,
               node=enq[0])
        must = on.nodes(f, g, True, frozenset({id(f)}))
        committed = bool(must) and all(g.exit not in H.feasible_reach(g, e, must, on.env_for(f)) for e in enodes)
        early = off.nodes(f, g, False, frozenset({id(f)}))
        kept = not any(early & H.feasible_reach(g, e, (), off.env_for(f)) for e in enodes)
        ok = committed and kept
        rep.ob("C20.b-enqueue-discipline", mod, "SPARQLUpdateStore." + m, "if self.autocommit: self.commit() after the enqueue", ok,
               "with autocommit on the flush follows the enqueue on every path, with autocommit off on none" if ok else
               ("with autocommit on, %s can return without committing its edit" % m if not committed else
                "with autocommit off, %s sends the queue itself: the edit reaches the endpoint before commit() and rollback() cannot discard it" % m), node=f)
    # add_graph / remove_graph go through self.update
    for m in ("add_graph", "remove_graph"):
        f = upd.get(m)
        if f is None:
            raise AnalysisError("SPARQLUpdateStore.%s vanished" % m)
        bad = roles.sites(f, "SPARQLUpdateStore", "update") + roles.sites(f, "SPARQLUpdateStore", "query")
        rep.ob("C20.b-enqueue-discipline", mod, "SPARQLUpdateStore." + m, "graph management goes through self.update", not bad,
               "uses the queued update path" if not bad else "%s talks to the endpoint directly (%s), overtaking queued edits" % (m, norm(bad[0])), node=f)
    # the connector's update() is reached only from commit (private methods that carry the text there are judged where they are called)
    senders = roles.carriers("update")
    for m, f in upd.items():
        for c in roles.sites(f, "SPARQLUpdateStore", "update"):
            ok = m == "commit" or m in senders
            rep.ob("C20.b-enqueue-discipline", mod, "SPARQLUpdateStore." + m, c, ok,
                   ("commit is the only sender" if m == "commit" else "carries the text of its caller to the connector") if ok else
                   "%s sends an update directly, overtaking queued edits" % m, node=c)
    cm = upd.get("commit")
    rb = upd.get("rollback")
    if cm is None or rb is None:
        raise AnalysisError("commit/rollback vanished")
    sends = roles.sites(cm, "SPARQLUpdateStore", "update")
    if not sends:
        rep.ob("C20.b-enqueue-discipline", mod, "SPARQLUpdateStore.commit", "<send>(...)", False, "commit sends nothing", node=cm)
    for s in sends:
        arg = roles.sent_text(s)
        arg = H.resolve_local(arg, cm) if arg is not None else None
        # the queue itself, or a local name that holds it (taken before the queue attribute is re-bound)
        aliases = {norm(a.targets[0]) for a in own_nodes(cm) if isinstance(a, ast.Assign) and isinstance(a.targets[0], ast.Name) and norm(a.value) == qattr}
        for a in own_nodes(cm):
            if isinstance(a, ast.Assign) and isinstance(a.targets[0], ast.Name) and norm(a.targets[0]) in aliases and norm(a.value) != qattr:
                aliases.discard(norm(a.targets[0]))  # re-bound to something else
        ok = isinstance(arg, ast.Call) and isinstance(arg.func, ast.Attribute) and arg.func.attr == "join" and len(arg.args) == 1 \
            and (norm(arg.args[0]) == qattr or norm(arg.args[0]) in aliases)
        via_alias = ok and norm(arg.args[0]) in aliases
        rep.ob("C20.b-enqueue-discipline", mod, "SPARQLUpdateStore.commit", s, ok,
               "sends all queued edits joined in queue order" if ok else "commit does not send `<sep>.join(%s)` (order/multiplicity of queued edits may change): %s" % (qattr, norm(arg)[:80]), node=s)
        g = CFG(cm)
        clears = set()
        for nd in g.nodes:
            st = nd.ast
            if nd.kind == "stmt" and isinstance(st, ast.Assign) and any(norm(t) == qattr for t in st.targets) \
                    and (isinstance(st.value, ast.Constant) and st.value.value is None or isinstance(st.value, ast.List) and not st.value.elts):
                clears.add(nd.id)
        sn = g.node_of(s, mod)
        # (re-binding the attribute before the send does not change what is sent when the send reads the queue through a local name)
        ok = bool(clears) and g.must_pass_after(sn, clears) and (via_alias or not any(sn in g.reach(c) for c in clears))
        if via_alias:
            # the local name must have been taken before any clearing
            an = [g.node_of(a, mod) for a in own_nodes(cm) if isinstance(a, ast.Assign) and norm(a.targets[0]) == norm(arg.args[0])]
            ok = ok and all(g.must_pass_before(sn, {x}) for x in an) and not any(x in g.reach(c) for x in an for c in clears)
        rep.ob("C20.b-enqueue-discipline", mod, "SPARQLUpdateStore.commit", "queue cleared after sending", ok,
               "cleared after the send" if ok else "queue is not cleared on every path after sending (edits would be re-sent) or is cleared before", node=cm)
    rb_calls = [c for c in _self_calls(rb)]
    rb_sends = roles.sites(rb, "SPARQLUpdateStore", "update")
    rb_clears = [n for n in own_nodes(rb) if isinstance(n, ast.Assign) and any(norm(t) == qattr for t in n.targets)]
    ok = not rb_sends and not [c for c in rb_calls if c.func.attr in ("commit", "update")] and bool(rb_clears)
    rep.ob("C20.b-enqueue-discipline", mod, "SPARQLUpdateStore.rollback", "rollback only clears the queue", ok,
           "discards exactly the uncommitted edits" if ok else "rollback sends or fails to clear", node=rb)
    # the method the writers get the queue from returns the live queue object
    if not accessors and not any(norm(n) == qattr for m in writers for n in own_nodes(upd[m]) if isinstance(n, ast.Attribute)):
        raise AnalysisError("the writers of SPARQLUpdateStore neither append to the result of a private method nor to the queue attribute %s" % qattr)
    for nm, tr in sorted(accessors.items()):
        rets = [n for n in own_nodes(tr) if isinstance(n, ast.Return)]
        ok = bool(rets) and all(r.value is not None and norm(r.value) == qattr for r in rets)
        rep.ob("C20.b-enqueue-discipline", mod, "SPARQLUpdateStore." + nm, "returns the live queue %s" % qattr, ok,
               "" if ok else "%s returns %s (a copy would lose appended edits)" % (nm, [norm(r.value) for r in rets if r.value is not None]), node=tr)


def _rule_c(cx: _Cx) -> None:
    repo, rep, H, mod, con, base, upd, both, roles = cx.all()
    # ------------------------------------------------------------------ (c)
    rep.rule("C20.c-wildcards-by-identity",
             "in SPARQLStore/SPARQLUpdateStore a pattern position is replaced by a variable only when it `is None`; "
             "its truthiness is never consulted", floor=6)
    for cls, ms in (("SPARQLStore", base), ("SPARQLUpdateStore", upd)):
        for m, f in ms.items():
            truthy.scan(repo, rep, "C20.c-wildcards-by-identity", mod, f, "%s.%s" % (cls, m), require_optional=False)


def _rule_d(cx: _Cx) -> None:
    repo, rep, H, mod, con, base, upd, both, roles = cx.all()
    # ------------------------------------------------------------------ (d)
    rep.rule("C20.d-request-args-isolated",
             "in SPARQLConnector.query/update the per-request argument dict whose nested entries are mutated is a "
             "deep copy of the connector's shared kwargs (an alias or shallow copy would leak one request's "
             "default-graph / headers into later requests)", floor=2)
    cmeth = con.methods("SPARQLConnector")
    for m in ("query", "update"):
        f = cmeth.get(m)
        if f is None:
            raise AnalysisError("SPARQLConnector.%s vanished" % m)
        rep.analysed("rdflib/plugins/stores/sparqlconnector.py:SPARQLConnector." + m)
        origin: dict[str, tuple[str, ast.AST]] = {}
        for n in own_nodes(f):
            if isinstance(n, ast.Assign) and len(n.targets) == 1 and isinstance(n.targets[0], ast.Name):
                v = n.value
                shared = [a for a in ast.walk(v) if isinstance(a, ast.Attribute) and isinstance(a.value, ast.Name) and a.value.id == "self"
                          and not (isinstance(con.parent.get(id(a)), ast.Call) and con.parent.get(id(a)).func is a)]
                shared = [a for a in shared if a.attr in ("kwargs",) or a.attr.startswith("_kw")]
                if not shared:
                    continue
                if isinstance(v, ast.Call) and norm(v.func) in ("copy.deepcopy", "deepcopy"):
                    origin[n.targets[0].id] = ("deep", n)
                elif isinstance(v, ast.Attribute):
                    origin[n.targets[0].id] = ("alias", n)
                else:
                    origin[n.targets[0].id] = ("shallow", n)
        if not origin:
            raise AnalysisError("SPARQLConnector.%s: per-request copy of self.kwargs not found" % m)
        for nm, (kind, st) in origin.items():
            nested = []
            for n in own_nodes(f):
                # NAME[k].update/append/extend/setdefault(...), NAME[k][j] = v
                if isinstance(n, ast.Call) and isinstance(n.func, ast.Attribute) and n.func.attr in ("update", "append", "extend", "setdefault", "pop", "clear") \
                        and isinstance(n.func.value, ast.Subscript) and norm(n.func.value.value) == nm:
                    nested.append(n)
                if isinstance(n, ast.Assign) and any(isinstance(t, ast.Subscript) and isinstance(t.value, ast.Subscript) and norm(t.value.value) == nm for t in n.targets):
                    nested.append(n)
                if kind == "alias" and isinstance(n, ast.Call) and isinstance(n.func, ast.Attribute) and n.func.attr in ("update", "setdefault", "pop", "clear") and norm(n.func.value) == nm:
                    nested.append(n)
            ok = kind == "deep" or not nested
            rep.ob("C20.d-request-args-isolated", con, "SPARQLConnector." + m, st, ok,
                   "%s copy of the shared kwargs; %d nested mutation(s)" % (kind, len(nested)) if ok else
                   "%s is a %s of self.kwargs and its nested dict is mutated (%s): the change persists into later requests" % (nm, kind, norm(nested[0])[:60]), node=st)


def _rule_e(cx: _Cx) -> None:
    repo, rep, H, mod, con, base, upd, both, roles = cx.all()
    # ------------------------------------------------------------------ (e)
    rep.rule("C20.e-no-stale-loop-variable",
             "inside a loop of a SPARQLStore/SPARQLUpdateStore method, no name is read that is bound only as the target of an earlier, already "
             "finished loop of the same function (it would hold that loop's last element for every iteration - e.g. every batch sent to one graph)", floor=1)
    from vlib.loops import names as _names

    for cls, ms in (("SPARQLStore", base), ("SPARQLUpdateStore", upd)):
        for m, f in ms.items():
            top = [n for n in f.body]
            loops_ = [n for n in own_nodes(f) if isinstance(n, ast.For)]
            if len(loops_) < 2:
                continue
            params = {a.arg for a in f.args.args}
            for i, l2 in enumerate(sorted(loops_, key=lambda n: n.lineno)):
                inner = {id(x) for x in ast.walk(l2)}
                earlier = [l1 for l1 in loops_ if l1.lineno < l2.lineno and id(l2) not in {id(x) for x in ast.walk(l1)}]
                if not earlier:
                    continue
                bound_elsewhere = set(params)
                for n in own_nodes(f):
                    if isinstance(n, ast.Name) and isinstance(n.ctx, ast.Store):
                        # bound by something that is not an earlier loop's target
                        owner_loop = None
                        for l1 in earlier:
                            if any(n is x for x in ast.walk(l1.target)):
                                owner_loop = l1
                        if owner_loop is None:
                            bound_elsewhere.add(n.id)
                stale = set()
                for l1 in earlier:
                    for nm in _names(l1.target, ast.Store):
                        if nm in bound_elsewhere:
                            continue
                        reads = [x for x in ast.walk(l2) if isinstance(x, ast.Name) and x.id == nm and isinstance(x.ctx, ast.Load)]
                        # comprehension-local rebinding inside l2 hides it
                        if reads and nm not in _names(l2.target, ast.Store):
                            stale.add(nm)
                rep.ob("C20.e-no-stale-loop-variable", mod, "%s.%s" % (cls, m), "for %s in %s" % (norm(l2.target), norm(l2.iter)[:40]), not stale,
                       "uses its own loop variables" if not stale else "the loop reads %s, which is only bound by an earlier loop that has finished: every iteration sees that loop's last element" % sorted(stale), node=l2)


def _rule_f(cx: _Cx) -> None:
    repo, rep, H, mod, con, base, upd, both, roles = cx.all()
    # ------------------------------------------------------------------ (f) result decoding (anchored: results/jsonresults.py, xmlresults.py)
    from checks.c16 import json_memo_rule

    json_memo_rule(repo, rep, "C20.f-json-result-terms-parsed-individually")


# ======================================================================================================================
# second layer: the text that is sent (update rewriting, graph designators, paging, request address), what a failed
# autocommit write leaves behind, and the shape of what triples() yields
# ======================================================================================================================
from vlib.core import layer as _layer  # noqa: E402

_STORE_MODS = ("rdflib.plugins.stores.sparqlstore", "rdflib.plugins.stores.sparqlconnector")


def _fn_params(fn: ast.AST) -> set[str]:
    a = fn.args  # type: ignore[attr-defined]
    return {x.arg for x in a.posonlyargs + a.args + a.kwonlyargs + ([a.vararg] if a.vararg else []) + ([a.kwarg] if a.kwarg else [])}


def _pattern_names(m) -> set[str]:
    """names bound to re.compile(...) in the module body or a class body"""
    from vlib import h_c20 as H

    out = set()
    for n in ast.walk(m.tree):
        if isinstance(n, ast.Assign) and H.is_re_compile(n.value):
            for t in n.targets:
                if isinstance(t, ast.Name):
                    out.add(t.id)
                elif isinstance(t, ast.Attribute):
                    out.add(t.attr)
    return out


def _regex_sub_calls(repo: Repo, m, fn: ast.AST):
    """(call, replacement argument) of every regular-expression substitution in fn: re.sub/subn(p, repl, s) and
    <compiled pattern>.sub/subn(repl, s), the receiver being recognised by its binding to re.compile or by its type"""
    pats = _pattern_names(m)
    for n in own_nodes(fn, include_nested=True):
        if not (isinstance(n, ast.Call) and isinstance(n.func, ast.Attribute) and n.func.attr in ("sub", "subn")):
            continue
        recv = n.func.value
        kw = next((k.value for k in n.keywords if k.arg == "repl"), None)
        if isinstance(recv, ast.Name) and recv.id == "re":
            yield n, kw if kw is not None else (n.args[1] if len(n.args) > 1 else None)
            continue
        tf = repo.typed.type_of(m.name, recv)
        is_pat = (isinstance(recv, ast.Name) and recv.id in pats) or (isinstance(recv, ast.Attribute) and recv.attr in pats) \
            or (tf is not None and "Pattern" in tf.text)
        if is_pat:
            yield n, kw if kw is not None else (n.args[0] if n.args else None)


def _is_backslash_doubling(e: ast.AST) -> bool:
    return isinstance(e, ast.Call) and isinstance(e.func, ast.Attribute) and e.func.attr == "replace" and len(e.args) >= 2 \
        and isinstance(e.args[0], ast.Constant) and e.args[0].value in ("\\", b"\\") \
        and isinstance(e.args[1], ast.Constant) and e.args[1].value in ("\\\\", b"\\\\")


def _repl_kind(repo: Repo, m, fn: ast.AST, e: ast.AST | None, depth: int = 4) -> str:
    """'callable' | 'constant' | 'escaped' | 'dynamic' | 'unknown' for the replacement argument of a substitution"""
    from vlib import h_c20 as H

    if e is None:
        return "unknown"
    if isinstance(e, ast.Lambda):
        return "callable"
    if isinstance(e, ast.Constant):
        return "constant"
    if _is_backslash_doubling(e):
        return "escaped"
    if isinstance(e, ast.Name):
        defs = H.local_defs(fn).get(e.id, [])
        if defs and depth > 0:
            kinds = {_repl_kind(repo, m, fn, v, depth - 1) for _s, v in defs}
            for k in ("dynamic", "unknown", "escaped", "constant", "callable"):
                if k in kinds:
                    return k
        if any(isinstance(d, (ast.FunctionDef, ast.AsyncFunctionDef)) and d.name == e.id for d in ast.walk(m.tree)):
            return "callable"
    if isinstance(e, ast.BinOp) and isinstance(e.op, ast.Add):
        kinds = {_repl_kind(repo, m, fn, x, depth) for x in (e.left, e.right)}
        if kinds <= {"constant"}:
            return "constant"
        if kinds <= {"constant", "escaped"}:
            return "escaped"
        return "dynamic"
    if isinstance(e, (ast.BinOp, ast.JoinedStr)) or (isinstance(e, ast.Call) and isinstance(e.func, ast.Attribute) and e.func.attr in ("format", "join")) \
            or (isinstance(e, ast.Call) and isinstance(e.func, ast.Name) and e.func.id in ("str", "repr")):
        cls = m.qual_of(fn).rsplit(".", 1)[0] if "." in m.qual_of(fn) else None
        if H.StrEnv(m, cls if cls and isinstance(m.defs.get(cls), ast.ClassDef) else None).value(e) is not None:  # type: ignore[arg-type]
            return "constant"
        return "dynamic"
    tf = repo.typed.type_of(m.name, e)
    if tf is not None:
        if tf.text.startswith("def ") or "Callable" in tf.text:
            return "callable"
        if any(t in tf.text for t in ("str", "bytes", "Literal", "URIRef", "Identifier", "Node")):
            return "dynamic"
    return "unknown"


def _graph_polarity(test: ast.expr, x: str, dflt: set[str], preds: frozenset = frozenset({"_is_contextual"})) -> bool | None:
    """True: the test being true implies that the graph designator x is a named graph (not the dataset's default graph);
    False: the test being false implies it; None: the test decides nothing about x.  `preds`: the names of the store's
    default-graph predicate (see _default_graph_predicates)"""
    if isinstance(test, ast.Call) and isinstance(test.func, ast.Attribute) and test.func.attr in preds and test.args and norm(test.args[0]) == x:
        return True
    if isinstance(test, ast.Compare) and len(test.ops) == 1:
        sides = [test.left, test.comparators[0]]
        if any(norm(s) in (x, x + ".identifier") for s in sides) and any(isinstance(n, ast.Name) and n.id in dflt for s in sides for n in ast.walk(s)):
            if isinstance(test.ops[0], (ast.NotEq, ast.IsNot)):
                return True
            if isinstance(test.ops[0], (ast.Eq, ast.Is)):
                return False
        return None
    if isinstance(test, ast.UnaryOp) and isinstance(test.op, ast.Not):
        p = _graph_polarity(test.operand, x, dflt, preds)
        return None if p is None else (not p)
    if isinstance(test, ast.BoolOp):
        ps = [_graph_polarity(v, x, dflt, preds) for v in test.values]
        if isinstance(test.op, ast.And) and any(p is True for p in ps):
            return True
        if isinstance(test.op, ast.Or) and any(p is False for p in ps):
            return False
    return None


_EXPLANATION_2 = (
    " Second layer: (g) run-time text never is the replacement TEMPLATE of a regex substitution; (h) no alternative of the update "
    "tokeniser's ordered choice is shadowed by an earlier one; (i) a graph designator reaches the endpoint only under a test that it is "
    "not the dataset's default graph, and (j) that predicate compares with the default-graph identifier in every representation; (k) "
    "paging attributes are read only for the SELECT form; (l) under autocommit the queue is empty when the send can raise; (m) the "
    "request address keeps an endpoint's own query string; (n) every Store.triples yields an iterable of contexts.")


def _default_graph_names(cx: _Cx) -> set[str]:
    dflt = cx.H.imported_as(cx.mod, "graph", "DATASET_DEFAULT_GRAPH_ID")
    if not dflt:
        raise AnalysisError("sparqlstore no longer imports DATASET_DEFAULT_GRAPH_ID")
    return dflt


def _default_graph_predicates(cx: _Cx) -> dict[str, ast.FunctionDef]:
    """The store's predicate 'is this designator a named graph (GRAPH must be written)', by what it does: a private method
    of SPARQLStore that takes the designator as its only argument, answers on every return, and refers to the dataset's
    default-graph identifier (rule j decides whether it does so in every representation)"""
    dflt = _default_graph_names(cx)
    out = {}
    for nm, f in cx.base.items():
        rets = [r for r in own_nodes(f) if isinstance(r, ast.Return)]
        if cx.H.is_private(nm) and len(cx.H.params_of(f)) == 2 and rets and all(r.value is not None for r in rets) \
                and any(isinstance(x, ast.Name) and x.id in dflt for x in own_nodes(f)):
            out[nm] = f
    if not out:
        raise AnalysisError("SPARQLStore has no private one-argument method that refers to DATASET_DEFAULT_GRAPH_ID any more (the default-graph predicate)")
    return out


def _graph_wrappers(cx: _Cx) -> dict[str, tuple[ast.FunctionDef, str]]:
    """private methods of the store that render one of their parameters after the keyword GRAPH of a text they build (the
    rewriting of an update for a named graph): name -> (function, that parameter)"""
    import re

    H, mod = cx.H, cx.mod
    out: dict[str, tuple[ast.FunctionDef, str]] = {}
    flow = H.PackageFlow(cx.repo, mod)
    methods = [f for ms in (cx.base, cx.upd) for f in ms.values()]
    for scope in (cx.roles.scope_base, cx.roles.scope_upd):
        for nm, f in scope.own.items():
            if not H.is_private(nm):
                continue
            ps = H.params_of(f)[1:]
            # the text may be built by the method itself or by a function of the package (outside the classes) that the method
            # hands the parameter to: the value written after GRAPH is followed back to the parameters of the method
            for fr in flow.reached(H.Frame(mod, f), skip=methods):
                for _node, text, args in H.templates(fr.mod, fr.fn):
                    sp = H.placeholders(text)
                    for k, (a, _b) in enumerate(sp):
                        if not re.search(r"\bGRAPH\s*$", text[:a], re.I) or args is None or k >= len(args):
                            continue
                        for x, xfr in flow.root_names(args[k], fr):
                            if x.id in ps and not isinstance(xfr.mod.parent.get(id(x)), ast.Attribute):
                                out[nm] = (f, x.id)
    return out


def _rule_g(cx: _Cx) -> None:
    repo, rep, H, mod, con, base, upd, both, roles = cx.all()
    # ------------------------------------------------------------------ (g) data never becomes a replacement template
    rep.rule("C20.g-substituted-text-is-literal",
             "in the SPARQL store modules, the replacement argument of a regular-expression substitution (re.sub / pattern.sub / subn) that "
             "carries run-time text is a function (or has its backslashes doubled): a replacement STRING is a template in which `\\\\`, `\\n`, "
             "`\\g<..>` are processed, so e.g. update(..., initBindings={'x': Literal('a\\\\nb')}) would send the literal with a real newline "
             "(a different term, or a syntax error for `\\\"`)", floor=1)
    info = []
    for mname, m in sorted(repo.modules.items()):
        gating = mname in _STORE_MODS
        if not gating and ".sub" not in m.text:
            continue
        for q, f in m.functions():
            if isinstance(m.parent.get(id(f)), (ast.FunctionDef, ast.AsyncFunctionDef)):
                continue  # nested functions are walked with their parent
            for call, repl in _regex_sub_calls(repo, m, f):
                kind = _repl_kind(repo, m, f, repl)
                if not gating:
                    if kind == "dynamic":
                        info.append("%s %s :: %s" % (m.rel, q, norm(call)[:100]))
                    continue
                if kind == "unknown":
                    raise AnalysisError("%s %s: cannot classify the replacement argument of %s" % (m.rel, q, norm(call)[:80]))
                rep.ob("C20.g-substituted-text-is-literal", m, q, call, kind != "dynamic",
                       "replacement is %s" % kind if kind != "dynamic" else
                       "run-time text is passed as the replacement template of a regular-expression substitution: its backslash escapes are "
                       "processed a second time, so a bound literal containing `\\` reaches the endpoint changed", node=call)
    rep.info["C20.g-package-wide-template-replacements (information, other properties' scope)"] = info


def _rule_h(cx: _Cx) -> None:
    repo, rep, H, mod, con, base, upd, both, roles = cx.all()
    # ------------------------------------------------------------------ (h) ordered alternations of the update tokeniser
    rep.rule("C20.h-no-shadowed-alternative",
             "in every regular expression the SPARQL store compiles, no alternative of the ordered choice at the end of the pattern is dead: an "
             "EARLIER alternative that can match a prefix of the text a LATER alternative must start with wins at every position where the later "
             "one could match (the short string form '...' before the long form '''...''' reads ''' as the empty string '' and then takes the "
             "braces inside the literal for block delimiters: update(\"INSERT DATA { <a> <b> '''}''' }\") on a named graph is mis-rewritten)", floor=9)
    n_pat = 0
    for m in (mod, con):
        for q, call, pat, flags in H.compiled_patterns(m):
            n_pat += 1
            alts = H.leaf_alternatives(H.parse_regex(pat, flags))
            for j in range(1, len(alts)):
                lit = H.literal_prefix(alts[j])
                if not lit:
                    continue
                shadow = [i for i in range(j) if H.match_ends(alts[i], lit, 0, flags)]
                rep.ob("C20.h-no-shadowed-alternative", m, q, "alternative %d (starts with %r) of %s" % (j + 1, lit, q), not shadow,
                       "no earlier alternative matches a prefix of %r" % lit if not shadow else
                       "alternative %d already matches a prefix of %r, the text alternative %d must start with: alternative %d can never be chosen "
                       "(e.g. a long string literal is tokenised as an empty short one and its body is scanned for braces)" % (shadow[0] + 1, lit, j + 1, j + 1),
                       node=call)
    if n_pat < 3:
        raise AnalysisError("expected >= 3 compiled regular expressions in the SPARQL store modules, found %d" % n_pat)


def _rule_i(cx: _Cx) -> None:
    repo, rep, H, mod, con, base, upd, both, roles = cx.all()
    dflt = _default_graph_names(cx)
    # ------------------------------------------------------------------ (i) the default graph is never addressed by name
    rep.rule("C20.i-default-graph-never-named",
             "in SPARQLStore/SPARQLUpdateStore every place where a graph designator reaches the endpoint - `<g>.identifier` rendered into the text "
             "or passed on, the value of a `default_graph=` argument, the argument of a private method that writes it after the keyword GRAPH (the "
             "rewriting of an update for a named graph) - is control-dependent on a test that excludes the dataset's default graph for that same "
             "designator (the store's default-graph predicate - its private one-argument method that refers to DATASET_DEFAULT_GRAPH_ID - true, or `<g>.identifier` compared "
             "with DATASET_DEFAULT_GRAPH_ID), in the method itself or, for a parameter of a private helper, where the helper is called; counted "
             "per entry point of the class and place, whichever private helper holds the place: otherwise ds.addN([(s, p, o, ds.default_context)]) writes into a NAMED graph <urn:x-rdflib:default> "
             "that no read of the default graph sees", floor=9)
    preds = frozenset(_default_graph_predicates(cx))
    wrappers = _graph_wrappers(cx)

    def guarded(node: ast.AST, x: str, f: ast.AST) -> bool:
        for cond, kind in H.branch_of(mod, node, f):
            if kind == "test":
                continue
            pol = _graph_polarity(cond.test, x, dflt, preds)  # type: ignore[attr-defined]
            if (pol is True and kind == "body") or (pol is False and kind == "orelse"):
                return True
        return False

    def guarded_by_caller(x: str, f: ast.AST, fns: list, depth: int = 4) -> bool:
        """the designator is a parameter of a private helper, and EVERY call of the helper from the entry point or from the other
        helpers it reaches (`fns`, the entry point first) stands under such a test on the name that is passed for it - in the
        caller, or in turn where the caller is called"""
        # (a parameter that is re-bound to something made of itself - `g = self.node_to_sparql(g)` - still stands for the argument)
        if depth <= 0 or f is fns[0] or x not in H.params_of(f) or not all(
                v is not None and any(isinstance(n, ast.Name) and n.id == x for n in ast.walk(v)) for _s, v in H.local_defs(f).get(x, [])):
            return False
        calls = [(g, c) for g in fns for c in H.self_calls(g) if c.func.attr == f.name]  # type: ignore[attr-defined]
        if not calls:
            return False
        for g, c in calls:
            a = H.argument_for(f, c, x)
            if not isinstance(a, ast.Name) or not (guarded(c, a.id, g) or guarded_by_caller(a.id, g, fns, depth - 1)):
                return False
        return True

    # one obligation per (entry point of the class, place) - the place may be in a private helper the entry point reaches
    for cls, _ms in both:
        scope = roles.scope_base if cls == roles.base_cls else roles.scope_upd
        for entry, _owner, f, chain in scope.scopes():
            if f.name in preds:
                continue
            fns = [scope.own[entry]] + [hf for _c, _n, hf, _ch in scope.reached_helpers(scope.own[entry])]
            sinks: list[tuple[ast.AST, str]] = []
            seen_ids: set[int] = set()

            def add_sink(node: ast.AST, x: str) -> None:
                if id(node) not in seen_ids:
                    seen_ids.add(id(node))
                    sinks.append((node, x))

            for n in own_nodes(f, include_nested=True):
                if isinstance(n, ast.Attribute) and n.attr == "identifier" and isinstance(n.ctx, ast.Load) and isinstance(n.value, ast.Name) \
                        and n.value.id not in ("self", "cls") and not isinstance(mod.parent.get(id(n)), ast.Compare):
                    add_sink(n, n.value.id)
                if isinstance(n, ast.Call):
                    vals = [k.value for k in n.keywords if k.arg == "default_graph"]
                    if isinstance(n.func, ast.Attribute) and isinstance(n.func.value, ast.Name) and n.func.value.id == "self" and n.func.attr in wrappers:
                        wf, wp = wrappers[n.func.attr]
                        wa = H.argument_for(wf, n, wp)
                        vals += [wa] if wa is not None else []
                    for v in vals:
                        for x in ast.walk(v):
                            if isinstance(x, ast.Name) and isinstance(x.ctx, ast.Load) and x.id not in ("self", "cls") \
                                    and not (isinstance(mod.parent.get(id(x)), ast.Attribute)) \
                                    and not any(kind == "test" for _c, kind in H.branch_of(mod, x, n)) \
                                    and not any(isinstance(p, ast.Call) and p is not n for p in _upto(mod, x, n)):
                                add_sink(x, x.id)
            # a parameter written after the keyword GRAPH of a text built here (in a private method that does this for its callers
            # the parameter is judged where the method is called, above)
            if f.name not in wrappers:
                fparams = set(H.params_of(f)) - {"self", "cls"}
                for _tn, text, args in H.templates(mod, f):
                    for k, (a, _b) in enumerate(H.placeholders(text)):
                        if args is None or k >= len(args) or not _re.search(r"\bGRAPH\s*$", text[:a], _re.I):
                            continue
                        for x in H.backward_slice(args[k], f, mod):
                            if isinstance(x, ast.Name) and isinstance(x.ctx, ast.Load) and x.id in fparams and not isinstance(mod.parent.get(id(x)), ast.Attribute) \
                                    and not any(kind == "test" for _c, kind in H.branch_of(mod, x, f)):
                                add_sink(x, x.id)
            for node, x in sinks:
                ok = guarded(node, x, f) or guarded_by_caller(x, f, fns)
                rep.ob("C20.i-default-graph-never-named", mod, "%s.%s" % (cls, entry), node, ok,
                       "only reached for a graph other than the dataset's default graph" + H.via(chain) if ok else
                       "the graph designator %s reaches the endpoint%s without a test that it is not the dataset's default graph: the default graph is "
                       "addressed as a named graph <urn:x-rdflib:default> (reads of the default graph do not see what was written)" % (x, H.via(chain)), node=node)


def _rule_j(cx: _Cx) -> None:
    repo, rep, H, mod, con, base, upd, both, roles = cx.all()
    dflt = _default_graph_names(cx)
    # ------------------------------------------------------------------ (j) the default-graph predicate itself
    rep.rule("C20.j-default-graph-predicate-complete",
             "every return of SPARQLStore's default-graph predicate (its private one-argument method that refers to DATASET_DEFAULT_GRAPH_ID) "
             "that can answer True has compared the designator with DATASET_DEFAULT_GRAPH_ID - in "
             "each representation the predicate accepts (a Graph, or the identifier that Graph.query / Graph.update pass): otherwise "
             "Dataset(store).update('INSERT DATA {..}') is rewritten into GRAPH <urn:x-rdflib:default> {..} and Dataset.query reads that graph", floor=2)
    for pname, pred in sorted(_default_graph_predicates(cx).items()):
        rep.analysed("rdflib/plugins/stores/sparqlstore.py:SPARQLStore." + pname)
        gp = CFG(pred)
        for r in [n for n in own_nodes(pred) if isinstance(n, ast.Return)]:
            if r.value is None or (isinstance(r.value, ast.Constant) and r.value.value in (False, None)):
                continue
            ok = H.mentions(r.value, dflt, pred, mod)
            if not ok:
                # or every path to the return has passed a test against the default-graph identifier that left on the other branch
                tests = {gp.by_ast[id(n)] for n in own_nodes(pred) if isinstance(n, ast.If) and H.mentions(n.test, dflt, pred, mod)
                         and n.body and isinstance(n.body[-1], ast.Return) and id(n) in gp.by_ast}
                ok = bool(tests) and gp.must_pass_before(gp.node_of(r, mod), tests)
            rep.ob("C20.j-default-graph-predicate-complete", mod, "SPARQLStore." + pname, r, ok,
                   "answers after comparing with the default-graph identifier" if ok else
                   "this return answers True for a designator without comparing it with DATASET_DEFAULT_GRAPH_ID: the dataset's default graph, given in "
                   "this form, is treated as a named graph", node=r)


_PAGING = ("LIMIT", "OFFSET", "ORDER BY")


def _rule_k(cx: _Cx) -> None:
    repo, rep, H, mod, con, base, upd, both, roles = cx.all()
    # ------------------------------------------------------------------ (k) paging belongs to SELECT
    rep.rule("C20.k-paging-only-for-select",
             "in a method that chooses between a SELECT and an ASK form of its query, every read of the graph's paging attributes (LIMIT / OFFSET / "
             "ORDER BY via hasattr/getattr) depends on the condition that selected SELECT - by control (inside a branch of a test on it) or by "
             "data (read from a name that is None unless SELECT): an ASK has no solution variable to order by and a single solution to slice, so "
             "with g.LIMIT set `(s, p, o) in g` raised on None.n3() and with g.OFFSET = 1 a present triple is reported absent. One obligation per "
             "(object, paging attribute) read in such a method; each of LIMIT / OFFSET / ORDER BY must be read by one", floor=4)
    pconst = {nm: v.value for nm, v in H.StrEnv._assigns(mod.tree.body).items() if isinstance(v, ast.Constant) and v.value in _PAGING}
    n_forms = 0
    seen_attrs: set[str] = set()
    for cls, ms in both:
        for mname, f in ms.items():
            det = _select_determinants(f)
            if det is None:
                continue
            n_forms += 1
            where = "%s.%s" % (cls, mname)
            defs = H.local_defs(f)
            gated: set[str] = set()

            def dep(e: ast.AST) -> bool:
                return any(isinstance(x, ast.Name) and (x.id in det or x.id in gated) for x in ast.walk(e))

            def ctl(node: ast.AST) -> bool:
                child = node
                for p in mod.parents(node):
                    if isinstance(p, (ast.If, ast.While, ast.IfExp)) and child is not p.test and dep(p.test):
                        return True
                    if isinstance(p, ast.BoolOp) and isinstance(p.op, ast.And):
                        k = next(i for i, v in enumerate(p.values) if v is child)
                        if any(dep(v) for v in p.values[:k]):
                            return True
                    if p is f:
                        break
                    child = p
                return False

            changed = True
            while changed:
                changed = False
                for nm, ds in defs.items():
                    if nm in gated or nm in det or not ds:
                        continue
                    good = True
                    some = False
                    for st, v in ds:
                        if v is not None and isinstance(v, ast.Constant) and v.value is None:
                            continue
                        if v is not None and ((isinstance(v, ast.IfExp) and dep(v.test)) or (isinstance(v, ast.BoolOp) and isinstance(v.op, ast.And) and dep(v.values[0])) or ctl(st)):
                            some = True
                            continue
                        good = False
                    if good and some:
                        gated.add(nm)
                        changed = True
            # one obligation per (object, paging attribute) the method reads, discharged only if EVERY read of it is gated: `hasattr(x, A) and
            # getattr(x, A)` and `getattr(x, A, None)` are one read of the same thing, however many calls spell it
            reads: dict[tuple[str, str], list[tuple[ast.Call, bool]]] = {}
            for n in own_nodes(f):
                if isinstance(n, ast.Call) and isinstance(n.func, ast.Name) and n.func.id in ("hasattr", "getattr") and len(n.args) >= 2:
                    a1 = n.args[1]
                    attr = pconst.get(a1.id) if isinstance(a1, ast.Name) else (a1.value if isinstance(a1, ast.Constant) and a1.value in _PAGING else None)
                    if attr is None:
                        continue
                    ok = (isinstance(n.args[0], ast.Name) and n.args[0].id in gated) or ctl(n)
                    reads.setdefault((norm(n.args[0]), attr), []).append((n, ok))
            for (obj, attr), sites in sorted(reads.items()):
                seen_attrs.add(attr)
                bad = [n for n, ok in sites if not ok]
                ok = not bad
                n = bad[0] if bad else sites[0][0]
                rep.ob("C20.k-paging-only-for-select", mod, where, n, ok,
                       ("%s of %s read only when the query is a SELECT (%d read(s))" % (attr, obj, len(sites))) if ok else
                       "the paging attribute is read whatever the query form: a fully bound pattern (ASK) gets ORDER BY / LIMIT / OFFSET too "
                       "(None.n3() when there is no variable; OFFSET skips the only solution)", node=n)
    if not n_forms:
        raise AnalysisError("no SPARQLStore method chooses between SELECT and ASK any more")
    if n_forms and set(_PAGING) - seen_attrs:
        raise AnalysisError("no method that chooses between SELECT and ASK reads the paging attribute(s) %s of the graph any more - where paging is applied is not "
                            "recognised" % ", ".join(sorted(set(_PAGING) - seen_attrs)))


def _rule_l(cx: _Cx) -> None:
    repo, rep, H, mod, con, base, upd, both, roles = cx.all()
    # ------------------------------------------------------------------ (l) a rejected autocommit write is not kept queued
    qattr = roles.qattr  # the attribute whose elements commit() joins and sends
    senders = roles.carriers("update")
    rep.rule("C20.l-failed-autocommit-write-dropped",
             "in every SPARQLUpdateStore method that sends (reaches the connector's update()), on the autocommit path the queue is emptied BEFORE the send (or in an "
             "exception handler / finally around it): the send may raise (endpoint rejects the update), and an edit still queued then is "
             "re-sent in front of every later write, which fails again - after one rejected add() no later add() reaches the endpoint", floor=1)

    def is_clear(st: ast.AST) -> bool:
        return isinstance(st, ast.Assign) and any(norm(t) == qattr for t in st.targets) and (
            (isinstance(st.value, ast.Constant) and st.value.value is None) or (isinstance(st.value, (ast.List, ast.Tuple)) and not st.value.elts))

    def is_clear_call(st: ast.AST) -> bool:
        return isinstance(st, ast.Expr) and isinstance(st.value, ast.Call) and norm(st.value.func) in (qattr + ".clear", "self.rollback")

    for mname, f in upd.items():
        if mname in senders:
            continue  # a private method that carries its caller's text to the connector: judged where it is called
        sends = roles.sites(f, "SPARQLUpdateStore", "update")
        if not sends:
            continue
        g = CFG(f)
        before: set[int] = set()
        for n in own_nodes(f):
            if (is_clear(n) or is_clear_call(n)) and id(n) in g.by_ast:
                par = mod.parent.get(id(n))
                if par is f:
                    before.add(g.by_ast[id(n)])
                elif isinstance(par, ast.If) and any(n is s for s in par.body) and mod.parent.get(id(par)) is not None:
                    cj = {norm(v) for v in (par.test.values if isinstance(par.test, ast.BoolOp) and isinstance(par.test.op, ast.And) else [par.test])}
                    if cj == {"self.autocommit"}:
                        # the whole `if self.autocommit:` statement stands for "cleared when autocommit is on"
                        before.add(g.by_ast[id(par)])
        for s in sends:
            sn = g.node_of(s, mod)
            ok = any(g.must_pass_before(sn, {b}) and sn in g.reach(b) and not _inside(mod, s, g.nodes[b].ast) for b in before)
            if not ok:
                for p in mod.parents(s):
                    if isinstance(p, ast.Try) and any(s is x for st in p.body for x in ast.walk(st)):
                        hs = [st for h in p.handlers if h.type is None or norm(h.type) in ("Exception", "BaseException") for st in h.body] + list(p.finalbody)
                        if any(is_clear(x) or is_clear_call(x) for st in hs for x in ast.walk(st)):
                            ok = True
                    if p is f:
                        break
            rep.ob("C20.l-failed-autocommit-write-dropped", mod, "SPARQLUpdateStore." + mname, s, ok,
                   "with autocommit on the queue is already empty when the send can raise" if ok else
                   "with autocommit on, the queue is only emptied after the send: if the endpoint rejects the update the exception leaves the edit "
                   "queued and it is sent again, in front of every later write", node=s)


def _rule_m(cx: _Cx) -> None:
    repo, rep, H, mod, con, base, upd, both, roles = cx.all()
    # ------------------------------------------------------------------ (m) request address keeps the endpoint's own query string
    rep.rule("C20.m-endpoint-query-string-kept",
             "in the SPARQL connector every request whose address is built from urlencode()d parameters chooses the separator after testing "
             "whether the endpoint address already has a query string ('?' in <address>, or urlsplit/urlparse): with a fixed '?' an endpoint "
             "http://host/sparql?apikey=k gets ...?apikey=k?query=..., i.e. the query and default-graph-uri are swallowed by the value of apikey", floor=3)
    info_m = []
    for mname, m in sorted(repo.modules.items()):
        gating = mname in _STORE_MODS
        if not gating and "urlencode" not in m.text:
            continue
        enc = H.imported_as(m, "urllib.parse", "urlencode") | {"urlencode"}
        req = H.imported_as(m, "urllib.request", "Request") | {"Request"}
        splitters = {"urlsplit", "urlparse", "urlunsplit", "urlunparse", "urljoin"}
        for q, f in m.functions():
            for c in own_nodes(f):
                if not (isinstance(c, ast.Call) and ((isinstance(c.func, ast.Name) and c.func.id in req) or (isinstance(c.func, ast.Attribute) and c.func.attr == "Request"))):
                    continue
                url = c.args[0] if c.args else next((k.value for k in c.keywords if k.arg == "url"), None)
                if url is None:
                    continue
                sl = H.backward_slice(url, f, m)
                has_enc = any(isinstance(x, ast.Call) and ((isinstance(x.func, ast.Name) and x.func.id in enc) or (isinstance(x.func, ast.Attribute) and x.func.attr == "urlencode")) for x in sl)
                if not has_enc:
                    continue  # no parameters in the address (they travel in the body)
                tested = any(
                    (isinstance(x, ast.Compare) and any(isinstance(o, (ast.In, ast.NotIn)) for o in x.ops) and isinstance(x.left, ast.Constant) and isinstance(x.left.value, str) and "?" in x.left.value)
                    or (isinstance(x, ast.Call) and isinstance(x.func, ast.Attribute) and x.func.attr in ("find", "rfind", "index", "count", "partition", "rpartition", "split", "endswith")
                        and any(isinstance(a, ast.Constant) and isinstance(a.value, str) and "?" in a.value for a in x.args))
                    or (isinstance(x, ast.Call) and ((isinstance(x.func, ast.Name) and x.func.id in splitters) or (isinstance(x.func, ast.Attribute) and x.func.attr in splitters)))
                    for x in sl)
                if gating:
                    rep.analysed("%s:%s" % (m.rel, q))
                    rep.ob("C20.m-endpoint-query-string-kept", m, q, c, tested,
                           "separator chosen after looking for an existing query string" if tested else
                           "the parameters are appended to the endpoint address with a fixed separator: when the address already has a query string "
                           "(http://host/sparql?apikey=k) the protocol parameters (query, default-graph-uri, using-graph-uri) become part of its last value", node=c)
                elif not tested:
                    info_m.append("%s %s :: %s" % (m.rel, q, norm(c)[:100]))
    rep.info["C20.m-package-wide-fixed-separator (information, other properties' scope)"] = info_m


def _rule_n(cx: _Cx) -> None:
    repo, rep, H, mod, con, base, upd, both, roles = cx.all()
    # ------------------------------------------------------------------ (n) what triples() yields
    rep.rule("C20.n-triples-yield-context-iterator",
             "every Store implementation's triples()/triples_choices() yields pairs (triple, <iterator of contexts>): the second member is never None "
             "(Graph.quads / Dataset.__iter__ / ConjunctiveGraph.quads iterate it; SPARQLStore yielded None, so `for q in Dataset(store)` raised "
             "TypeError instead of listing the endpoint's quads)", floor=20)
    n_sparql = 0
    for full in sorted(repo.typed.subclasses("rdflib.store.Store")):
        mn, _, cn = full.rpartition(".")
        if mn not in repo.modules or not isinstance(repo.modules[mn].defs.get(cn), ast.ClassDef):
            continue
        sm = repo.modules[mn]
        for mname, f in sm.methods(cn).items():
            if mname not in ("triples", "triples_choices"):
                continue
            defs = H.local_defs(f)
            for y in own_nodes(f):
                if not (isinstance(y, ast.Yield) and isinstance(y.value, ast.Tuple) and len(y.value.elts) == 2):
                    continue
                second = y.value.elts[1]
                none = isinstance(second, ast.Constant) and second.value is None
                if isinstance(second, ast.Name) and second.id not in _fn_params(f):
                    ds = defs.get(second.id, [])
                    none = bool(ds) and all(v is not None and isinstance(v, ast.Constant) and v.value is None for _s, v in ds)
                if mn == _STORE_MODS[0]:
                    n_sparql += 1
                rep.analysed("%s:%s.%s" % (sm.rel, cn, mname))
                rep.ob("C20.n-triples-yield-context-iterator", sm, "%s.%s" % (cn, mname), y.value, not none,
                       "yields an iterable of contexts" if not none else
                       "yields None where the Store interface promises an iterator over the triple's contexts: quads() and iteration over a "
                       "Dataset/ConjunctiveGraph on this store raise TypeError ('NoneType' object is not iterable)", node=y)
    if n_sparql < 2:
        raise AnalysisError("SPARQLStore.triples no longer yields (triple, contexts) pairs that the rule can see")


def _upto(m, node: ast.AST, stop: ast.AST):
    for p in m.parents(node):
        if p is stop:
            return
        yield p


def _inside(m, node: ast.AST, container: ast.AST | None) -> bool:
    """is node inside the `if` statement `container` itself (either branch)?  Such a send is not 'after the statement'."""
    if not isinstance(container, ast.If):
        return False
    return any(node is x for st in container.orelse for x in ast.walk(st)) or any(node is x for st in container.body for x in ast.walk(st))


def _str_head(e: ast.AST) -> str | None:
    """leading constant text of a string-building expression"""
    if isinstance(e, ast.Constant) and isinstance(e.value, str):
        return e.value
    if isinstance(e, ast.BinOp) and isinstance(e.op, (ast.Mod, ast.Add)):
        return _str_head(e.left)
    if isinstance(e, ast.JoinedStr) and e.values:
        return _str_head(e.values[0])
    if isinstance(e, ast.Call) and isinstance(e.func, ast.Attribute) and e.func.attr == "format":
        return _str_head(e.func.value)
    return None


def _select_determinants(f: ast.AST) -> set[str] | None:
    """names read by the condition under which f's query text starts with SELECT rather than ASK (None: f has no such choice)"""

    def form(e: ast.AST) -> str | None:
        h = _str_head(e)
        if h is None:
            return None
        h = h.lstrip().upper()
        return "SELECT" if h.startswith("SELECT") else ("ASK" if h.startswith("ASK") else None)

    for n in own_nodes(f):
        pairs: list[tuple[ast.expr, set]] = []
        if isinstance(n, ast.If) and n.orelse:
            a = {norm(t): form(s.value) for s in n.body if isinstance(s, ast.Assign) for t in s.targets}
            b = {norm(t): form(s.value) for s in n.orelse if isinstance(s, ast.Assign) for t in s.targets}
            for k in set(a) & set(b):
                pairs.append((n.test, {a[k], b[k]}))
        if isinstance(n, ast.IfExp):
            pairs.append((n.test, {form(n.body), form(n.orelse)}))
        for test, forms in pairs:
            if forms == {"SELECT", "ASK"}:
                return {x.id for x in ast.walk(test) if isinstance(x, ast.Name)}
    return None


# ======================================================================================================================
# third layer: what the text that is sent says (projection, graph management, variable names, prefix declarations, the
# separator of queued updates, the two kinds of WHERE), which argument forms are accepted, what a result row is asked
# for, and that a context of the same store is not copied onto itself
# ======================================================================================================================

import re as _re  # noqa: E402

_SELECT_HEAD = _re.compile(r"\s*SELECT\s+(?P<mod>(?:DISTINCT|REDUCED)\s+)?(?P<proj>(?:[?$]\w+\s*)+)(?:WHERE\s*)?\{(?P<body>.*)$", _re.I | _re.S)
_MGMT_HEAD = _re.compile(r"\s*(?P<op>CREATE|DROP|CLEAR)\s+(?P<rest>(?:SILENT\s+)?(?:GRAPH|DEFAULT|NAMED|ALL)\b.*)$", _re.I | _re.S)
_VAR_SIGIL_END = _re.compile(r"[?$]$")


def _guarded_by_isinstance(m, node: ast.AST, f: ast.AST, name: str, classes: set[str]) -> bool:
    """is node evaluated only when `isinstance(name, <one of classes>)` holds (enclosing if / conditional expression)"""
    from vlib import h_c20 as H

    for cond, kind in H.branch_of(m, node, f):
        if kind == "test":
            continue
        t = H.isinstance_test(cond.test)  # type: ignore[attr-defined]
        if t is None or t[0] != name or not set(t[1]) <= classes:
            continue
        if (t[2] and kind == "body") or (not t[2] and kind == "orelse"):
            return True
    return False


def _store_identity_test(test: ast.AST, x: str) -> bool | None:
    """True: the test holds when <x>.store IS self.store; False: when it is NOT; None: the test says nothing about it"""
    pol = True
    while isinstance(test, ast.UnaryOp) and isinstance(test.op, ast.Not):
        test, pol = test.operand, not pol
    if isinstance(test, ast.Compare) and len(test.ops) == 1 and isinstance(test.ops[0], (ast.Is, ast.IsNot)):
        sides = {norm(test.left), norm(test.comparators[0])}
        if sides == {x + ".store", "self.store"}:
            return pol if isinstance(test.ops[0], ast.Is) else not pol
    return None


def _always_leaves(body: list[ast.stmt]) -> bool:
    return bool(body) and isinstance(body[-1], (ast.Return, ast.Raise, ast.Continue, ast.Break))


_EXPLANATION_3 = (
    " Third layer: (o) a result row is asked only for variables; (p) a SELECT that projects variables away says DISTINCT; (q) graph "
    "management on a named graph is SILENT; (r) variable names are written through Variable; (s) PREFIX declarations come from a mapping in "
    "which the call's namespaces override the store's; (t) a context graph of the same store is never copied onto itself; (u) queued text "
    "cannot end with the separator commit() joins with; (v) text is injected after `WHERE {` only once DELETE WHERE is expanded; (w) no "
    "declared argument form is asserted away.")


def _variable_names(cx: _Cx) -> set[str]:
    var_names = cx.H.imported_as(cx.mod, "term", "Variable")
    if not var_names:
        raise AnalysisError("sparqlstore no longer imports Variable")
    return var_names


def _rule_o(cx: _Cx) -> None:
    repo, rep, H, mod, con, base, upd, both, roles = cx.all()
    var_names = _variable_names(cx)
    # ------------------------------------------------------------------ (o) only variables are looked up in a result row
    rep.rule("C20.o-row-lookup-only-for-variables",
             "in SPARQLStore/SPARQLUpdateStore a term of the pattern is looked up in a row of the endpoint's answer (row.get(t) / row[t]) only where "
             "it is known to be a Variable (inside `isinstance(t, Variable)`, or bound to Variable(..) only): a bound term is a str as well, and "
             "ResultRow looks a str up as a variable NAME - g.triples((None, None, Literal('p'))) yielded the predicate in the object position", floor=3)
    def origins(e: ast.expr, fn: ast.AST) -> list[ast.expr]:
        """the expressions whose value `e` can be: the variable of the enclosing loop / comprehension over a display stands for each element of it"""
        if isinstance(e, ast.Name):
            for p_ in mod.parents(e):
                it = None
                if isinstance(p_, (ast.GeneratorExp, ast.ListComp, ast.SetComp, ast.DictComp)):
                    it = next((g_.iter for g_ in p_.generators if isinstance(g_.target, ast.Name) and g_.target.id == e.id), None)
                elif isinstance(p_, (ast.For, ast.AsyncFor)) and isinstance(p_.target, ast.Name) and p_.target.id == e.id:
                    it = p_.iter
                if it is not None:
                    if isinstance(it, (ast.Tuple, ast.List, ast.Set)) and it.elts and not any(isinstance(x, ast.Starred) for x in it.elts):
                        return list(it.elts)
                    break
                if p_ is fn:
                    break
        return [e]

    def callee_of(c: ast.Call, ms: dict) -> tuple[str, ast.AST, bool] | None:
        """the function of this module a call runs: a module-level function by name, a method of the same class through self"""
        if isinstance(c.func, ast.Name):
            d = mod.defs.get(c.func.id)
            return (c.func.id, d, False) if isinstance(d, (ast.FunctionDef, ast.AsyncFunctionDef)) else None
        if isinstance(c.func, ast.Attribute) and isinstance(c.func.value, ast.Name) and c.func.value.id == "self" and c.func.attr in ms:
            return (c.func.attr, ms[c.func.attr], True)
        return None

    def analyse(cls: str, ms: dict, where: str, f: ast.AST, rows: set[str], bound: dict[str, list[tuple[ast.expr, bool]]], depth: int) -> None:
        """rows: the names of f that hold a row of the answer; bound: for a parameter of f, what the callers pass (expression, is it known to
        be a Variable there)"""
        defs = H.local_defs(f)
        for n in own_nodes(f, include_nested=True):
            key = None
            if isinstance(n, ast.Call) and isinstance(n.func, ast.Attribute) and n.func.attr == "get" and isinstance(n.func.value, ast.Name) and n.func.value.id in rows and n.args:
                key = n.args[0]
            elif isinstance(n, ast.Subscript) and isinstance(n.value, ast.Name) and n.value.id in rows and isinstance(n.ctx, ast.Load):
                key = n.slice
            elif isinstance(n, ast.Call) and isinstance(n.func, ast.Name) and n.func.id == "getattr" and len(n.args) >= 2 and isinstance(n.args[0], ast.Name) and n.args[0].id in rows:
                key = n.args[1]
            if key is None or isinstance(key, ast.Constant):
                continue

            def known_variable(k: ast.expr, at: ast.AST) -> bool:
                if isinstance(k, ast.Name):
                    ds = defs.get(k.id, [])
                    return _guarded_by_isinstance(mod, at, f, k.id, var_names) or (
                        bool(ds) and all(v is not None and isinstance(v, ast.Call) and isinstance(v.func, ast.Name) and v.func.id in var_names for _s, v in ds))
                return isinstance(k, ast.Call) and isinstance(k.func, ast.Name) and k.func.id in var_names

            here = known_variable(key, n)
            # one obligation per value the key stands for: the arguments of the callers where the key is a parameter of a helper
            alts = bound.get(key.id) if isinstance(key, ast.Name) and not defs.get(key.id) else None
            for label, ok in ([(norm(e), here or kv) for e, kv in alts] if alts else [(None, here)]):
                rep.ob("C20.o-row-lookup-only-for-variables", mod, where, n, ok,
                       ("the key is a Variable here" if ok else
                        "a term that need not be a Variable is looked up in the result row: a bound term whose text is the name of one of the query's "
                        "variables (Literal('p'), URIRef('o')) is replaced by the value of that variable") + (" (key: %s)" % label if label else ""), node=n)
        if depth >= 3:
            return
        # a row handed to a function of this module is a row there
        for c in own_nodes(f, include_nested=True):
            if not (isinstance(c, ast.Call) and any(isinstance(a, ast.Name) and a.id in rows for a in list(c.args) + [k.value for k in c.keywords])):
                continue
            tgt = callee_of(c, ms)
            if tgt is None or tgt[1] is f or any(isinstance(a, ast.Starred) for a in c.args) or any(k.arg is None for k in c.keywords):
                continue
            nm, g, bound_self = tgt
            ps = [a.arg for a in g.args.posonlyargs + g.args.args]  # type: ignore[attr-defined]
            if bound_self and ps:
                ps = ps[1:]
            actual: dict[str, ast.expr] = dict(zip(ps, c.args))
            actual.update({k.arg: k.value for k in c.keywords if k.arg})
            rows_g = {p_ for p_, a in actual.items() if isinstance(a, ast.Name) and a.id in rows}
            bound_g: dict[str, list[tuple[ast.expr, bool]]] = {}
            for p_, a in actual.items():
                if p_ in rows_g:
                    continue
                outs: list[tuple[ast.expr, bool]] = []
                for e in origins(a, f):
                    if isinstance(e, ast.Name) and e.id in bound and not defs.get(e.id):
                        outs.extend(bound[e.id])
                    else:
                        ds = defs.get(e.id, []) if isinstance(e, ast.Name) else []
                        kv = (isinstance(e, ast.Name) and (_guarded_by_isinstance(mod, c, f, e.id, var_names) or (bool(ds) and all(
                            v is not None and isinstance(v, ast.Call) and isinstance(v.func, ast.Name) and v.func.id in var_names for _s, v in ds)))) or (
                            isinstance(e, ast.Call) and isinstance(e.func, ast.Name) and e.func.id in var_names)
                        outs.append((e, bool(kv)))
                bound_g[p_] = outs
            analyse(cls, ms, "%s (reached from %s)" % (nm, where), g, rows_g, bound_g, depth + 1)

    for cls, ms in both:
        for mname, f in ms.items():
            defs = H.local_defs(f)
            # the calls whose value is the endpoint's answer: the ones that reach the connector's query() and the store's own query()
            answers = {id(c) for c in roles.sites(f, cls, "query")} | {id(c) for c in own_nodes(f, include_nested=True) if isinstance(c, ast.Call)
                                                                      and norm(c.func) in ("self.query", "SPARQLStore.query")}
            res = {nm for nm, ds in defs.items() if any(v is not None and any(id(c) in answers for c in ast.walk(v)) for _s, v in ds)}
            rows: set[str] = set()
            for n in own_nodes(f, include_nested=True):
                if isinstance(n, (ast.For, ast.comprehension)) and isinstance(n.target, ast.Name) and any(
                        (isinstance(x, ast.Name) and x.id in res) or id(x) in answers for x in ast.walk(n.iter)):
                    rows.add(n.target.id)
            if rows:
                analyse(cls, ms, "%s.%s" % (cls, mname), f, rows, {}, 0)


def _rule_p(cx: _Cx) -> None:
    repo, rep, H, mod, con, base, upd, both, roles = cx.all()
    var_names = _variable_names(cx)
    # ------------------------------------------------------------------ (p) projecting variables away needs DISTINCT
    rep.rule("C20.p-projection-needs-distinct",
             "every SELECT text of SPARQLStore/SPARQLUpdateStore with a fixed list of projected variables whose pattern can bind a variable that is "
             "not projected (a ?var of the text, or a %s filled from an expression that can be a Variable(..)) says DISTINCT: the answers feed "
             "set-valued listings (contexts, triples), and without it there is one row per solution of the hidden variables - "
             "store.contexts((s, None, None)) listed a graph once per matching triple", floor=2)
    for cls, ms in both:
        for mname, f in ms.items():
            for node, text, args in H.templates(mod, f):
                mt = _SELECT_HEAD.match(text)
                if mt is None:
                    continue
                proj = set(_re.findall(r"[?$](\w+)", mt.group("proj")))
                body = mt.group("body")
                hidden = set(_re.findall(r"[?$](\w+)", body)) - proj
                n_before = len(H.placeholders(text[:mt.start("body")]))
                n_body = len(H.placeholders(body))
                may_var = False
                if n_body:
                    if args is None or len(args) < n_before + n_body:
                        may_var = True  # what is formatted in is not known: it may be a variable
                    else:
                        for a in args[n_before:n_before + n_body]:
                            sl = H.backward_slice(a, f, mod)
                            if H.calls_name(sl, var_names) or any(
                                    (tf := repo.typed.type_of(mod.name, x)) is not None and "Variable" in tf.text for x in sl if isinstance(x, ast.Name)):
                                may_var = True
                needs = bool(hidden) or may_var
                ok = not needs or (mt.group("mod") or "").strip().upper() == "DISTINCT"
                rep.ob("C20.p-projection-needs-distinct", mod, "%s.%s" % (cls, mname), node, ok,
                       ("DISTINCT" if needs else "every variable of the pattern is projected") if ok else
                       "the pattern can bind variables that are not projected (%s) and the SELECT is not DISTINCT: one row per solution of those, so the "
                       "same graph / term is listed several times" % (", ".join(sorted(hidden)) or "a wildcard of the pattern"), node=node)


def _rule_q(cx: _Cx) -> None:
    repo, rep, H, mod, con, base, upd, both, roles = cx.all()
    # ------------------------------------------------------------------ (q) graph management never fails on the state of the graph
    rep.rule("C20.q-graph-management-silent",
             "every CREATE / DROP / CLEAR text of the SPARQL store that addresses one named graph says SILENT (DEFAULT / NAMED / ALL cannot fail): "
             "without it the endpoint answers an error when the graph exists already (CREATE) or does not exist (DROP, CLEAR), whereas "
             "Store.add_graph / remove_graph have no effect then - Dataset(store).graph(id) of an existing graph raised HTTP 400, and with "
             "autocommit off it made the whole pending batch fail", floor=3)
    for cls, ms in both:
        for mname, f in ms.items():
            for node, text, _args in H.templates(mod, f):
                mt = _MGMT_HEAD.match(text)
                if mt is None:
                    continue
                rest = mt.group("rest").lstrip().upper()
                ok = rest.startswith("SILENT") or (mt.group("op").upper() != "CREATE" and rest.split(None, 1)[:1] in (["DEFAULT"], ["NAMED"], ["ALL"]))
                rep.ob("C20.q-graph-management-silent", mod, "%s.%s" % (cls, mname), node, ok,
                       "cannot fail on the existence of the graph" if ok else
                       "%s on a named graph without SILENT: an error at the endpoint when the graph %s, where a local store does nothing"
                       % (mt.group("op").upper(), "exists already" if mt.group("op").upper() == "CREATE" else "does not exist"), node=node)


def _rule_r(cx: _Cx) -> None:
    repo, rep, H, mod, con, base, upd, both, roles = cx.all()
    var_names = _variable_names(cx)
    # ------------------------------------------------------------------ (r) variable names are written by Variable
    rep.rule("C20.r-variable-names-through-Variable",
             "in SPARQLStore/SPARQLUpdateStore the name of a variable that comes from run-time data is written through Variable(name).n3(), which "
             "accepts 'x' and '?x' alike, never by putting '?' in front of it: the variable list of every VALUES block is built with Variable(..), "
             "and no text ends in '?' / '$' right before a formatted value - query(q, initBindings={'?s': x}), fine on a local graph, sent "
             "`VALUES ( ??s )`, a syntax error (counted per entry point of the class and text, whichever private helper builds the text)", floor=2)
    # one obligation per (entry point of the class, text) - the text may be built in a private helper the entry point reaches
    for cls, _ms in both:
        scope = roles.scope_base if cls == roles.base_cls else roles.scope_upd
        for entry, _owner, f, chain in scope.scopes():
            where = "%s.%s" % (cls, entry)
            for node, text, args in H.templates(mod, f):
                sp = H.placeholders(text)
                for k, (a, _b) in enumerate(sp):
                    if _VAR_SIGIL_END.search(text[:a]):
                        rep.ob("C20.r-variable-names-through-Variable", mod, where, node, False,
                               "a '?' is put in front of a formatted value: a name given as '?x' becomes '??x'", node=node)
                mt = _re.search(r"\bVALUES\s*\(\s*$", text[:sp[0][0]], _re.I) if sp else None
                if mt is None:
                    continue
                if not args:
                    raise AnalysisError("%s: the arguments of the VALUES template are not visible" % where)
                sl = H.backward_slice(args[0], f, mod)
                ok = H.calls_name(sl, var_names) and not any(isinstance(x, ast.Constant) and isinstance(x.value, str) and _VAR_SIGIL_END.search(x.value) for x in sl)
                rep.ob("C20.r-variable-names-through-Variable", mod, where, args[0], ok,
                       "names written by Variable(..)" + H.via(chain) if ok else
                       "the variable list of the VALUES block is not written through Variable(..): a binding name given with its '?' "
                       "(as Graph.query accepts it) becomes '??name', a syntax error at the endpoint", node=args[0])
            for n in own_nodes(f, include_nested=True):
                if isinstance(n, ast.BinOp) and isinstance(n.op, ast.Add) and isinstance(n.left, ast.Constant) and isinstance(n.left.value, str) \
                        and _VAR_SIGIL_END.search(n.left.value) and not isinstance(n.right, ast.Constant):
                    rep.ob("C20.r-variable-names-through-Variable", mod, where, n, False,
                           "a '?' is concatenated with a run-time name: a name given as '?x' becomes '??x'", node=n)


def _rule_s(cx: _Cx) -> None:
    repo, rep, H, mod, con, base, upd, both, roles = cx.all()
    # ------------------------------------------------------------------ (s) one declaration per prefix, the call's namespaces win
    rep.rule("C20.s-prefix-declared-once-call-wins",
             "where the SPARQL store writes PREFIX declarations in front of a query, the pairs come from a MAPPING (each prefix once), and when it "
             "merges the store's bindings with the ones given in the call (initNs) the call's come last: from a set / list of pairs both "
             "declarations of a prefix are written and the later one wins at the endpoint, so g.query(q, initNs={'ex': A}) on a store that binds "
             "ex: to B could be evaluated with B", floor=2)
    for cls, ms in both:
        for mname, f in ms.items():
            for node, text, args in H.templates(mod, f):
                if not _re.match(r"\s*PREFIX\b", text, _re.I) or not H.placeholders(text):
                    continue
                loop = next((g for p in mod.parents(node) if isinstance(p, (ast.ListComp, ast.GeneratorExp, ast.SetComp)) for g in p.generators), None) \
                    or next((p for p in mod.parents(node) if isinstance(p, ast.For)), None)
                where = "%s.%s" % (cls, mname)
                if loop is None:
                    raise AnalysisError("%s: PREFIX declaration is not written in a loop over the bindings" % where)
                it = loop.iter
                src = it.func.value if isinstance(it, ast.Call) and isinstance(it.func, ast.Attribute) and it.func.attr in ("items", "keys") and not it.args else it
                tf = repo.typed.type_of(mod.name, src)
                mapping = tf is not None and _re.match(r"(builtins\.|typing\.|collections\.(abc\.)?)?(dict|Mapping|MutableMapping|defaultdict|OrderedDict|ChainMap)\b", tf.text, _re.I) is not None
                vals = [v for _s, v in H.local_defs(f).get(src.id, [])] if isinstance(src, ast.Name) else [src]
                if tf is None:
                    mapping = bool(vals) and all(isinstance(v, (ast.Dict, ast.DictComp)) or (isinstance(v, ast.Call) and norm(v.func) in ("dict", "ChainMap", "collections.ChainMap")) for v in vals)
                rep.ob("C20.s-prefix-declared-once-call-wins", mod, where, it, mapping,
                       "declarations are written from a mapping: one per prefix" if mapping else
                       "the PREFIX declarations are written from %s, not from a mapping: a prefix bound in the store and given in the call is declared "
                       "twice and which namespace the endpoint uses depends on the order" % (tf.text if tf is not None else norm(src)), node=it)
                if not mapping:
                    continue
                params = _fn_params(f) - {"self", "cls"}
                for v in vals:
                    parts: list[ast.AST] = []
                    if isinstance(v, ast.Dict) and any(k is None for k in v.keys):
                        parts = [x for k, x in zip(v.keys, v.values) if k is None]
                    elif isinstance(v, ast.Call) and norm(v.func) == "dict" and v.args:
                        parts = list(v.args) + [k.value for k in v.keywords if k.arg is None]
                    elif isinstance(v, ast.Call) and norm(v.func).endswith("ChainMap"):
                        parts = list(reversed(v.args))  # the first map of a ChainMap wins
                    elif isinstance(v, ast.BinOp) and isinstance(v.op, ast.BitOr):
                        parts = [v.left, v.right]
                    if len(parts) < 2:
                        continue
                    own = [i for i, x in enumerate(parts) if any(isinstance(y, ast.Attribute) and isinstance(y.value, ast.Name) and y.value.id == "self" for y in ast.walk(x))]
                    given = [i for i, x in enumerate(parts) if any(isinstance(y, ast.Name) and y.id in params for y in ast.walk(x))]
                    if not own or not given:
                        continue
                    ok = max(own) < min(given)
                    rep.ob("C20.s-prefix-declared-once-call-wins", mod, where, v, ok,
                           "the namespaces given in the call override the store's" if ok else
                           "the store's bindings are merged in after the ones given in the call: initNs cannot override a prefix bound in the store", node=v)


def _rule_t(cx: _Cx) -> None:
    repo, rep, H, mod, con, base, upd, both, roles = cx.all()
    # ------------------------------------------------------------------ (t) a context of the same store is not copied onto itself
    gm = repo.mod("rdflib.graph")
    rep.rule("C20.t-no-copy-of-own-context",
             "in the Graph classes, where a method copies a Graph given as argument into a graph of its own store (`<own graph> += <argument>` / "
             "__iadd__), the copy is excluded for an argument whose .store IS self.store: copying a graph onto itself reads all of it and writes "
             "it again; on a SPARQLUpdateStore ds.add((s, p, o, ds.graph(g))) re-read the named graph and queued it as INSERT DATA, which "
             "brought back a triple removed earlier in the same transaction", floor=1)
    graph_classes = set(repo.typed.subclasses("rdflib.graph.Graph"))
    for q, f in gm.functions():
        cn = q.rsplit(".", 1)[0] if "." in q else None
        if cn is None or ("rdflib.graph." + cn) not in graph_classes:
            continue
        params = _fn_params(f) - {"self"}
        defs = H.local_defs(f)
        g = None
        for n in own_nodes(f):
            dst = srcx = None
            if isinstance(n, ast.AugAssign) and isinstance(n.op, ast.Add):
                dst, srcx = n.target, n.value
            elif isinstance(n, ast.Call) and isinstance(n.func, ast.Attribute) and n.func.attr == "__iadd__" and len(n.args) == 1:
                dst, srcx = n.func.value, n.args[0]
            if not (isinstance(dst, ast.Name) and isinstance(srcx, ast.Name) and srcx.id in params):
                continue
            td, ts = repo.typed.type_of(gm.name, dst), repo.typed.type_of(gm.name, srcx)
            if ts is None or "Graph" not in ts.text or (td is not None and "Graph" not in td.text):
                continue
            # the destination is a graph of this object's store: obtained from a method of self
            if not any(v is not None and any(isinstance(c, ast.Call) and isinstance(c.func, ast.Attribute) and isinstance(c.func.value, ast.Name) and c.func.value.id == "self"
                                             for c in ast.walk(v)) for _s, v in defs.get(dst.id, [])):
                continue
            g = g or CFG(f)
            ok = False
            for cond, kind in H.branch_of(gm, n, f):
                pol = _store_identity_test(cond.test, srcx.id) if kind != "test" else None  # type: ignore[attr-defined]
                if (pol is False and kind == "body") or (pol is True and kind == "orelse"):
                    ok = True
            if not ok:
                guards = {g.by_ast[id(i)] for i in own_nodes(f) if isinstance(i, ast.If) and id(i) in g.by_ast and _store_identity_test(i.test, srcx.id) is True
                          and _always_leaves(i.body) and not any(n is x for s_ in i.body for x in ast.walk(s_))}
                ok = bool(guards) and g.must_pass_before(g.node_of(n, gm), guards)
            if not ok:
                # the same clause read off all the tests on the way together: `isinstance(c, Graph) and c.store is self.store` leaving
                # first and the copy under a later `isinstance(c, Graph)` arm (an elif chain, a `match` with guards) excludes it as well
                ok = H.excluded_on_path(H.path_conditions(gm, n, f), lambda e, _x=srcx.id: _store_identity_test(e, _x), f)
            rep.analysed("rdflib/graph.py:" + q)
            rep.ob("C20.t-no-copy-of-own-context", gm, q, n, ok,
                   "not reached for a graph of this store" if ok else
                   "the argument graph is copied into this store's graph of the same name even when it IS that graph (same store): the whole graph is read "
                   "and written again - on a SPARQL endpoint with autocommit off this re-inserts triples removed earlier in the transaction", node=n)


def _rule_u(cx: _Cx) -> None:
    repo, rep, H, mod, con, base, upd, both, roles = cx.all()
    # ------------------------------------------------------------------ (u) queued text cannot end with the join separator
    sep = roles.separator()  # what commit() joins the queue with before it sends it
    if not isinstance(sep, str) or not sep.strip():
        raise AnalysisError("SPARQLUpdateStore.commit: the separator the queue is joined with is not a visible constant")
    sep = sep.strip()
    rep.rule("C20.u-queued-text-never-ends-with-separator",
             "commit() joins the queued updates with '%s'; every text a SPARQLUpdateStore method queues either ends with constant text of a "
             "template that does not end with that separator, or - where its end is the caller's text - is queued only after a statement that "
             "removes a trailing separator (`if t.endswith(sep): t = t[:-n]`, t.rstrip(..sep..), removesuffix, a substitution anchored at the end): "
             "otherwise update('... ;') followed by another write is sent as '; ;' with autocommit off and the whole transaction is rejected" % sep, floor=4)

    def strips_sep(st: ast.AST, name: str) -> bool:
        """does the statement remove a trailing separator from the text held by `name` (re-binding the name)"""
        def consts(e: ast.AST) -> list[str]:
            return [x.value for x in ast.walk(e) if isinstance(x, ast.Constant) and isinstance(x.value, str)]

        def rebinding(a: ast.AST) -> ast.expr | None:
            return a.value if isinstance(a, ast.Assign) and any(isinstance(t, ast.Name) and t.id == name for t in a.targets) else None

        if isinstance(st, ast.If):
            t = st.test
            test_ok = any(isinstance(c, ast.Call) and isinstance(c.func, ast.Attribute) and c.func.attr == "endswith" and norm(c.func.value) == name
                          and any(sep in s for s in consts(c)) for c in ast.walk(t))
            cut = any((v := rebinding(a)) is not None and isinstance(v, ast.Subscript) and norm(v.value) == name and isinstance(v.slice, ast.Slice) and v.slice.lower is None
                      and v.slice.upper is not None for a in st.body)
            return test_ok and cut
        v = rebinding(st)
        if v is None:
            return False
        if isinstance(v, ast.IfExp):
            return any(isinstance(c, ast.Call) and isinstance(c.func, ast.Attribute) and c.func.attr == "endswith" and any(sep in s for s in consts(c)) for c in ast.walk(v.test))
        if isinstance(v, ast.Call) and isinstance(v.func, ast.Attribute) and v.func.attr in ("rstrip", "removesuffix") and any(sep in s for s in consts(v)):
            return any(isinstance(x, ast.Name) and x.id == name for x in ast.walk(v.func.value))
        if isinstance(v, ast.Call) and isinstance(v.func, ast.Attribute) and v.func.attr in ("sub", "subn"):
            pats = consts(v) + [p[0] for p in [H.pattern_of_receiver(mod, v.func.value)] if p]
            return any(sep in p and (p.rstrip().endswith("$") or p.rstrip().endswith("\\Z")) for p in pats) and any(isinstance(x, ast.Name) and x.id == name for x in ast.walk(v))
        return False

    accessors = roles.accessors()
    for mname, f in upd.items():
        if mname in accessors:
            continue
        g = None
        for n in roles.enqueues(f):
            if isinstance(n, ast.Call) and len(n.args) == 1 and not n.keywords:
                arg = n.args[0]
            elif isinstance(n, ast.AugAssign):
                arg = n.value
            else:
                raise AnalysisError("SPARQLUpdateStore.%s adds to the queue in a form that is not modelled: %s" % (mname, norm(n)[:60]))
            tails = H.text_tails(arg, f, mod)
            where = "SPARQLUpdateStore." + mname
            if tails is not None:
                bad = [t for t in tails if t.rstrip().endswith(sep)]
                rep.ob("C20.u-queued-text-never-ends-with-separator", mod, where, n, not bad,
                       "ends with the constant text of its template" if not bad else "the queued template itself ends with the separator: %r" % bad[0][-20:], node=n)
                continue
            # the names whose text is queued here: the argument itself, or - where the argument is (a name bound once to) a display of names,
            # `q.extend([t])` for `q.append(t)` - each name of the display
            texts: list[str] = []
            shown = arg
            if isinstance(arg, ast.Name):
                ads = H.local_defs(f).get(arg.id, [])
                used_otherwise = any(isinstance(x, ast.Attribute) and isinstance(x.value, ast.Name) and x.value.id == arg.id for x in own_nodes(f))
                if len(ads) == 1 and isinstance(ads[0][1], (ast.List, ast.Tuple)) and not used_otherwise:
                    shown = ads[0][1]
                else:
                    texts = [arg.id]
            if isinstance(shown, (ast.List, ast.Tuple)) and shown.elts and all(isinstance(x, ast.Name) for x in shown.elts) and not (
                    isinstance(n, ast.Call) and isinstance(n.func, ast.Attribute) and n.func.attr == "append"):
                texts = [x.id for x in shown.elts]  # type: ignore[attr-defined]
            ok = bool(texts)
            for tname in texts:
                g = g or CFG(f)
                en = g.node_of(n, mod)
                one = False
                for st in own_nodes(f):
                    if id(st) in g.by_ast and strips_sep(st, tname):
                        sn = g.by_ast[id(st)]
                        inside = {id(x) for x in ast.walk(st)}
                        later = [a for a in own_nodes(f) if isinstance(a, (ast.Assign, ast.AugAssign, ast.AnnAssign)) and id(a) not in inside and id(a) in g.by_ast
                                 and any(isinstance(t, ast.Name) and t.id == tname for t in (a.targets if isinstance(a, ast.Assign) else [a.target]))
                                 and g.by_ast[id(a)] in g.reach(sn) and en in g.reach(g.by_ast[id(a)])]
                        if g.must_pass_before(en, {sn}) and not later:
                            one = True
                ok = ok and one
            rep.ob("C20.u-queued-text-never-ends-with-separator", mod, where, n, ok,
                   "a trailing separator is removed before the text is queued" if ok else
                   "the end of the queued text is the caller's, and nothing removes a trailing '%s' before it is queued: commit() joins it to the next "
                   "pending update with another '%s' (a syntax error: the whole transaction fails)" % (sep, sep), node=n)


def _rule_v(cx: _Cx) -> None:
    repo, rep, H, mod, con, base, upd, both, roles = cx.all()
    # ------------------------------------------------------------------ (v) WHERE { of the short form DELETE WHERE is a quad pattern
    rep.rule("C20.v-where-injection-after-delete-where-expansion",
             "a regular-expression substitution of the SPARQL store whose pattern finds `WHERE {` (it puts text - the VALUES block of initBindings - "
             "at the start of every WHERE group) - in a method of the store or in a function of the package the method hands the text to - either "
             "cannot match in `DELETE WHERE {`, or is applied to text that went through a function of the package (a method of the store, a "
             "function it passes the text and its patterns to) that applies a regular expression recognising the head `DELETE WHERE` (and not a "
             "plain `WHERE`), the expression being whatever its receiver evaluates to in the calling context: the braces of the short form "
             "enclose a quad pattern in which VALUES is a syntax error, so update('DELETE WHERE {?s ?p ?o}', initBindings={'s': x}) deleted nothing", floor=1)
    short_form, long_form = "DELETE WHERE {", "DELETE { ?s ?p ?o } WHERE {"
    # The store's methods may keep only the step that needs `self` and hand the text, and the compiled expressions they read
    # from self, to functions of the package (of this module or of another one): a regular expression is what the receiver
    # of .search/.sub/.. evaluates to IN THE CALLING CONTEXT (a constant of the module or class, a parameter -> the argument
    # passed, a name imported from a module of the package), a callee is whatever function of the package the call can
    # only run, and the text a substitution works on is followed back through parameters to the caller (H.PackageFlow).
    flow = H.PackageFlow(repo, mod)
    methods = [f for _cls, ms in both for f in ms.values()]

    def recognises_short_form(fr, seen: set) -> bool:
        """a regular expression that finds the head `DELETE WHERE` (and not a plain `WHERE`) is applied in the function of the
        frame, or in a function of the package it calls"""
        key = (id(fr.fn), id(fr.call))
        if key in seen:
            return False
        seen.add(key)
        for x in own_nodes(fr.fn, include_nested=True):
            if not isinstance(x, ast.Call):
                continue
            u = flow.regex_use(x, fr)
            if u is not None and H.sample_search(u[0], u[1], "DELETE WHERE ") and not H.sample_search(u[0], u[1], "} WHERE ") and not H.sample_search(u[0], u[1], "WHERE "):
                return True
            ch = flow.enter(x, fr)
            if ch is not None and recognises_short_form(ch, seen):
                return True
        return False

    for cls, ms in both:
        for mname, f in ms.items():
            # the method, and the functions of the package OUTSIDE the two classes it hands work to (a method of the classes
            # is looked at as itself, once)
            for fr in flow.reached(H.Frame(mod, f), skip=methods):
                for n in own_nodes(fr.fn, include_nested=True):
                    if not (isinstance(n, ast.Call) and isinstance(n.func, ast.Attribute) and n.func.attr in ("sub", "subn")):
                        continue
                    u = flow.regex_use(n, fr)
                    if u is None or not H.sample_search(u[0], u[1], long_form):
                        continue
                    if not _re.search(r"WHERE", u[0], _re.I):
                        continue  # finds the text by something else than the keyword (the block tokeniser)
                    subject = u[2]
                    ok = not H.sample_search(u[0], u[1], short_form)
                    if not ok and subject is not None:
                        for x, xfr in flow.slice_calls(subject, fr):
                            ch = flow.enter(x, xfr)
                            if ch is not None and recognises_short_form(ch, set()):
                                ok = True
                                break
                    where = "%s.%s" % (cls, mname) if fr.parent is None else "%s.%s -> %s" % (cls, mname, fr.chain().split(" -> ", 1)[1])
                    rep.ob("C20.v-where-injection-after-delete-where-expansion", fr.mod, where, n, ok,
                           "the text has the short form DELETE WHERE expanded before the injection" if ok else
                           "text is injected after every `WHERE {`, the one of the short form `DELETE WHERE { quad pattern }` included: VALUES inside a quad "
                           "pattern is a syntax error, the update is rejected and nothing is deleted", node=n)


def _rule_w(cx: _Cx) -> None:
    repo, rep, H, mod, con, base, upd, both, roles = cx.all()
    # ------------------------------------------------------------------ (w) a declared argument form is not asserted away
    rep.rule("C20.w-declared-argument-forms-accepted",
             "in SPARQLStore/SPARQLUpdateStore, a parameter annotated with several alternatives (Union[Query, str], Update | str) is never narrowed "
             "by a bare `assert isinstance(p, T)` that leaves an annotated alternative out, and a method that takes text or a prepared "
             "query/update tests the parameter in an `if isinstance` that converts the other form: store.query(prepareQuery(q)) - accepted by "
             "every local store - failed with an AssertionError", floor=2)
    for cls, ms in both:
        for mname, f in ms.items():
            if all(isinstance(s, (ast.Raise, ast.Expr, ast.Pass)) for s in f.body):
                continue  # a stub that only refuses (read-only store)
            where = "%s.%s" % (cls, mname)
            a = f.args
            anns = {x.arg: H.annotation_alternatives(x.annotation) for x in a.posonlyargs + a.args + a.kwonlyargs}
            rebound = {nm for nm in H.local_defs(f)}
            for n in own_nodes(f):
                if isinstance(n, ast.Assert) and not H.under_type_checking(mod, n, f):
                    t = H.isinstance_test(n.test)
                    if t is None or not t[2] or t[0] not in anns:
                        continue
                    left_out = [x for x in anns[t[0]] if x not in t[1] and x not in ("Any", "object")]
                    # (a parameter re-bound before the assert no longer holds the caller's value: not decided)
                    if t[0] in rebound and any(st.lineno < n.lineno for st, _v in H.local_defs(f)[t[0]]):
                        continue
                    rep.ob("C20.w-declared-argument-forms-accepted", mod, where, n, not left_out,
                           "asserts what the signature says" if not left_out else
                           "the signature accepts %s for `%s`, the assert rejects it with a bare AssertionError (a query/update made with "
                           "prepareQuery/prepareUpdate cannot be sent to the endpoint)" % (" / ".join(left_out), t[0]), node=n)
            for p, alts in anns.items():
                if "str" not in alts or not (set(alts) & {"Query", "Update"}):
                    continue
                tests = [n for n in own_nodes(f) if isinstance(n, (ast.If, ast.IfExp)) and (t := H.isinstance_test(n.test)) is not None and t[0] == p]
                rep.ob("C20.w-declared-argument-forms-accepted", mod, where, "parameter %s: %s" % (p, " | ".join(alts)), bool(tests),
                       "both forms are told apart" if tests else
                       "`%s` may be text or a prepared %s, but the method never tests which: the prepared form is used as if it were text" % (p, "/".join(sorted(set(alts) - {"str"}))),
                       node=f)


# ---------------------------------------------------------------------- (x) parameters joined to an address that may have some
def _rule_x(cx: "_Cx") -> None:
    from vlib.h_c17 import str_parts

    repo, rep = cx.repo, cx.rep
    rid = "C20.x-parameters-joined-to-an-address-that-may-have-a-query"
    rep.rule(rid, "the request reaches the endpoint with the query it was given: where the parameters of a request (urlencode(..)) are "
             "concatenated to the address of an endpoint, the separator is chosen by whether the address already has a query part ('&' after "
             "`?`, else '?'): with a constant '?' an endpoint such as http://host/sparql?apikey=x receives `apikey=x?query=..` and the query is "
             "lost.  The store's connector and the SERVICE evaluator of the engine (the other place that talks to an endpoint) must agree", floor=2)
    n = 0
    for mname in ("rdflib.plugins.stores.sparqlconnector", "rdflib.plugins.sparql.evaluate"):
        mod = repo.mod(mname)
        for q, fn in mod.functions():
            for node in own_nodes(fn):
                if not isinstance(node, (ast.BinOp, ast.JoinedStr, ast.Call)):
                    continue
                par = mod.parent.get(id(node))
                if isinstance(par, (ast.BinOp, ast.JoinedStr, ast.FormattedValue)):
                    continue  # not the whole string-building expression
                if isinstance(node, ast.Call) and not (isinstance(node.func, ast.Attribute) and node.func.attr in ("format", "join")):
                    continue
                parts = str_parts(node)
                if parts is None and isinstance(node, ast.BinOp) and isinstance(node.op, ast.Add):
                    parts = []
                    x: ast.AST = node
                    while isinstance(x, ast.BinOp) and isinstance(x.op, ast.Add):
                        parts.insert(0, x.right)
                        x = x.left
                    parts.insert(0, x)
                if not parts:
                    continue
                enc = [i for i, p in enumerate(parts) if isinstance(p, ast.Call) and norm(p.func).rsplit(".", 1)[-1] == "urlencode"]
                if not enc or enc[0] == 0:
                    continue
                i = enc[0]
                sep, address = parts[i - 1], [a for a in parts[:i - 1] if not isinstance(a, str)]
                if isinstance(sep, str):
                    # constant text right before the parameters: the separator is its end
                    address = [a for a in parts[:i] if not isinstance(a, str)]
                if not address:
                    continue
                n += 1
                rep.analysed("%s.%s" % (mname, q))
                # the separator: a conditional expression (or a local bound once to one) that asks the address for a '?'
                cand = sep
                if isinstance(cand, str):
                    cand = ast.Constant(value=cand)
                if isinstance(cand, ast.Name):
                    defs = [st.value for st in own_nodes(fn) if isinstance(st, ast.Assign) and len(st.targets) == 1 and isinstance(st.targets[0], ast.Name) and st.targets[0].id == cand.id]
                    cand = defs[0] if len(defs) == 1 else cand
                addr_txt = {norm(a) for a in address}
                asks = isinstance(cand, ast.IfExp) and any(
                    isinstance(c, ast.Compare) and len(c.ops) == 1 and isinstance(c.ops[0], (ast.In, ast.NotIn)) and isinstance(c.left, ast.Constant)
                    and c.left.value == "?" and norm(c.comparators[0]) in addr_txt for c in ast.walk(cand.test))
                arms_ok = isinstance(cand, ast.IfExp) and {getattr(cand.body, "value", None), getattr(cand.orelse, "value", None)} == {"&", "?"}
                ok = bool(asks and arms_ok)
                rep.ob(rid, mod, q, node, ok, "" if ok else
                       "the parameters are appended after the constant separator %s whatever the address %s looks like: an address with a query part of "
                       "its own gets a second '?' and the endpoint never sees the parameter" % (repr(sep)[:30] if isinstance(sep, str) else norm(sep)[:30], " + ".join(sorted(addr_txt))[:60]), node=node)
    if n < 2:
        raise AnalysisError("the places where urlencode(..) is appended to an endpoint address (connector and SERVICE) were not both found (%d)" % n)


# ======================================================================================================================
# every rule is a layer of its own (vlib.core.layer): a rule that loses its anchor on the tree as it is, or on one of the
# equivalent views of it, is judged by itself there and does not take the other rules with it
# ======================================================================================================================
_SECTIONS = (_rule_a, _rule_b, _rule_c, _rule_d, _rule_e, _rule_f, _rule_g, _rule_h, _rule_i, _rule_j, _rule_k, _rule_l, _rule_m, _rule_n,
             _rule_o, _rule_p, _rule_q, _rule_r, _rule_s, _rule_t, _rule_u, _rule_v, _rule_w, _rule_x)


def run(repo: Repo, rep: Report) -> None:
    rep.extra["explanation"] = EXPLANATION + _EXPLANATION_2 + _EXPLANATION_3
    cx = _Cx(repo, rep)
    for sec in _SECTIONS:
        _layer(rep, lambda _repo, _rep, _sec=sec: _sec(cx), repo)
