"""C10 - SPARQL Update: ordering clauses (DESIGN.md §2 C10)."""
from __future__ import annotations

import ast

from vlib import truthy
from vlib.cfg import CFG
from vlib.core import AnalysisError, Repo, Report, norm, own_nodes

EXPLANATION = (
    "CFG and dataflow rules over rdflib/plugins/sparql/update.py (+ _fillTemplate, translateQuads, translateUpdate1): "
    "(a) every loop that mutates a graph iterates a materialised sequence, so WHERE is evaluated once on the pre-state; "
    "(b) in evalModify no path performs an insertion and later a deletion (all deletions of all solutions first); "
    "(c) the template blank-node map is created per _fillTemplate call and every call passes the per-solution binding; "
    "(d) a template triple is emitted only under `is not None` of all three components; (e) evalUpdate runs operations in "
    "request order and has an arm for every update node; (f) the source==target short-circuit dominates the destructive "
    "steps of ADD/MOVE/COPY and MOVE/COPY clear, copy, drop in that order; (g) quads blocks naming the same graph accumulate. "
    "(i) writes outside GRAPH target the real default graph; (j) path-sensitive reaching definitions of the query context in evalModify decide which graph is active for WHERE and for the templates under each USING/WITH presence combination. GRAPH-template targeting per solution is semantic and not decided."
)

LAZY_FUNCS = {"evalPart", "evalBGP", "_join", "_minus", "_fillTemplate", "evalLazyJoin", "evalJoin"}
LAZY_METHODS = {"contexts", "triples", "quads", "subjects", "objects", "predicates", "graphs", "subject_objects",
                "predicate_objects", "subject_predicates", "triples_choices", "items"}
MATERIALISERS = {"list", "tuple", "sorted", "set", "frozenset"}
DEL_METHODS = {"remove", "remove_graph", "remove_context", "__isub__"}
INS_METHODS = {"add", "addN", "add_graph", "__iadd__", "parse", "load"}


def _mutation_kind(n: ast.AST) -> str | None:
    if isinstance(n, ast.AugAssign):
        if isinstance(n.op, ast.Sub):
            return "DEL"
        if isinstance(n.op, ast.Add):
            return "INS"
    if isinstance(n, ast.Call) and isinstance(n.func, ast.Attribute):
        if n.func.attr in DEL_METHODS:
            return "DEL"
        if n.func.attr in INS_METHODS:
            return "INS"
    return None


def _is_graph_mutation(repo: Repo, modname: str, n: ast.AST) -> str | None:
    """DEL/INS if n mutates a Graph/Store-typed receiver (mypy types), else None."""
    k = _mutation_kind(n)
    if k is None:
        return None
    recv = n.target if isinstance(n, ast.AugAssign) else n.func.value  # type: ignore[union-attr]
    tf = repo.typed.type_of(modname, recv)
    if tf is None:
        return k if isinstance(n, ast.AugAssign) else None
    for it in tf.items:
        if repo.typed.is_subclass(it, "rdflib.graph.Graph") or repo.typed.is_subclass(it, "rdflib.store.Store") \
                or it.endswith("QueryContext"):
            return k
    if tf.any and isinstance(n, ast.AugAssign):
        return k
    return None


def _returns_materialised(fn: ast.FunctionDef) -> bool:
    rets = [n for n in own_nodes(fn) if isinstance(n, ast.Return) and n.value is not None]
    if not rets:
        return False
    for r in rets:
        v = r.value
        if isinstance(v, (ast.List, ast.ListComp, ast.Tuple, ast.Dict)):
            continue
        if isinstance(v, ast.Call) and isinstance(v.func, ast.Name) and v.func.id in MATERIALISERS:
            continue
        return False
    return True


def _lazy_reason(e: ast.AST, fn: ast.FunctionDef, mod, algebra_params: set[str], depth: int = 0) -> str | None:
    """None if expression e denotes a materialised / store-independent sequence,
    else a reason why it may be a live generator over store state."""
    if isinstance(e, ast.Call):
        if isinstance(e.func, ast.Name) and e.func.id in MATERIALISERS:
            return None
        if isinstance(e.func, ast.Name):
            if e.func.id in LAZY_FUNCS:
                return "%s(...) is a lazy generator" % e.func.id
            if mod.has(e.func.id) and isinstance(mod.defs[e.func.id], ast.FunctionDef):
                return None if _returns_materialised(mod.defs[e.func.id]) else "%s(...) does not return a materialised sequence" % e.func.id
            return "call to %s not known to materialise" % e.func.id
        if isinstance(e.func, ast.Attribute):
            root = e.func.value
            while isinstance(root, (ast.Attribute, ast.Subscript, ast.Call)):
                root = root.value if not isinstance(root, ast.Call) else root.func
            if isinstance(root, ast.Name) and root.id in algebra_params and e.func.attr in ("items", "keys", "values"):
                return None  # dict view of the algebra node, not store state
            if e.func.attr in LAZY_METHODS:
                return ".%s() is a live iterator over the store" % e.func.attr
            return "method call .%s() not known to materialise" % e.func.attr
    if isinstance(e, (ast.List, ast.Tuple, ast.ListComp, ast.Dict, ast.Set)):
        return None
    if isinstance(e, (ast.Attribute, ast.Subscript)):
        root = e
        while isinstance(root, (ast.Attribute, ast.Subscript)):
            root = root.value
        if isinstance(root, ast.Name) and root.id in algebra_params:
            return None  # part of the parsed request
        return "attribute %s not rooted in the algebra node" % norm(e)
    if isinstance(e, ast.Name):
        if e.id in algebra_params:
            return None
        if depth > 3:
            return "alias chain too long"
        vals = []
        for n in own_nodes(fn):
            if isinstance(n, ast.Assign) and any(isinstance(t, ast.Name) and t.id == e.id for t in n.targets):
                vals.append(n.value)
            if isinstance(n, ast.AnnAssign) and isinstance(n.target, ast.Name) and n.target.id == e.id and n.value is not None:
                vals.append(n.value)
        if not vals:
            return "name %s has no local definition" % e.id
        for v in vals:
            r = _lazy_reason(v, fn, mod, algebra_params, depth + 1)
            if r:
                return "%s = %s: %s" % (e.id, norm(v)[:50], r)
        return None
    if isinstance(e, ast.GeneratorExp):
        return "generator expression"
    return "unmodelled iterable %s" % type(e).__name__


def run(repo: Repo, rep: Report) -> None:
    rep.extra["explanation"] = EXPLANATION
    up = repo.mod("rdflib.plugins.sparql.update")
    eu = repo.mod("rdflib.plugins.sparql.evalutils")
    alg = repo.mod("rdflib.plugins.sparql.algebra")
    evaluators = {q: f for q, f in up.functions() if q.startswith("eval") and "." not in q}
    if len(evaluators) < 12:
        raise AnalysisError("expected >= 12 update evaluators, found %s" % sorted(evaluators))
    for q in evaluators:
        rep.analysed("rdflib/plugins/sparql/update.py:" + q)

    # ------------------------------------------------------------------ (a)
    rep.rule("C10.a-materialise-before-mutate",
             "a loop in an update evaluator whose body mutates a graph iterates a materialised sequence (list/tuple/"
             "sorted/..., a helper returning one, or part of the parsed request), never a live generator over the "
             "store: the WHERE pattern is evaluated once, on the state before the operation", floor=8)
    for q, f in evaluators.items():
        alg_params = {a.arg for a in f.args.args if a.arg in ("u", "update")}
        for loop in [n for n in own_nodes(f) if isinstance(n, (ast.For, ast.While))]:
            if isinstance(loop, ast.While):
                continue
            muts = [n for s in loop.body for n in ast.walk(s) if _is_graph_mutation(repo, up.name, n)]
            if not muts:
                continue
            why = _lazy_reason(loop.iter, f, up, alg_params)
            rep.ob("C10.a-materialise-before-mutate", up, q, "for %s in %s" % (norm(loop.target), norm(loop.iter)), why is None,
                   "iterates a materialised / request-derived sequence while mutating (%s)" % norm(muts[0])[:50] if why is None else
                   "mutates the store (%s) while iterating a sequence that may still be reading it: %s" % (norm(muts[0])[:50], why), node=loop)

    # ------------------------------------------------------------------ (b)
    rep.rule("C10.b-delete-all-before-insert-all",
             "in evalModify no control-flow path performs an insertion-template mutation and afterwards a "
             "deletion-template mutation; both phases iterate the same materialised solution sequence", floor=3)
    em = evaluators.get("evalModify")
    if em is None:
        raise AnalysisError("evalModify vanished")
    g = CFG(em)
    dels, inss = [], []
    for n in own_nodes(em):
        k = _is_graph_mutation(repo, up.name, n)
        if not k:
            continue
        txt = norm(n)
        # template mutations only: those fed by _fillTemplate; ctx.load of USING is a read-side preparation
        if "_fillTemplate" not in txt:
            continue
        (dels if k == "DEL" else inss).append(n)
    if not dels or not inss:
        raise AnalysisError("evalModify: template deletions/insertions not found (dels=%d ins=%d)" % (len(dels), len(inss)))
    for i in inss:
        inode = g.node_of(i, up)
        later_del = [d for d in dels if g.node_of(d, up) in g.reach(inode)]
        rep.ob("C10.b-delete-all-before-insert-all", up, "evalModify", i, not later_del,
               "no deletion can follow this insertion" if not later_del else
               "a deletion (%s) can execute after this insertion (per-solution delete/insert): a triple inserted for one solution can be deleted for a later one" % norm(later_del[0])[:60], node=i)
    # same sequence
    seqs = set()
    for n in dels + inss:
        for p in up.parents(n):
            if isinstance(p, ast.For):
                outer = p
            if p is em:
                break
        # outermost enclosing for
        outermost = None
        for p in up.parents(n):
            if isinstance(p, ast.For):
                outermost = p
            if p is em:
                break
        if outermost is not None:
            seqs.add(norm(outermost.iter))
    rep.ob("C10.b-delete-all-before-insert-all", up, "evalModify", "delete and insert phases iterate %s" % sorted(seqs), len(seqs) == 1,
           "one shared solution sequence" if len(seqs) == 1 else "phases iterate different sequences %s: WHERE would be evaluated twice" % sorted(seqs), node=em)

    # ------------------------------------------------------------------ (c)(d)
    rep.rule("C10.c-bnodes-fresh-per-solution",
             "_fillTemplate creates its template-bnode map inside the call (not a module global, default argument or "
             "parameter), and every call site in the update evaluators passes the per-solution binding of the "
             "innermost solution loop", floor=6)
    ft = eu.func("_fillTemplate")
    rep.analysed("rdflib/plugins/sparql/evalutils.py:_fillTemplate")
    maps = []
    for n in own_nodes(ft):
        if isinstance(n, (ast.Assign, ast.AnnAssign)):
            v = n.value
            if isinstance(v, ast.Call) and "BNode" in norm(v) and ("dict" in norm(v.func).lower()):
                tg = n.targets[0] if isinstance(n, ast.Assign) else n.target
                maps.append((norm(tg), n))
            if isinstance(v, ast.Dict) and not v.keys:
                tg = n.targets[0] if isinstance(n, ast.Assign) else n.target
                maps.append((norm(tg), n))
    # which map is used to rename template bnodes? the one subscripted where isinstance(x, BNode)
    used = None
    for n in ast.walk(ft):
        if isinstance(n, ast.IfExp) and "isinstance" in norm(n.test) and "BNode" in norm(n.test) and isinstance(n.body, ast.Subscript):
            used = norm(n.body.value)
    if used is None:
        # alternative forms: bnodeMap[x] / bnodeMap.setdefault(x, BNode())
        for n in ast.walk(ft):
            if isinstance(n, ast.Subscript) and isinstance(n.value, ast.Name) and "bnode" in n.value.id.lower():
                used = n.value.id
    if used is None:
        raise AnalysisError("_fillTemplate: bnode renaming map not found")
    params = [a.arg for a in ft.args.args]
    # the map is made inside each call: at the top level of the body, or - when it is an optional parameter with which a caller shares one
    # map between the parts of ONE solution's template - under `if <map> is None:` at the top level (the default must be None, not a map)
    local_ok = any(nm == used and eu.parent.get(id(st)) is ft for nm, st in maps)
    shared_param = False
    if used in params:
        defaults = dict(zip(reversed(params), reversed(ft.args.defaults)))
        d = defaults.get(used)
        none_default = isinstance(d, ast.Constant) and d.value is None
        made_if_none = any(nm == used and isinstance(eu.parent.get(id(st)), ast.If) and norm(eu.parent[id(st)].test) == "%s is None" % used
                           and eu.parent.get(id(eu.parent[id(st)])) is ft for nm, st in maps)
        shared_param = none_default and made_if_none
        local_ok = shared_param
    rep.ob("C10.c-bnodes-fresh-per-solution", eu, "_fillTemplate", "bnode map %s" % used, local_ok,
           ("created in the call unless the caller passes the map of the solution it is filling" if shared_param else "created at the top level of the call: fresh blank nodes for each solution") if local_ok else
           "bnode map %s is not created inside each call: blank nodes would be shared between solutions" % used, node=ft)
    map_pos = params.index(used) if used in params else None
    for q, f in evaluators.items():
        for c in [n for n in own_nodes(f) if isinstance(n, ast.Call) and norm(n.func) == "_fillTemplate"]:
            loopvar, loop = None, None
            for p in up.parents(c):
                if isinstance(p, ast.For):
                    # the innermost loop over solutions: skip loops over the request's quads dict
                    if _lazy_reason(p.iter, f, up, {"u"}) is None and norm(p.iter).startswith("u."):
                        continue
                    loopvar, loop = norm(p.target), p
                    break
                if p is f:
                    break
            arg = norm(c.args[1]) if len(c.args) > 1 else None
            ctxp = f.args.args[0].arg if f.args.args else None
            if loopvar is None and arg == ctxp:
                # ground data (INSERT DATA): no solutions, the template is instantiated once per operation with the context's initial bindings
                ok, why = True, "ground data: filled once per operation"
            else:
                ok = loopvar is not None and arg == loopvar
                why = "called once per solution %s" % loopvar if ok else "template filled with %s outside/away from the per-solution loop variable %s" % (arg, loopvar)
            rep.ob("C10.c-bnodes-fresh-per-solution", up, q, c, ok, why, node=c)
            # a map handed in: it must be made anew for every solution (in the body of that solution's loop), for ground data anew per operation
            marg = None
            if map_pos is not None:
                if len(c.args) > map_pos:
                    marg = c.args[map_pos]
                for k in c.keywords:
                    if k.arg == used:
                        marg = k.value
            if marg is not None:
                made = [a for a in own_nodes(f) if isinstance(a, (ast.Assign, ast.AnnAssign)) and norm(a.targets[0] if isinstance(a, ast.Assign) else a.target) == norm(marg)]
                scope = loop if loop is not None else f
                okm = bool(made) and all(up.parent.get(id(a)) is scope for a in made)
                rep.ob("C10.c-bnodes-fresh-per-solution", up, q, "map %s passed to %s" % (norm(marg), norm(c)[:50]), okm,
                       "made anew for each %s" % ("solution" if loop is not None else "operation") if okm else
                       "the blank node map %s handed to _fillTemplate is not made anew in the body of the loop over solutions: one solution's blank nodes are reused for the next" % norm(marg), node=c)

    rep.rule("C10.d-unbound-skipped",
             "_fillTemplate yields a triple only under `is not None` tests of all three instantiated components "
             "(identity, not truthiness: a falsy literal is a legal term)", floor=1)
    yields = [y for y in own_nodes(ft) if isinstance(y, ast.Yield)]
    if not yields:
        raise AnalysisError("_fillTemplate has no yield")
    for y in yields:
        comps = [norm(e) for e in y.value.elts] if isinstance(y.value, ast.Tuple) else []
        guarded = set()
        for p in eu.parents(y):
            if isinstance(p, ast.If):
                for c in ast.walk(p.test):
                    if isinstance(c, ast.Compare) and isinstance(c.ops[0], ast.IsNot) and isinstance(c.comparators[0], ast.Constant) \
                            and c.comparators[0].value is None:
                        guarded.add(norm(c.left))
                if isinstance(p.test, ast.BoolOp) and isinstance(p.test.op, ast.Or):
                    guarded = set()
            if p is ft:
                break
        # ... or earlier in the same block: `if a is None or b is None ...: continue`
        ys = y
        while eu.parent.get(id(ys)) is not None and not isinstance(eu.parent[id(ys)], (ast.For, ast.While, ast.FunctionDef)):
            ys = eu.parent[id(ys)]
        blk = getattr(eu.parent.get(id(ys)), "body", [])
        for st in blk[:blk.index(ys)] if ys in blk else []:
            if isinstance(st, ast.If) and not st.orelse and isinstance(st.body[-1], (ast.Continue, ast.Return, ast.Raise)):
                leaves = st.test.values if isinstance(st.test, ast.BoolOp) and isinstance(st.test.op, ast.Or) else [st.test]
                for c in leaves:
                    if isinstance(c, ast.Compare) and len(c.ops) == 1 and isinstance(c.ops[0], ast.Is) and isinstance(c.comparators[0], ast.Constant) and c.comparators[0].value is None:
                        guarded.add(norm(c.left))
        ok = len(comps) == 3 and set(comps) <= guarded
        rep.ob("C10.d-unbound-skipped", eu, "_fillTemplate", y, ok,
               "all of %s tested `is not None`" % comps if ok else "component(s) %s emitted without an `is not None` test" % sorted(set(comps) - guarded), node=y)
    truthy.scan(repo, rep, "C10.d-unbound-skipped", eu, ft, "_fillTemplate")

    # ------------------------------------------------------------------ (e)
    rep.rule("C10.e-request-order-and-arms",
             "evalUpdate iterates update.algebra in order in one loop and dispatches every update node name that the "
             "translator handles to its own evaluator", floor=12)
    eup = evaluators.get("evalUpdate")
    if eup is None:
        raise AnalysisError("evalUpdate vanished")
    loops_ = [n for n in own_nodes(eup) if isinstance(n, ast.For)]
    main = [l for l in loops_ if norm(l.iter).endswith(".algebra")]
    rep.ob("C10.e-request-order-and-arms", up, "evalUpdate", "for u in update.algebra", len(main) == 1,
           "operations run in request order" if len(main) == 1 else "evalUpdate does not iterate update.algebra directly (order of operations not preserved: %s)" % [norm(l.iter) for l in loops_], node=eup)
    arms: dict[str, str] = {}
    for n in ast.walk(eup):
        if isinstance(n, ast.If) and isinstance(n.test, ast.Compare) and norm(n.test.left).endswith(".name") and isinstance(n.test.ops[0], ast.Eq) \
                and isinstance(n.test.comparators[0], ast.Constant):
            calls = [c for s in n.body for c in ast.walk(s) if isinstance(c, ast.Call) and isinstance(c.func, ast.Name) and c.func.id.startswith("eval")]
            arms[n.test.comparators[0].value] = calls[0].func.id if calls else ""
    tu = alg.func("translateUpdate1")
    rep.analysed("rdflib/plugins/sparql/algebra.py:translateUpdate1")
    names = set()
    for n in ast.walk(tu):
        if isinstance(n, ast.Compare) and norm(n.left).endswith(".name"):
            for c in n.comparators:
                if isinstance(c, ast.Constant):
                    names.add(c.value)
                elif isinstance(c, ast.Tuple):
                    names |= {e.value for e in c.elts if isinstance(e, ast.Constant)}
    # the grammar's update operations
    par = repo.mod("rdflib.plugins.sparql.parser")
    gram = set()
    for n in ast.walk(par.tree):
        if isinstance(n, ast.Call) and isinstance(n.func, ast.Name) and n.func.id == "Comp" and n.args and isinstance(n.args[0], ast.Constant):
            gram.add(n.args[0].value)
    names |= {x for x in gram if x in ("Load", "Clear", "Drop", "Create", "Add", "Move", "Copy", "InsertData", "DeleteData", "DeleteWhere", "Modify")}
    if len(names) < 11:
        raise AnalysisError("translateUpdate1/parser: expected 11 update operation names, found %s" % sorted(names))
    for nm in sorted(names):
        want = "eval" + nm
        ok = arms.get(nm) == want
        rep.ob("C10.e-request-order-and-arms", up, "evalUpdate", "arm for %s" % nm, ok,
               "dispatches to %s" % want if ok else "update operation %s dispatches to %r" % (nm, arms.get(nm)), node=eup)

    # ------------------------------------------------------------------ (f)
    rep.rule("C10.f-graph-management-order",
             "in evalAdd/evalMove/evalCopy the source==target test returns before any mutation; MOVE/COPY clear the "
             "target before copying, and MOVE drops the source only after the copy", floor=6)
    for q in ("evalAdd", "evalMove", "evalCopy"):
        f = evaluators.get(q)
        if f is None:
            raise AnalysisError("%s vanished" % q)
        g = CFG(f)
        guards = set()
        for n in own_nodes(f):
            if isinstance(n, ast.If) and isinstance(n.test, ast.Compare) and isinstance(n.test.ops[0], ast.Eq) and ".identifier" in norm(n.test) \
                    and n.body and isinstance(n.body[-1], ast.Return):
                guards.add(g.by_ast[id(n)])
        muts = [(n, _is_graph_mutation(repo, up.name, n)) for n in own_nodes(f)]
        muts = [(n, k) for n, k in muts if k]
        if not muts:
            raise AnalysisError("%s: no graph mutation found" % q)
        for n, k in muts:
            ok = bool(guards) and g.must_pass_before(g.node_of(n, up), guards)
            rep.ob("C10.f-graph-management-order", up, q, n, ok,
                   "dominated by the source==target short-circuit" if ok else "mutation is reachable without passing the source==target test (src == dst would be destroyed)", node=n)
        if q in ("evalMove", "evalCopy"):
            # roles: src/dst names from `src, dst = u.graph` then srcg/dstg = _graphOrDefault(ctx, src|dst)
            role = {}
            pair = None
            for n in own_nodes(f):
                if isinstance(n, ast.Assign) and isinstance(n.targets[0], ast.Tuple) and norm(n.value).endswith(".graph"):
                    pair = [norm(e) for e in n.targets[0].elts]
            if not pair or len(pair) != 2:
                raise AnalysisError("%s: `src, dst = u.graph` not found" % q)
            for n in own_nodes(f):
                if isinstance(n, ast.Assign) and isinstance(n.value, ast.Call) and norm(n.value.func) == "_graphOrDefault" and len(n.value.args) == 2:
                    a = norm(n.value.args[1])
                    if a in pair:
                        role[norm(n.targets[0])] = "src" if a == pair[0] else "dst"
            clear_dst = [n for n, k in muts if k == "DEL" and isinstance(n, ast.Call) and role.get(norm(n.func.value)) == "dst"]
            copy = [n for n, k in muts if k == "INS" and isinstance(n, ast.AugAssign) and role.get(norm(n.target)) == "dst" and role.get(norm(n.value)) == "src"]
            drop_src = [n for n, k in muts if k == "DEL" and isinstance(n, ast.Call) and (role.get(norm(n.func.value)) == "src" or any(role.get(norm(a)) == "src" for a in n.args))]
            ok = bool(clear_dst) and bool(copy) and all(g.node_of(cp, up) in g.reach(g.node_of(cl, up)) for cl in clear_dst for cp in copy) \
                and not any(g.node_of(cl, up) in g.reach(g.node_of(cp, up)) for cl in clear_dst for cp in copy)
            rep.ob("C10.f-graph-management-order", up, q, "clear target, then copy source into it", ok,
                   "target cleared before the copy" if ok else "target is not cleared strictly before `dst += src` (roles %s)" % role, node=f)
            if q == "evalMove":
                ok = bool(drop_src) and not any(g.node_of(cp, up) in g.reach(g.node_of(d, up)) for d in drop_src for cp in copy) \
                    and all(g.must_pass_after(g.node_of(cp, up), {g.node_of(d, up) for d in drop_src}) for cp in copy)
                rep.ob("C10.f-graph-management-order", up, q, "source dropped after the copy on every path", ok,
                       "source removed only after it was copied" if ok else "source graph is not removed after the copy on every path (or is removed before it)", node=f)

    # ------------------------------------------------------------------ (g)
    rep.rule("C10.g-quad-blocks-accumulate",
             "translateQuads accumulates the triples of every GRAPH block under its graph term (+= / extend / append on "
             "the per-graph list); it never overwrites an earlier block for the same term", floor=1)
    tq = alg.func("translateQuads")
    rep.analysed("rdflib/plugins/sparql/algebra.py:translateQuads")
    ret = [n for n in own_nodes(tq) if isinstance(n, ast.Return)]
    dname = None
    if ret and isinstance(ret[-1].value, ast.Tuple) and len(ret[-1].value.elts) == 2:
        dname = norm(ret[-1].value.elts[1])
    if dname is None:
        raise AnalysisError("translateQuads: returned per-graph map not found")
    nacc = 0
    for n in own_nodes(tq):
        if isinstance(n, ast.AugAssign) and isinstance(n.target, ast.Subscript) and norm(n.target.value) == dname:
            nacc += 1
            rep.ob("C10.g-quad-blocks-accumulate", alg, "translateQuads", n, isinstance(n.op, ast.Add), "accumulates", node=n)
        elif isinstance(n, ast.Call) and isinstance(n.func, ast.Attribute) and n.func.attr in ("extend", "append") and isinstance(n.func.value, ast.Subscript) \
                and norm(n.func.value.value) == dname:
            nacc += 1
            rep.ob("C10.g-quad-blocks-accumulate", alg, "translateQuads", n, True, "accumulates", node=n)
        elif isinstance(n, ast.Assign) and any(isinstance(t, ast.Subscript) and norm(t.value) == dname for t in n.targets):
            nacc += 1
            rep.ob("C10.g-quad-blocks-accumulate", alg, "translateQuads", n, False,
                   "overwrites the entry for a graph term: an earlier GRAPH block naming the same graph is lost", node=n)
        elif isinstance(n, ast.Call) and isinstance(n.func, ast.Attribute) and n.func.attr in ("update", "setdefault", "__setitem__") and norm(n.func.value) == dname:
            nacc += 1
            ok = n.func.attr == "setdefault"
            rep.ob("C10.g-quad-blocks-accumulate", alg, "translateQuads", n, ok,
                   "setdefault keeps earlier entries" if ok else "%s() replaces the entry for a graph term: an earlier GRAPH block naming the same graph is lost" % n.func.attr, node=n)
    if nacc == 0:
        rep.ob("C10.g-quad-blocks-accumulate", alg, "translateQuads", "writes to %s" % dname, False, "no write to the per-graph map found", node=tq)

    # ------------------------------------------------------------------ (h)
    from checks.c15 import translation_cache_rule

    translation_cache_rule(repo, rep, "C10.h-update-translation-not-cached", ("translateUpdate",))
    real_default_graph_rule(repo, rep)
    active_graph_rule(repo, rep)


def real_default_graph_rule(repo: Repo, rep: Report) -> None:
    """(i) writes outside GRAPH go to the real default graph"""
    up = repo.mod("rdflib.plugins.sparql.update")
    rep.rule("C10.i-writes-target-real-default-graph",
             "no update evaluator (nor _graphOrDefault/_graphAll) mutates, or hands out for mutation, `ctx.graph` itself: with the default-graph-is-union "
             "switch on that is the union view of the dataset; the target of writes outside GRAPH is obtained through a selector that maps a "
             "ConjunctiveGraph/Dataset to its default_context (`_defaultGraph(ctx)`, or the `type(ctx.graph) is Graph` test of evalModify)", floor=6)
    # selectors: functions that return ctx.dataset.default_context / g.default_context for dataset-typed ctx.graph
    selectors = set()
    for q, f in up.functions():
        if "." in q:
            continue
        rets = [r for r in own_nodes(f) if isinstance(r, ast.Return) and r.value is not None]
        if rets and any("default_context" in norm(r.value) for r in rets) and any(isinstance(n, ast.If) and ("isinstance" in norm(n.test) or "type(" in norm(n.test)) for n in own_nodes(f)):
            selectors.add(q)
    rep.info["default_graph_selectors"] = sorted(selectors)
    nsites = 0
    for q, f in up.functions():
        if "." in q or q in selectors:
            continue
        # names that alias ctx.graph directly
        direct = set()
        for n in own_nodes(f):
            if isinstance(n, ast.Assign) and norm(n.value).endswith("ctx.graph") and isinstance(n.targets[0], ast.Name) and isinstance(n.value, ast.Attribute):
                direct.add(n.targets[0].id)
        for n in own_nodes(f):
            recv = None
            if isinstance(n, ast.AugAssign) and isinstance(n.op, (ast.Add, ast.Sub)):
                recv = n.target
            elif isinstance(n, ast.Call) and isinstance(n.func, ast.Attribute) and n.func.attr in ("add", "addN", "remove", "remove_graph", "parse"):
                recv = n.func.value if n.func.attr != "remove_graph" else (n.args[0] if n.args else None)
            elif isinstance(n, ast.Return) and n.value is not None and q.startswith("_graph"):
                # helpers that hand out the graph to be mutated
                recv = n.value.elts[0] if isinstance(n.value, ast.List) and n.value.elts else n.value
            if recv is None:
                continue
            txt = norm(recv)
            is_ctx_graph = txt in ("ctx.graph",) or (isinstance(recv, ast.Name) and recv.id in direct)
            uses_selector = any(isinstance(c, ast.Call) and norm(c.func) in selectors for c in ast.walk(recv)) or (
                isinstance(recv, ast.Name) and any(isinstance(a, ast.Assign) and norm(a.targets[0]) == recv.id and (
                    any(isinstance(c, ast.Call) and norm(c.func) in selectors for c in ast.walk(a.value)) or "default_context" in norm(a.value)) for a in own_nodes(f)))
            if not (is_ctx_graph or uses_selector or "ctx.graph" in txt):
                continue
            nsites += 1
            rep.ob("C10.i-writes-target-real-default-graph", up, q, n if not isinstance(n, ast.Return) else "return %s" % txt, not is_ctx_graph,
                   "target resolved to the real default graph" if not is_ctx_graph else
                   "the write (or the graph handed out for writing) is `ctx.graph` itself: on a Dataset/ConjunctiveGraph with the union switch on this is the union view - the operation hits every graph (or fails) instead of the default graph", node=n)
    if not selectors:
        rep.ob("C10.i-writes-target-real-default-graph", up, "<module>", "a default-graph selector exists", False, "no function maps a dataset-typed ctx.graph to its default_context", node=up.tree)


def active_graph_rule(repo: Repo, rep: Report) -> None:
    """(j) WITH / USING select the active graph of WHERE and of the templates (path-sensitive reaching definitions of `ctx`)"""
    from vlib.cfg import reaching_defs

    up = repo.mod("rdflib.plugins.sparql.update")
    em = up.func("evalModify")
    if em is None:
        raise AnalysisError("evalModify vanished")
    rep.rule("C10.j-with-using-select-active-graph",
             "in evalModify, for each of the four presence combinations of USING and WITH, the query context that is current (last binding of `ctx` on "
             "every feasible path; branch feasibility from the fixed truth of u.using/u.withClause and the exactly tracked one-bit local flags) is: at the "
             "WHERE evaluation - the WITH graph pushed iff WITH and no USING, never the WITH graph when USING is present, the caller's context otherwise "
             "(or the USING scratch default graph); at every statement that selects the graph the templates are applied to - the WITH graph pushed iff WITH "
             "is present, and otherwise the caller's own context (never the USING scratch dataset)", floor=8)
    g = CFG(em)
    ctxname = em.args.args[0].arg
    uname = em.args.args[1].arg
    # the atoms must be invariant: u and its attributes are never re-bound in the function
    for n in own_nodes(em):
        if isinstance(n, ast.Name) and n.id == uname and isinstance(n.ctx, ast.Store):
            raise AnalysisError("evalModify re-binds its update node parameter")
        if isinstance(n, ast.Attribute) and isinstance(n.ctx, ast.Store) and norm(n.value) == uname:
            raise AnalysisError("evalModify assigns an attribute of its update node")
    A_USING, A_WITH = "%s.using" % uname, "%s.withClause" % uname

    def classify(nid: int, assume: dict, depth: int = 0) -> str:
        """class of one binding of ctx"""
        if nid == g.entry:
            return "CALLER"
        st = g.nodes[nid].ast
        if not isinstance(st, ast.Assign):
            return "OTHER(%s)" % norm(st)[:40]
        v = st.value
        if isinstance(v, ast.Name) and depth < 3:
            # ctx = originalctx: class of the value that name holds
            cls = set()
            for d in reaching_defs(g, nid, v.id, assume):
                ds = g.nodes[d].ast
                if d != g.entry and isinstance(ds, ast.Assign) and isinstance(ds.value, ast.Name) and ds.value.id == ctxname:
                    cls |= {classify(x, assume, depth + 1) for x in reaching_defs(g, d, ctxname, assume)}
                else:
                    cls.add("OTHER(%s)" % (norm(ds)[:40] if ds is not None else "entry"))
            return cls.pop() if len(cls) == 1 else "MIXED(%s)" % ",".join(sorted(cls))
        if isinstance(v, ast.Call) and isinstance(v.func, ast.Attribute) and v.func.attr == "pushGraph" and norm(v.func.value) == ctxname and v.args:
            a = v.args[0]
            srcs = set()
            if isinstance(a, ast.Name):
                for d in reaching_defs(g, nid, a.id, assume):
                    ds = g.nodes[d].ast
                    val = getattr(ds, "value", None)
                    if isinstance(ds, (ast.Assign, ast.AnnAssign)) and val is not None:
                        srcs.add(norm(val))
                    else:
                        srcs.add("?" + (norm(ds)[:30] if ds is not None else "entry"))
            else:
                srcs.add(norm(a))
            if srcs and all("get_context(%s)" % A_WITH in s for s in srcs):
                return "WITH"
            if srcs and all(s in ("Graph()",) for s in srcs):
                return "SCRATCH"
            return "PUSH(%s)" % ",".join(sorted(srcs))[:60]
        if isinstance(v, ast.Call) and norm(v.func) == "QueryContext" and any(k.arg == "datasetClause" and norm(k.value) == A_USING for k in v.keywords):
            # a context of its own, whose dataset is built from the USING clauses (as a query's from FROM / FROM NAMED)
            return "SCRATCH"
        return "OTHER(%s)" % norm(st)[:40]

    # sites
    where_sites = [n for n in own_nodes(em) if isinstance(n, ast.Call) and norm(n.func) == "evalPart" and len(n.args) == 2 and norm(n.args[1]) == "%s.where" % uname]
    if len(where_sites) != 1:
        raise AnalysisError("evalModify: expected exactly one evalPart(ctx, u.where) call, found %d" % len(where_sites))
    tmpl_sites = []  # statements that read ctx to pick the graph a template is applied to
    # helpers of the module that hand out the active graph of the context they are given (`_defaultGraph(ctx)` reads ctx.graph)
    graph_selectors = set()
    for q in up.defs:
        hf = up.func(q) if up.has(q) else None
        if isinstance(hf, ast.FunctionDef) and hf.args.args:
            p0 = hf.args.args[0].arg
            if any(isinstance(x, ast.Attribute) and x.attr == "graph" and norm(x.value) == p0 for x in own_nodes(hf)) and any(isinstance(x, ast.Return) for x in own_nodes(hf)):
                graph_selectors.add(q)

    def reads_active_graph(x: ast.AST) -> bool:
        if isinstance(x, ast.Attribute) and x.attr == "graph" and norm(x.value) == ctxname:
            return True
        return isinstance(x, ast.Call) and norm(x.func) in graph_selectors and bool(x.args) and norm(x.args[0]) == ctxname
    for n in own_nodes(em):
        if isinstance(n, ast.AugAssign) and any(isinstance(c, ast.Call) and norm(c.func) == "_fillTemplate" for c in ast.walk(n.value)):
            t = n.target
            if isinstance(t, ast.Name):
                for d in reaching_defs(g, g.node_of(n, up), t.id, {}):
                    ds = g.nodes[d].ast
                    # only the ACTIVE graph (ctx.graph) depends on which context is current; ctx.dataset is shared by all pushed contexts
                    if ds is not None and any(reads_active_graph(x) for x in ast.walk(ds)) and ds not in tmpl_sites:
                        tmpl_sites.append(ds)
            elif any(reads_active_graph(x) for x in ast.walk(t)):
                if n not in tmpl_sites:
                    tmpl_sites.append(n)
    if len(tmpl_sites) < 1:
        raise AnalysisError("evalModify: found no statement selecting the template target from ctx.graph")
    rep.info["C10.j_sites"] = {"where": norm(where_sites[0]), "template_targets": [norm(s)[:90] for s in tmpl_sites]}
    for using in (False, True):
        for withc in (False, True):
            assume = {A_USING: using, A_WITH: withc}
            tag = "USING %s, WITH %s" % ("present" if using else "absent", "present" if withc else "absent")
            wn = g.node_of(where_sites[0], up)
            cls = sorted({classify(d, assume) for d in reaching_defs(g, wn, ctxname, assume)})
            if using:
                allowed = {"CALLER", "SCRATCH"}
            elif withc:
                allowed = {"WITH"}
            else:
                allowed = {"CALLER"}
            ok = bool(cls) and set(cls) <= allowed
            rep.ob("C10.j-with-using-select-active-graph", up, "evalModify", "[%s] WHERE evaluated in %s" % (tag, "/".join(cls) or "unreachable"), ok,
                   "as the Update semantics prescribe" if ok else "the context WHERE is evaluated in can be %s; allowed here: %s" % ("/".join(cls), "/".join(sorted(allowed))), node=where_sites[0])
            for s in tmpl_sites:
                sn = g.node_of(s, up)
                cls = sorted({classify(d, assume) for d in reaching_defs(g, sn, ctxname, assume)})
                allowed = {"WITH"} if withc else {"CALLER"}
                ok = bool(cls) and set(cls) <= allowed
                rep.ob("C10.j-with-using-select-active-graph", up, "evalModify", "[%s] template target `%s` chosen in %s" % (tag, norm(s)[:50], "/".join(cls) or "unreachable"), ok,
                       "as the Update semantics prescribe" if ok else
                       "with %s the graph the DELETE/INSERT templates outside GRAPH are applied to is selected from the %s context; it must be %s" % (
                           tag, "/".join(cls), "the WITH graph" if withc else "the caller's dataset (real default graph)"), node=s)


_run_base = run


def run(repo: Repo, rep: Report) -> None:  # noqa: F811
    _run_base(repo, rep)
    up = repo.mod("rdflib.plugins.sparql.update")
    alg = repo.mod("rdflib.plugins.sparql.algebra")
    # ------------------------------------------------------------------ (k)
    rep.rule("C10.k-solution-multiset-kept",
             "the update evaluators materialise the WHERE solutions with list(...) / tuple(...) of the solution stream itself: the templates are instantiated once per SOLUTION "
             "(blank nodes in an INSERT template are fresh per solution, so two identical solutions insert two blank nodes). set(), frozenset(), dict.fromkeys(), a set/dict "
             "comprehension or sorted(set(...)) over the stream collapse equal solutions", floor=2)
    for q in ("evalModify", "evalDeleteWhere"):
        f = up.func(q)
        streams = {norm(a.targets[0]) for a in own_nodes(f) if isinstance(a, ast.Assign) and isinstance(a.value, ast.Call) and norm(a.value.func) in ("evalPart", "evalBGP", "_join")}
        for c in own_nodes(f):
            if not isinstance(c, ast.Call) or not c.args:
                continue
            fn = norm(c.func)
            over = norm(c.args[0])
            if fn in ("list", "tuple") and over in streams:
                rep.ob("C10.k-solution-multiset-kept", up, q, c, True, "multiplicity-preserving", node=c)
            elif over in streams and fn in ("set", "frozenset", "dict.fromkeys", "OrderedDict.fromkeys", "sorted") or (
                    fn in ("list", "tuple", "sorted") and isinstance(c.args[0], ast.Call) and norm(c.args[0].func) in ("set", "frozenset", "dict.fromkeys", "OrderedDict.fromkeys") and c.args[0].args and norm(c.args[0].args[0]) in streams):
                if fn == "sorted" and over in streams:
                    continue  # sorted(stream) keeps multiplicity
                rep.ob("C10.k-solution-multiset-kept", up, q, c, False,
                       "%s collapses equal solutions: a template with a blank node is instantiated once where the solution multiset has it twice (UNION branches, a sub-SELECT that projects the distinguishing variable away)" % norm(c)[:60], node=c)

    # ------------------------------------------------------------------ (l)
    rep.rule("C10.l-each-operation-under-its-own-prologue",
             "translateUpdate folds the prologue that precedes operation i (PREFIX / BASE written between the operations of one request) and translates operation i in the same "
             "iteration of one loop over the (prologue, operation) pairs: an operation is resolved against the declarations in force at its position, a later re-declaration of a "
             "prefix must not rewrite the IRIs of earlier operations", floor=1)
    tu = alg.func("translateUpdate")
    tp = [c for c in own_nodes(tu) if isinstance(c, ast.Call) and norm(c.func) == "translatePrologue"]
    t1 = [c for c in own_nodes(tu) if isinstance(c, ast.Call) and norm(c.func) in ("translateUpdate1", "translatePName") or (isinstance(c, ast.Call) and any("translatePName" in norm(a) for a in c.args) and norm(c.func) == "functools.partial")]
    if not tp or not t1:
        raise AnalysisError("translateUpdate: prologue folding / operation translation calls not found")

    def loop_of(n):
        for p_ in alg.parents(n):
            if isinstance(p_, (ast.For, ast.While)):
                return p_
            if p_ is tu:
                return None
        return None
    lp = {id(loop_of(c)) for c in tp}
    lo = {id(loop_of(c)) for c in t1}
    same = lp == lo and None not in {loop_of(c) for c in tp}
    rep.ob("C10.l-each-operation-under-its-own-prologue", alg, "translateUpdate", "translatePrologue and the translation of the operation share one loop", same,
           "per-operation prologue" if same else
           "all prologues are folded before any operation is translated: `PREFIX v: <a> INSERT DATA { v:x ... } ; PREFIX v: <b> INSERT DATA { ... }` resolves the FIRST operation's v:x against <b>", node=tp[0])
