"""C10 - SPARQL Update: ordering clauses (DESIGN.md §2 C10)."""
from __future__ import annotations

import ast
import re

from vlib import truthy
from vlib.cfg import CFG
from vlib.core import AnalysisError, Repo, Report, norm, own_nodes

EXPLANATION = (
    "CFG and dataflow rules over rdflib/plugins/sparql/update.py (+ _fillTemplate, translateQuads, translateUpdate1): "
    "(a) every loop that mutates a graph iterates a materialised sequence, so WHERE is evaluated once on the pre-state; "
    "(b) in evalModify no path performs an insertion and later a deletion (all deletions of all solutions first); "
    "(c) the template blank-node map is created per _fillTemplate call and every call passes the per-solution binding; "
    "(d) a template triple is emitted only where all three components are known to be not None (a test in _fillTemplate or in a predicate helper it calls on them); (e) evalUpdate runs operations in "
    "request order and has an arm for every update node; (f) every feasible path to a destructive step of ADD/MOVE/COPY has found source != target, "
    "and MOVE/COPY clear, copy, drop in that order; (g) quads blocks naming the same graph accumulate. "
    "(i) writes outside GRAPH target the real default graph; (j) path-sensitive reaching definitions of the query context in evalModify decide which graph is active for WHERE and for the templates under each USING/WITH presence combination. GRAPH-template targeting per solution is semantic and not decided."
)

LAZY_FUNCS = {"evalPart", "evalBGP", "_join", "_minus", "_fillTemplate", "evalLazyJoin", "evalJoin"}
LAZY_METHODS = {"contexts", "triples", "quads", "subjects", "objects", "predicates", "graphs", "subject_objects",
                "predicate_objects", "subject_predicates", "triples_choices", "items"}
MATERIALISERS = {"list", "tuple", "sorted", "set", "frozenset"}
DEL_METHODS = {"remove", "remove_graph", "remove_context", "__isub__"}
INS_METHODS = {"add", "addN", "add_graph", "__iadd__", "parse", "load"}


def _plain_mod(repo: Repo, name: str):
    """the module as the rules read it: loops over a literal table of phases written out row by row, `operator.isub(g, x)` written
    `g -= x` (vlib/h_c10.plain) - what a phase does, with which callable, and in which order is what the table says"""
    from vlib import h_c10 as H

    return H.plain(repo.mod(name))


def _mutation_kind(n: ast.AST) -> str | None:
    if isinstance(n, ast.AugAssign):
        if isinstance(n.op, ast.Sub):
            return "DEL"
        if isinstance(n.op, ast.Add):
            return "INS"
    if isinstance(n, ast.Call) and isinstance(n.func, ast.Attribute):
        if n.func.attr in DEL_METHODS:
            return "DEL"
        if n.func.attr in INS_METHODS:
            return "INS"
    return None


def _is_graph_mutation(repo: Repo, modname: str, n: ast.AST) -> str | None:
    """DEL/INS if n mutates a Graph/Store-typed receiver (mypy types), else None."""
    k = _mutation_kind(n)
    if k is None:
        return None
    recv = n.target if isinstance(n, ast.AugAssign) else n.func.value  # type: ignore[union-attr]
    tf = repo.typed.type_of(modname, recv)
    if tf is None:
        return k if isinstance(n, ast.AugAssign) else None
    for it in tf.items:
        if repo.typed.is_subclass(it, "rdflib.graph.Graph") or repo.typed.is_subclass(it, "rdflib.store.Store") \
                or it.endswith("QueryContext"):
            return k
    if tf.any and isinstance(n, ast.AugAssign):
        return k
    return None


def _returns_materialised(fn: ast.FunctionDef) -> bool:
    rets = [n for n in own_nodes(fn) if isinstance(n, ast.Return) and n.value is not None]
    if not rets:
        return False
    for r in rets:
        v = r.value
        if isinstance(v, (ast.List, ast.ListComp, ast.Tuple, ast.Dict)):
            continue
        if isinstance(v, ast.Call) and isinstance(v.func, ast.Name) and v.func.id in MATERIALISERS:
            continue
        return False
    return True


def _lazy_reason(e: ast.AST, fn: ast.FunctionDef, mod, algebra_params: set[str], depth: int = 0) -> str | None:
    """None if expression e denotes a materialised / store-independent sequence,
    else a reason why it may be a live generator over store state."""
    if isinstance(e, ast.Call):
        if isinstance(e.func, ast.Name) and e.func.id in MATERIALISERS:
            return None
        if isinstance(e.func, ast.Name):
            if e.func.id in LAZY_FUNCS:
                return "%s(...) is a lazy generator" % e.func.id
            if mod.has(e.func.id) and isinstance(mod.defs[e.func.id], ast.FunctionDef):
                return None if _returns_materialised(mod.defs[e.func.id]) else "%s(...) does not return a materialised sequence" % e.func.id
            return "call to %s not known to materialise" % e.func.id
        if isinstance(e.func, ast.Attribute):
            root = e.func.value
            while isinstance(root, (ast.Attribute, ast.Subscript, ast.Call)):
                root = root.value if not isinstance(root, ast.Call) else root.func
            if isinstance(root, ast.Name) and root.id in algebra_params and e.func.attr in ("items", "keys", "values"):
                return None  # dict view of the algebra node, not store state
            if e.func.attr in LAZY_METHODS:
                return ".%s() is a live iterator over the store" % e.func.attr
            return "method call .%s() not known to materialise" % e.func.attr
    if isinstance(e, (ast.List, ast.Tuple, ast.ListComp, ast.Dict, ast.Set)):
        return None
    if isinstance(e, (ast.Attribute, ast.Subscript)):
        root = e
        while isinstance(root, (ast.Attribute, ast.Subscript)):
            root = root.value
        if isinstance(root, ast.Name) and root.id in algebra_params:
            return None  # part of the parsed request
        return "attribute %s not rooted in the algebra node" % norm(e)
    if isinstance(e, ast.Name):
        if e.id in algebra_params:
            return None
        if depth > 3:
            return "alias chain too long"
        # every binding of the name in the function: a plain assignment, or one position of a tuple that is unpacked - from a tuple display, or
        # from what a function of the module returns when each of its returns is a tuple display (the item at that position, judged in the callee)
        vals: list[tuple[ast.AST, ast.FunctionDef, set[str]]] = []
        for n in own_nodes(fn):
            if isinstance(n, ast.AnnAssign) and isinstance(n.target, ast.Name) and n.target.id == e.id and n.value is not None:
                vals.append((n.value, fn, algebra_params))
            if not isinstance(n, ast.Assign):
                continue
            for t in n.targets:
                if isinstance(t, ast.Name) and t.id == e.id:
                    vals.append((n.value, fn, algebra_params))
                elif isinstance(t, (ast.Tuple, ast.List)) and any(isinstance(x, ast.Name) and x.id == e.id for x in t.elts):
                    if any(isinstance(x, ast.Starred) for x in t.elts):
                        return "name %s is bound by a starred unpacking" % e.id
                    i = [k for k, x in enumerate(t.elts) if isinstance(x, ast.Name) and x.id == e.id][0]
                    v = n.value
                    if isinstance(v, (ast.Tuple, ast.List)) and len(v.elts) == len(t.elts) and not any(isinstance(x, ast.Starred) for x in v.elts):
                        vals.append((v.elts[i], fn, algebra_params))
                    elif isinstance(v, ast.Call) and isinstance(v.func, ast.Name) and mod.has(v.func.id) and isinstance(mod.defs[v.func.id], ast.FunctionDef):
                        callee = mod.defs[v.func.id]
                        rets = [r for r in own_nodes(callee) if isinstance(r, ast.Return)]
                        if not rets or any(isinstance(x, (ast.Yield, ast.YieldFrom)) for x in own_nodes(callee)):
                            return "%s(...) is not known to return a tuple" % v.func.id
                        # the request parameter of the callee: the one that the call binds to a request parameter of this function
                        cparams = [a.arg for a in callee.args.args]
                        calg = {cparams[k] for k, a in enumerate(v.args) if k < len(cparams) and isinstance(a, ast.Name) and a.id in algebra_params}
                        calg |= {k_.arg for k_ in v.keywords if k_.arg in cparams and isinstance(k_.value, ast.Name) and k_.value.id in algebra_params}
                        calg -= {x.id for x in own_nodes(callee) if isinstance(x, ast.Name) and isinstance(x.ctx, ast.Store)}
                        for r in rets:
                            rv = r.value
                            if not (isinstance(rv, ast.Tuple) and len(rv.elts) == len(t.elts) and not any(isinstance(x, ast.Starred) for x in rv.elts)):
                                return "%s(...) returns %s, not a tuple display of %d items" % (v.func.id, norm(rv)[:30] if rv is not None else None, len(t.elts))
                            vals.append((rv.elts[i], callee, calg))
                    else:
                        return "name %s is unpacked from %s, whose items are not known" % (e.id, norm(v)[:40])
        if not vals:
            return "name %s has no local definition" % e.id
        for v, vfn, valg in vals:
            r = _lazy_reason(v, vfn, mod, valg, depth + 1)
            if r:
                return "%s = %s: %s" % (e.id, norm(v)[:50], r)
        return None
    if isinstance(e, ast.GeneratorExp):
        return "generator expression"
    return "unmodelled iterable %s" % type(e).__name__


def _section(rep: Report, repo: Repo, f) -> None:
    """one rule = one layer (vlib.core.layer): a rule that loses its anchor on one view of the tree does not take its neighbours with it"""
    from vlib.core import layer
    layer(rep, lambda _repo, _rep: f(), repo)


def run(repo: Repo, rep: Report) -> None:
    from vlib import h_c10 as H

    rep.extra["explanation"] = EXPLANATION
    up = _plain_mod(repo, "rdflib.plugins.sparql.update")
    eu = _plain_mod(repo, "rdflib.plugins.sparql.evalutils")
    alg = _plain_mod(repo, "rdflib.plugins.sparql.algebra")
    evaluators = {q: f for q, f in up.functions() if q.startswith("eval") and "." not in q}
    if len(evaluators) < 12:
        raise AnalysisError("expected >= 12 update evaluators, found %s" % sorted(evaluators))
    for q in evaluators:
        rep.analysed("rdflib/plugins/sparql/update.py:" + q)
    ft = eu.func("_fillTemplate")
    rep.analysed("rdflib/plugins/sparql/evalutils.py:_fillTemplate")

    # ------------------------------------------------------------------ (a)
    def rule_a() -> None:
        rep.rule("C10.a-materialise-before-mutate",
                 "a loop in an update evaluator whose body mutates a graph iterates a materialised sequence (list/tuple/"
                 "sorted/..., a helper returning one - alone or as one item of a returned tuple that is unpacked -, or part of the parsed request), never a live "
                 "generator over the store: the WHERE pattern is evaluated once, on the state before the operation", floor=8)
        for q, f in evaluators.items():
            alg_params = {a.arg for a in f.args.args if a.arg in ("u", "update")}
            for loop in [n for n in own_nodes(f) if isinstance(n, (ast.For, ast.While))]:
                if isinstance(loop, ast.While):
                    continue
                muts = [n for s in loop.body for n in ast.walk(s) if _is_graph_mutation(repo, up.name, n)]
                if not muts:
                    continue
                why = _lazy_reason(loop.iter, f, up, alg_params)
                rep.ob("C10.a-materialise-before-mutate", up, q, "for %s in %s" % (norm(loop.target), norm(loop.iter)), why is None,
                       "iterates a materialised / request-derived sequence while mutating (%s)" % norm(muts[0])[:50] if why is None else
                       "mutates the store (%s) while iterating a sequence that may still be reading it: %s" % (norm(muts[0])[:50], why), node=loop)

    # ------------------------------------------------------------------ (b)
    def rule_b() -> None:
        rep.rule("C10.b-delete-all-before-insert-all",
                 "in evalModify no control-flow path performs an insertion-template mutation and afterwards a "
                 "deletion-template mutation; both phases iterate the same materialised solution sequence", floor=3)
        em = evaluators.get("evalModify")
        if em is None:
            raise AnalysisError("evalModify vanished")
        g = CFG(em)
        dels, inss = [], []
        for n in own_nodes(em):
            k = _is_graph_mutation(repo, up.name, n)
            if not k:
                continue
            txt = norm(n)
            # template mutations only: those fed by _fillTemplate; ctx.load of USING is a read-side preparation
            if "_fillTemplate" not in txt:
                continue
            (dels if k == "DEL" else inss).append(n)
        if not dels or not inss:
            raise AnalysisError("evalModify: template deletions/insertions not found (dels=%d ins=%d)" % (len(dels), len(inss)))
        for i in inss:
            inode = g.node_of(i, up)
            later_del = [d for d in dels if g.node_of(d, up) in g.reach(inode)]
            rep.ob("C10.b-delete-all-before-insert-all", up, "evalModify", i, not later_del,
                   "no deletion can follow this insertion" if not later_del else
                   "a deletion (%s) can execute after this insertion (per-solution delete/insert): a triple inserted for one solution can be deleted for a later one" % norm(later_del[0])[:60], node=i)
        # same sequence
        seqs = set()
        for n in dels + inss:
            # outermost enclosing for
            outermost = None
            for p in up.parents(n):
                if isinstance(p, ast.For):
                    outermost = p
                if p is em:
                    break
            if outermost is not None:
                seqs.add(norm(outermost.iter))
        rep.ob("C10.b-delete-all-before-insert-all", up, "evalModify", "delete and insert phases iterate %s" % sorted(seqs), len(seqs) == 1,
               "one shared solution sequence" if len(seqs) == 1 else "phases iterate different sequences %s: WHERE would be evaluated twice" % sorted(seqs), node=em)

    # ------------------------------------------------------------------ (c)
    def rule_c() -> None:
        rep.rule("C10.c-bnodes-fresh-per-solution",
                 "_fillTemplate creates its template-bnode map inside the call (not a module global, default argument or "
                 "parameter), and every call site in the update evaluators passes the per-solution binding of the "
                 "innermost solution loop", floor=6)
        maps = []
        for n in own_nodes(ft):
            if isinstance(n, (ast.Assign, ast.AnnAssign)):
                v = n.value
                if isinstance(v, ast.Call) and "BNode" in norm(v) and ("dict" in norm(v.func).lower()):
                    tg = n.targets[0] if isinstance(n, ast.Assign) else n.target
                    maps.append((norm(tg), n))
                if isinstance(v, ast.Dict) and not v.keys:
                    tg = n.targets[0] if isinstance(n, ast.Assign) else n.target
                    maps.append((norm(tg), n))
        # which map is used to rename template bnodes? the one subscripted where isinstance(x, BNode)
        used = None
        for n in ast.walk(ft):
            if isinstance(n, ast.IfExp) and "isinstance" in norm(n.test) and "BNode" in norm(n.test) and isinstance(n.body, ast.Subscript):
                used = norm(n.body.value)
        if used is None:
            # alternative forms: bnodeMap[x] / bnodeMap.setdefault(x, BNode())
            for n in ast.walk(ft):
                if isinstance(n, ast.Subscript) and isinstance(n.value, ast.Name) and "bnode" in n.value.id.lower():
                    used = n.value.id
        if used is None:
            raise AnalysisError("_fillTemplate: bnode renaming map not found")
        params = [a.arg for a in ft.args.args]
        # the map is made inside each call: at the top level of the body, or - when it is an optional parameter with which a caller shares one
        # map between the parts of ONE solution's template - under `if <map> is None:` at the top level (the default must be None, not a map)
        local_ok = any(nm == used and eu.parent.get(id(st)) is ft for nm, st in maps)
        shared_param = False
        if used in params:
            defaults = dict(zip(reversed(params), reversed(ft.args.defaults)))
            d = defaults.get(used)
            none_default = isinstance(d, ast.Constant) and d.value is None
            made_if_none = any(nm == used and isinstance(eu.parent.get(id(st)), ast.If) and norm(eu.parent[id(st)].test) == "%s is None" % used
                               and eu.parent.get(id(eu.parent[id(st)])) is ft for nm, st in maps)
            shared_param = none_default and made_if_none
            local_ok = shared_param
        rep.ob("C10.c-bnodes-fresh-per-solution", eu, "_fillTemplate", "bnode map %s" % used, local_ok,
               ("created in the call unless the caller passes the map of the solution it is filling" if shared_param else "created at the top level of the call: fresh blank nodes for each solution") if local_ok else
               "bnode map %s is not created inside each call: blank nodes would be shared between solutions" % used, node=ft)
        map_pos = params.index(used) if used in params else None
        for q, f in evaluators.items():
            for c in [n for n in own_nodes(f) if isinstance(n, ast.Call) and norm(n.func) == "_fillTemplate"]:
                loopvar, loop = None, None
                for p in up.parents(c):
                    if isinstance(p, ast.For):
                        # the innermost loop over solutions: skip loops over the request's quads dict
                        if _lazy_reason(p.iter, f, up, {"u"}) is None and norm(p.iter).startswith("u."):
                            continue
                        loopvar, loop = norm(p.target), p
                        break
                    if p is f:
                        break
                arg = norm(c.args[1]) if len(c.args) > 1 else None
                ctxp = f.args.args[0].arg if f.args.args else None
                if loopvar is None and arg == ctxp:
                    # ground data (INSERT DATA): no solutions, the template is instantiated once per operation with the context's initial bindings
                    ok, why = True, "ground data: filled once per operation"
                else:
                    ok = loopvar is not None and arg == loopvar
                    why = "called once per solution %s" % loopvar if ok else "template filled with %s outside/away from the per-solution loop variable %s" % (arg, loopvar)
                rep.ob("C10.c-bnodes-fresh-per-solution", up, q, c, ok, why, node=c)
                # a map handed in: it must be made anew for every solution (in the body of that solution's loop), for ground data anew per operation
                marg = None
                if map_pos is not None:
                    if len(c.args) > map_pos:
                        marg = c.args[map_pos]
                    for k in c.keywords:
                        if k.arg == used:
                            marg = k.value
                if marg is not None:
                    # the bindings of the map that can REACH this call (the name may serve another phase elsewhere in the function): each is a plain
                    # assignment that is a statement of the scope of one solution / of the operation, executed before the call in that scope
                    scope = loop if loop is not None else f
                    made = H.reaching_assignments(up, f, marg) if isinstance(marg, ast.Name) else []
                    okm = bool(made) and all(a is not None and up.parent.get(id(a)) is scope and H.precedes_in(up, scope, a, c) for a in made)
                    rep.ob("C10.c-bnodes-fresh-per-solution", up, q, "map %s passed to %s" % (norm(marg), norm(c)[:50]), okm,
                           "made anew for each %s" % ("solution" if loop is not None else "operation") if okm else
                           "the blank node map %s handed to _fillTemplate is not made anew in the body of the loop over solutions: one solution's blank nodes are reused for the next" % norm(marg), node=c)

    # ------------------------------------------------------------------ (d)
    def rule_d() -> None:
        rep.rule("C10.d-unbound-skipped",
                 "_fillTemplate yields a triple only where each of its three instantiated components is known to be not None (identity, not truthiness: a "
                 "falsy literal is a legal term).  Known = a condition that holds whenever the yield is evaluated: an enclosing test, an early exit before it "
                 "in an enclosing block, the condition whose outcome a tested local keeps (`ok = a is not None and ..` .. `if ok:`, nothing it mentions re-bound on the way), "
                 "or what a predicate helper of the module that was called on the components says about its arguments where it "
                 "returns true.  The triple is a display of three expressions, or a name that such a call has shown to have three items", floor=1)
        yields = [y for y in own_nodes(ft) if isinstance(y, ast.Yield)]
        if not yields:
            raise AnalysisError("_fillTemplate has no yield")
        helpers: set[str] = set()
        for y in yields:
            comps = (H.components(eu, ft, y.value, y, 3) if y.value is not None else None) or []
            facts = H.facts_at(eu, ft, y)
            guarded = set()
            for e, truth in facts:
                if isinstance(e, ast.Compare) and len(e.ops) == 1 and isinstance(e.comparators[0], ast.Constant) and e.comparators[0].value is None:
                    if (isinstance(e.ops[0], ast.Is) and not truth) or (isinstance(e.ops[0], ast.IsNot) and truth):
                        guarded.add(norm(e.left))
            for e, _truth in H.atoms(H.guard_facts(eu, ft, y)):
                helpers |= {c.func.id for c in ast.walk(e) if isinstance(c, ast.Call) and isinstance(c.func, ast.Name) and isinstance(eu.defs.get(c.func.id), ast.FunctionDef)}
            ok = len(comps) == 3 and set(comps) <= guarded
            rep.ob("C10.d-unbound-skipped", eu, "_fillTemplate", y, ok,
                   "all of %s tested `is not None`" % comps if ok else
                   ("component(s) %s emitted without an `is not None` test" % sorted(set(comps) - guarded) if comps else
                    "what is yielded (%s) is not known to be a triple of three components, none of which is None" % norm(y.value)[:40]), node=y)
        truthy.scan(repo, rep, "C10.d-unbound-skipped", eu, ft, "_fillTemplate")
        for h in sorted(helpers):  # the predicate helpers the yields rely on decide by identity as well
            truthy.scan(repo, rep, "C10.d-unbound-skipped", eu, eu.defs[h], h)

    # ------------------------------------------------------------------ (e)
    def rule_e() -> None:
        rep.rule("C10.e-request-order-and-arms",
                 "evalUpdate iterates update.algebra in order in one loop and dispatches every update node name that the "
                 "translator handles to its own evaluator", floor=12)
        eup = evaluators.get("evalUpdate")
        if eup is None:
            raise AnalysisError("evalUpdate vanished")
        loops_ = [n for n in own_nodes(eup) if isinstance(n, ast.For)]
        main = [l for l in loops_ if norm(l.iter).endswith(".algebra")]
        rep.ob("C10.e-request-order-and-arms", up, "evalUpdate", "for u in update.algebra", len(main) == 1,
               "operations run in request order" if len(main) == 1 else "evalUpdate does not iterate update.algebra directly (order of operations not preserved: %s)" % [norm(l.iter) for l in loops_], node=eup)
        arms: dict[str, str] = {}
        for n in ast.walk(eup):
            if isinstance(n, ast.If) and isinstance(n.test, ast.Compare) and norm(n.test.left).endswith(".name") and isinstance(n.test.ops[0], ast.Eq) \
                    and isinstance(n.test.comparators[0], ast.Constant):
                calls = [c for s in n.body for c in ast.walk(s) if isinstance(c, ast.Call) and isinstance(c.func, ast.Name) and c.func.id.startswith("eval")]
                arms[n.test.comparators[0].value] = calls[0].func.id if calls else ""
        tu = alg.func("translateUpdate1")
        rep.analysed("rdflib/plugins/sparql/algebra.py:translateUpdate1")
        names = set()
        for n in ast.walk(tu):
            if isinstance(n, ast.Compare) and norm(n.left).endswith(".name"):
                for c in n.comparators:
                    if isinstance(c, ast.Constant):
                        names.add(c.value)
                    elif isinstance(c, ast.Tuple):
                        names |= {e.value for e in c.elts if isinstance(e, ast.Constant)}
        # the grammar's update operations
        par = repo.mod("rdflib.plugins.sparql.parser")
        gram = set()
        for n in ast.walk(par.tree):
            if isinstance(n, ast.Call) and isinstance(n.func, ast.Name) and n.func.id == "Comp" and n.args and isinstance(n.args[0], ast.Constant):
                gram.add(n.args[0].value)
        names |= {x for x in gram if x in ("Load", "Clear", "Drop", "Create", "Add", "Move", "Copy", "InsertData", "DeleteData", "DeleteWhere", "Modify")}
        if len(names) < 11:
            raise AnalysisError("translateUpdate1/parser: expected 11 update operation names, found %s" % sorted(names))
        for nm in sorted(names):
            want = "eval" + nm
            ok = arms.get(nm) == want
            rep.ob("C10.e-request-order-and-arms", up, "evalUpdate", "arm for %s" % nm, ok,
                   "dispatches to %s" % want if ok else "update operation %s dispatches to %r" % (nm, arms.get(nm)), node=eup)

    # ------------------------------------------------------------------ (f)
    def rule_f() -> None:
        rep.rule("C10.f-graph-management-order",
                 "in evalAdd/evalMove/evalCopy every feasible path to a mutation has evaluated the source==target test (a comparison of the identifiers of the "
                 "two graphs) and found the graphs different - whether the test returns at once, its outcome is kept (in a local that is None or not) and "
                 "tested later, or it is a property of the record (NamedTuple of the module) that holds the two graphs; MOVE/COPY clear the target before copying, and MOVE drops the source only after the copy.  Which graph a local stands for "
                 "follows the values: it was obtained by a call that is given the source (target) term of the request, or on a branch chosen by a test of "
                 "that term alone; through copies, tuples and records of the module that are packed and unpacked (by position or by field)", floor=6)
        R = H.Records(up)

        for q in ("evalAdd", "evalMove", "evalCopy"):
            f = evaluators.get(q)
            if f is None:
                raise AnalysisError("%s vanished" % q)
            g = CFG(f)
            tests: dict[int, bool] = {}  # CFG node of an `if` that decides on a comparison of the identifiers -> does its true edge mean `same graph`

            def written_out(v: ast.AST, where: int) -> list[tuple[ast.AST, int]] | None:
                """`X.a`, X a local that can only hold (at node `where`) constructions of a record of the module: what the attribute stands for in each of them
                (the argument given for the field, the expression a property returns with the fields written out); any other expression: itself"""
                if not (isinstance(v, ast.Attribute) and isinstance(v.value, ast.Name)):
                    return [(v, where)]
                hv = H.held_values(g, where, v.value.id, items=R.items)
                if not hv or any(R.construction(c) is None for c, _w in hv):
                    return [(v, where)]
                out = [(R.attribute(c, v.attr), w) for c, w in hv]
                return None if any(e is None for e, _w in out) else out  # type: ignore[return-value]

            def same_graph(t: ast.AST, at: int) -> bool | None:
                """does the truth of condition t (evaluated at node `at`) mean that the identifiers of the two graphs are equal (True) / differ (False)"""
                pol = True
                while isinstance(t, ast.UnaryOp) and isinstance(t.op, ast.Not):
                    t, pol = t.operand, not pol
                if isinstance(t, ast.Compare) and len(t.ops) == 1 and isinstance(t.ops[0], (ast.Eq, ast.NotEq)) and ".identifier" in norm(t):
                    return pol == isinstance(t.ops[0], ast.Eq)
                if isinstance(t, ast.Attribute):  # the outcome of the comparison as a property of the record that holds the two graphs
                    wo = written_out(t, at)
                    pols = {same_graph(v, where) for v, where in wo} if wo and not any(v is t for v, _w in wo) else {None}
                    if len(pols) == 1 and None not in pols:
                        return pol == pols.pop()
                if isinstance(t, ast.Name):  # the outcome of the comparison, kept in a local
                    hv = H.held_values(g, at, t.id, items=R.items)
                    pols = {same_graph(v, where) for v, where in hv} if hv and not any(isinstance(v, ast.Name) for v, _w in hv) else {None}
                    if len(pols) == 1 and None not in pols:
                        return pol == pols.pop()
                return None
            for n in own_nodes(f):
                if isinstance(n, ast.If):
                    sg = same_graph(n.test, g.by_ast[id(n)])
                    if sg is not None:
                        tests[g.by_ast[id(n)]] = sg
            muts = [(n, _is_graph_mutation(repo, up.name, n)) for n in own_nodes(f)]
            muts = [(n, k) for n, k in muts if k]
            if not muts:
                raise AnalysisError("%s: no graph mutation found" % q)
            for n, k in muts:
                seen = H.test_outcomes(g, tests, g.node_of(n, up)) if tests else {"untested"}
                ok = seen <= {"fails"}
                rep.ob("C10.f-graph-management-order", up, q, n, ok,
                       "reached only after the source==target test has found two different graphs" if ok else
                       "mutation is reachable %s (src == dst would be destroyed)" % (
                           "without passing the source==target test" if "untested" in seen else "on a path on which the source==target test has found the same graph"), node=n)
            if q in ("evalMove", "evalCopy"):
                # the two terms of the request: `src, dst = u.graph`
                pair = None
                for n in own_nodes(f):
                    if isinstance(n, ast.Assign) and isinstance(n.targets[0], ast.Tuple) and norm(n.value).endswith(".graph"):
                        pair = [norm(e) for e in n.targets[0].elts]
                if not pair or len(pair) != 2:
                    raise AnalysisError("%s: `src, dst = u.graph` not found" % q)

                def term_role(names: set[str]) -> str | None:
                    m = names & set(pair)
                    return ("src" if m == {pair[0]} else "dst") if len(m) == 1 else None

                def value_role(v: ast.AST, where: int) -> str:
                    if isinstance(v, ast.Call):  # a graph obtained for one of the two terms: _graphOrDefault(ctx, dst), ctx.dataset.get_context(src) ...
                        r = term_role({a.id for a in list(v.args) + [k.value for k in v.keywords] if isinstance(a, ast.Name)})
                        if r:
                            return r
                    st = g.nodes[where].ast
                    for p in up.parents(st) if st is not None else []:  # ... or on a branch that a test of one of the terms has chosen
                        if p is f:
                            break
                        if isinstance(p, ast.If):
                            r = term_role(H._names(p.test))
                            if r:
                                return r
                    return "?"

                def roles(e: ast.AST, at: ast.AST) -> set[str]:
                    if not isinstance(e, ast.Name):
                        return {"?"}
                    hv = H.held_values(g, g.node_of(at, up), e.id, through_augmented=True, items=R.items)
                    if not hv:
                        return {"?"}
                    out: set[str] = set()
                    for v, where in hv:
                        wo = written_out(v, where)
                        out |= {value_role(v2, w2) for v2, w2 in wo} if wo else {"?"}
                    return out
                clear_dst = [n for n, k in muts if k == "DEL" and isinstance(n, ast.Call) and roles(n.func.value, n) == {"dst"}]
                copy = [n for n, k in muts if k == "INS" and isinstance(n, ast.AugAssign) and roles(n.target, n) == {"dst"} and roles(n.value, n) == {"src"}]
                drop_src = [n for n, k in muts if k == "DEL" and isinstance(n, ast.Call) and (roles(n.func.value, n) == {"src"} or any(roles(a, n) == {"src"} for a in n.args))]
                rolemap = {norm(x): "/".join(sorted(roles(x, n))) for n, _k in muts for x in ([n.target, n.value] if isinstance(n, ast.AugAssign) else [n.func.value] + list(n.args)) if isinstance(x, ast.Name)}
                ok = bool(clear_dst) and bool(copy) and all(g.node_of(cp, up) in g.reach(g.node_of(cl, up)) for cl in clear_dst for cp in copy) \
                    and not any(g.node_of(cl, up) in g.reach(g.node_of(cp, up)) for cl in clear_dst for cp in copy)
                rep.ob("C10.f-graph-management-order", up, q, "clear target, then copy source into it", ok,
                       "target cleared before the copy" if ok else "target is not cleared strictly before `dst += src` (roles %s)" % rolemap, node=f)
                if q == "evalMove":
                    ok = bool(drop_src) and not any(g.node_of(cp, up) in g.reach(g.node_of(d, up)) for d in drop_src for cp in copy) \
                        and all(g.must_pass_after(g.node_of(cp, up), {g.node_of(d, up) for d in drop_src}) for cp in copy)
                    rep.ob("C10.f-graph-management-order", up, q, "source dropped after the copy on every path", ok,
                           "source removed only after it was copied" if ok else "source graph is not removed after the copy on every path (or is removed before it)", node=f)

    # ------------------------------------------------------------------ (g)
    def rule_g() -> None:
        rep.rule("C10.g-quad-blocks-accumulate",
                 "translateQuads accumulates the triples of every GRAPH block under its graph term (+= / extend / append on "
                 "the per-graph list); it never overwrites an earlier block for the same term", floor=1)
        tq = alg.func("translateQuads")
        rep.analysed("rdflib/plugins/sparql/algebra.py:translateQuads")
        ret = [n for n in own_nodes(tq) if isinstance(n, ast.Return)]
        dname = None
        if ret and isinstance(ret[-1].value, ast.Tuple) and len(ret[-1].value.elts) == 2:
            dname = norm(ret[-1].value.elts[1])
        if dname is None:
            raise AnalysisError("translateQuads: returned per-graph map not found")
        nacc = 0
        for n in own_nodes(tq):
            if isinstance(n, ast.AugAssign) and isinstance(n.target, ast.Subscript) and norm(n.target.value) == dname:
                nacc += 1
                rep.ob("C10.g-quad-blocks-accumulate", alg, "translateQuads", n, isinstance(n.op, ast.Add), "accumulates", node=n)
            elif isinstance(n, ast.Call) and isinstance(n.func, ast.Attribute) and n.func.attr in ("extend", "append") and isinstance(n.func.value, ast.Subscript) \
                    and norm(n.func.value.value) == dname:
                nacc += 1
                rep.ob("C10.g-quad-blocks-accumulate", alg, "translateQuads", n, True, "accumulates", node=n)
            elif isinstance(n, ast.Assign) and any(isinstance(t, ast.Subscript) and norm(t.value) == dname for t in n.targets):
                nacc += 1
                rep.ob("C10.g-quad-blocks-accumulate", alg, "translateQuads", n, False,
                       "overwrites the entry for a graph term: an earlier GRAPH block naming the same graph is lost", node=n)
            elif isinstance(n, ast.Call) and isinstance(n.func, ast.Attribute) and n.func.attr in ("update", "setdefault", "__setitem__") and norm(n.func.value) == dname:
                nacc += 1
                ok = n.func.attr == "setdefault"
                rep.ob("C10.g-quad-blocks-accumulate", alg, "translateQuads", n, ok,
                       "setdefault keeps earlier entries" if ok else "%s() replaces the entry for a graph term: an earlier GRAPH block naming the same graph is lost" % n.func.attr, node=n)
        if nacc == 0:
            rep.ob("C10.g-quad-blocks-accumulate", alg, "translateQuads", "writes to %s" % dname, False, "no write to the per-graph map found", node=tq)

    # ------------------------------------------------------------------ (h)
    def rule_h() -> None:
        from checks.c15 import translation_cache_rule

        translation_cache_rule(repo, rep, "C10.h-update-translation-not-cached", ("translateUpdate",))

    for sec in (rule_a, rule_b, rule_c, rule_d, rule_e, rule_f, rule_g, rule_h):
        _section(rep, repo, sec)
    _section(rep, repo, lambda: real_default_graph_rule(repo, rep))
    _section(rep, repo, lambda: active_graph_rule(repo, rep))


def real_default_graph_rule(repo: Repo, rep: Report) -> None:
    """(i) writes outside GRAPH go to the real default graph"""
    up = _plain_mod(repo, "rdflib.plugins.sparql.update")
    rep.rule("C10.i-writes-target-real-default-graph",
             "no update evaluator (nor _graphOrDefault/_graphAll) mutates, or hands out for mutation, `ctx.graph` itself: with the default-graph-is-union "
             "switch on that is the union view of the dataset; the target of writes outside GRAPH is obtained through a selector that maps a "
             "ConjunctiveGraph/Dataset to its default_context (`_defaultGraph(ctx)`; that the selector decides by isinstance and not by exact type is rule m)", floor=6)
    # selectors: functions that return ctx.dataset.default_context / g.default_context for dataset-typed ctx.graph
    selectors = set()
    for q, f in up.functions():
        if "." in q:
            continue
        rets = [r for r in own_nodes(f) if isinstance(r, ast.Return) and r.value is not None]
        if rets and any("default_context" in norm(r.value) for r in rets) and any(isinstance(n, ast.If) and ("isinstance" in norm(n.test) or "type(" in norm(n.test)) for n in own_nodes(f)):
            selectors.add(q)
    rep.info["default_graph_selectors"] = sorted(selectors)
    nsites = 0
    for q, f in up.functions():
        if "." in q or q in selectors:
            continue
        # names that alias ctx.graph directly
        direct = set()
        for n in own_nodes(f):
            if isinstance(n, ast.Assign) and norm(n.value).endswith("ctx.graph") and isinstance(n.targets[0], ast.Name) and isinstance(n.value, ast.Attribute):
                direct.add(n.targets[0].id)
        for n in own_nodes(f):
            recv = None
            if isinstance(n, ast.AugAssign) and isinstance(n.op, (ast.Add, ast.Sub)):
                recv = n.target
            elif isinstance(n, ast.Call) and isinstance(n.func, ast.Attribute) and n.func.attr in ("add", "addN", "remove", "remove_graph", "parse"):
                recv = n.func.value if n.func.attr != "remove_graph" else (n.args[0] if n.args else None)
            elif isinstance(n, ast.Return) and n.value is not None and q.startswith("_graph"):
                # helpers that hand out the graph to be mutated
                recv = n.value.elts[0] if isinstance(n.value, ast.List) and n.value.elts else n.value
            if recv is None:
                continue
            txt = norm(recv)
            is_ctx_graph = txt in ("ctx.graph",) or (isinstance(recv, ast.Name) and recv.id in direct)
            uses_selector = any(isinstance(c, ast.Call) and norm(c.func) in selectors for c in ast.walk(recv)) or (
                isinstance(recv, ast.Name) and any(isinstance(a, ast.Assign) and norm(a.targets[0]) == recv.id and (
                    any(isinstance(c, ast.Call) and norm(c.func) in selectors for c in ast.walk(a.value)) or "default_context" in norm(a.value)) for a in own_nodes(f)))
            if not (is_ctx_graph or uses_selector or "ctx.graph" in txt):
                continue
            nsites += 1
            rep.ob("C10.i-writes-target-real-default-graph", up, q, n if not isinstance(n, ast.Return) else "return %s" % txt, not is_ctx_graph,
                   "target resolved to the real default graph" if not is_ctx_graph else
                   "the write (or the graph handed out for writing) is `ctx.graph` itself: on a Dataset/ConjunctiveGraph with the union switch on this is the union view - the operation hits every graph (or fails) instead of the default graph", node=n)
    if not selectors:
        rep.ob("C10.i-writes-target-real-default-graph", up, "<module>", "a default-graph selector exists", False, "no function maps a dataset-typed ctx.graph to its default_context", node=up.tree)


def active_graph_rule(repo: Repo, rep: Report) -> None:
    """(j) WITH / USING select the active graph of WHERE and of the templates (path-sensitive reaching definitions of the query context)"""
    from vlib import h_c10 as H
    from vlib.cfg import reaching_defs

    up = _plain_mod(repo, "rdflib.plugins.sparql.update")
    rep.rule("C10.j-with-using-select-active-graph",
             "in evalModify, for each of the four presence combinations of USING and WITH, the query context that is current (the value of the local that holds "
             "it - whatever that local is called, at each of the calls that evaluate WHERE (no path passes two of them) -, followed on every feasible path through copies and tuples that are packed and unpacked; branch feasibility "
             "from the fixed truth of u.using/u.withClause and the exactly tracked one-bit local flags) is: at the "
             "WHERE evaluation - the WITH graph pushed on the caller's context iff WITH and no USING, never the WITH graph when USING is present, the caller's context otherwise "
             "(or the USING scratch default graph); at every statement that selects the graph the templates are applied to (reads the active graph of a context: "
             "the value the template target holds is followed back to that read) - the WITH graph pushed iff WITH "
             "is present, and otherwise the caller's own context (never the USING scratch dataset)", floor=8)
    em = up.func("evalModify")
    if em is None:
        raise AnalysisError("evalModify vanished")
    T = repo.typed
    g = CFG(em)
    p0 = em.args.args[0].arg
    uname = em.args.args[1].arg
    # the atoms must be invariant: u and its attributes are never re-bound in the function
    for n in own_nodes(em):
        if isinstance(n, ast.Name) and n.id == uname and isinstance(n.ctx, ast.Store):
            raise AnalysisError("evalModify re-binds its update node parameter")
        if isinstance(n, ast.Attribute) and isinstance(n.ctx, ast.Store) and norm(n.value) == uname:
            raise AnalysisError("evalModify assigns an attribute of its update node")
    A_USING, A_WITH = "%s.using" % uname, "%s.withClause" % uname
    KNOWN = ("CALLER", "WITH", "SCRATCH")

    def classes(name: str, at: int, assume: dict, depth: int = 0) -> set[str]:
        """classes of the values the local `name` can hold when node `at` is reached"""
        return {classify(d, name, assume, depth) for d in reaching_defs(g, at, name, assume)}

    def classify(nid: int, name: str, assume: dict, depth: int = 0) -> str:
        """class of one binding of a local that holds a query context"""
        if nid == g.entry:
            return "CALLER" if name == p0 else "OTHER(%s at entry)" % name
        st = g.nodes[nid].ast
        v = H.bound_value(st, name) if st is not None else None
        if v is None or depth > 4:
            return "OTHER(%s)" % norm(st)[:40]
        if isinstance(v, ast.Name):
            # a copy: the class of the value that name holds here
            cls = classes(v.id, nid, assume, depth + 1)
            return cls.pop() if len(cls) == 1 else "MIXED(%s)" % ",".join(sorted(cls))
        if isinstance(v, ast.Call) and isinstance(v.func, ast.Attribute) and v.func.attr == "pushGraph" and isinstance(v.func.value, ast.Name) and v.args:
            # a graph pushed on a context: it must be the caller's (its dataset is the one the templates write to)
            base = classes(v.func.value.id, nid, assume, depth + 1)
            a = v.args[0]
            srcs = set()
            if isinstance(a, ast.Name):
                for d in reaching_defs(g, nid, a.id, assume):
                    ds = g.nodes[d].ast
                    val = H.bound_value(ds, a.id) if ds is not None else None
                    if val is not None:
                        srcs.add(norm(val))
                    else:
                        srcs.add("?" + (norm(ds)[:30] if ds is not None else "entry"))
            else:
                srcs.add(norm(a))
            if base != {"CALLER"}:
                return "PUSH(on %s)" % "/".join(sorted(base))[:50]
            if srcs and all("get_context(%s)" % A_WITH in s for s in srcs):
                return "WITH"
            if srcs and all(s in ("Graph()",) for s in srcs):
                return "SCRATCH"
            return "PUSH(%s)" % ",".join(sorted(srcs))[:60]
        if isinstance(v, ast.Call) and norm(v.func) == "QueryContext" and any(k.arg == "datasetClause" and norm(k.value) == A_USING for k in v.keywords):
            # a context of its own, whose dataset is built from the USING clauses (as a query's from FROM / FROM NAMED)
            return "SCRATCH"
        return "OTHER(%s)" % norm(st)[:40]

    def holds_context(x: ast.Name, at: int) -> bool:
        """is the local x, read at node `at`, a query context: by its static type, by being the context parameter, or by what it was bound to"""
        if x.id == p0:
            return True
        tf = T.type_of(up.name, x)
        if tf is not None and tf.items:
            return any(it.endswith(".QueryContext") for it in tf.items)
        return any(c.startswith(KNOWN) or c.startswith("PUSH") for c in classes(x.id, at, {}))

    # sites
    where_sites = [n for n in own_nodes(em) if isinstance(n, ast.Call) and norm(n.func) == "evalPart" and len(n.args) == 2 and norm(n.args[1]) == "%s.where" % uname]
    # (one call, or one per branch of the USING / WITH case distinction: each is judged under the presence combinations that can reach it, every
    # combination must reach one, and no path evaluates WHERE twice)
    if not where_sites:
        raise AnalysisError("evalModify: no evalPart(ctx, u.where) call found")
    for ws in where_sites:
        if not isinstance(ws.args[0], ast.Name):
            raise AnalysisError("evalModify: the context handed to evalPart is not a local: %s" % norm(ws.args[0])[:60])
    # helpers of the module that hand out the active graph of the context they are given (`_defaultGraph(ctx)` reads ctx.graph)
    graph_selectors = set()
    for q in up.defs:
        hf = up.defs.get(q)
        if isinstance(hf, ast.FunctionDef) and hf.args.args:
            hp0 = hf.args.args[0].arg
            if any(isinstance(x, ast.Attribute) and x.attr == "graph" and norm(x.value) == hp0 for x in own_nodes(hf)) and any(isinstance(x, ast.Return) for x in own_nodes(hf)):
                graph_selectors.add(q)

    def active_graph_read(x: ast.AST, at: int) -> str | None:
        """the local whose active graph the expression x reads: `C.graph`, `selector(C)`, C a local that holds a context"""
        c = None
        if isinstance(x, ast.Attribute) and x.attr == "graph" and isinstance(x.value, ast.Name):
            c = x.value
        elif isinstance(x, ast.Call) and norm(x.func) in graph_selectors and x.args and isinstance(x.args[0], ast.Name):
            c = x.args[0]
        return c.id if c is not None and holds_context(c, at) else None

    def head_exprs(st: ast.AST) -> list[ast.AST]:
        """the expressions a binding statement evaluates (not the statements nested in it)"""
        if isinstance(st, (ast.Assign, ast.AnnAssign, ast.AugAssign)):
            return [st.value] if st.value is not None else []
        if isinstance(st, (ast.For, ast.AsyncFor)):
            return [st.iter]
        if isinstance(st, (ast.With, ast.AsyncWith)):
            return [it.context_expr for it in st.items]
        return []

    tmpl_sites: list[tuple[ast.AST, str]] = []  # (statement that reads the active graph of a context to pick the graph a template is applied to, that context's local)

    def add_site(st: ast.AST, var: str) -> None:
        if not any(s is st and v == var for s, v in tmpl_sites):
            tmpl_sites.append((st, var))

    def roots(e: ast.AST) -> list[ast.Name]:
        """the locals whose object the value of e is taken from: e itself, or what e reads an attribute / an item of / calls a method of"""
        if isinstance(e, ast.Name):
            return [e]
        if isinstance(e, (ast.Attribute, ast.Subscript, ast.Starred)):
            return roots(e.value)
        if isinstance(e, ast.Call) and isinstance(e.func, ast.Attribute):
            return roots(e.func.value)
        if isinstance(e, ast.IfExp):
            return roots(e.body) + roots(e.orelse)
        return []

    def trace(name: str, at: int, seen: set, depth: int = 0) -> None:
        """follow the object that local `name` holds at node `at` back to the statements that read it from the active graph of a context"""
        for d in reaching_defs(g, at, name, {}):
            if d == g.entry or (d, name) in seen:
                continue
            seen.add((d, name))
            ds = g.nodes[d].ast
            if ds is None:
                continue
            if isinstance(ds, ast.AugAssign):  # `x -= ..` leaves in x the graph it held
                trace(name, d, seen, depth)
                continue
            v = H.bound_value(ds, name)
            heads = [v] if v is not None else head_exprs(ds)
            reads = [r for h in heads for x in ast.walk(h) for r in [active_graph_read(x, d)] if r]
            if reads:
                # only the ACTIVE graph (ctx.graph) depends on which context is current; ctx.dataset is shared by all pushed contexts
                for r in reads:
                    add_site(ds, r)
            elif depth < 6:
                for h in heads:
                    for x in roots(h):
                        trace(x.id, d, seen, depth + 1)
    for n in own_nodes(em):
        if isinstance(n, ast.AugAssign) and any(isinstance(c, ast.Call) and norm(c.func) == "_fillTemplate" for c in ast.walk(n.value)):
            t = n.target
            nn = g.node_of(n, up)
            if isinstance(t, ast.Name):
                trace(t.id, nn, set())
            else:
                for x in ast.walk(t):
                    r = active_graph_read(x, nn)
                    if r:
                        add_site(n, r)
    if len(tmpl_sites) < 1:
        raise AnalysisError("evalModify: found no statement selecting the template target from ctx.graph")
    rep.info["C10.j_sites"] = {"where": [norm(w) for w in where_sites], "template_targets": [norm(s)[:90] for s, _v in tmpl_sites]}
    wnodes = [g.node_of(w, up) for w in where_sites]
    again = [w for w, a in zip(where_sites, wnodes) if any(b in g.reach(a, skip_exc=True) for b in wnodes)]
    if again or len(where_sites) > 1:
        rep.ob("C10.j-with-using-select-active-graph", up, "evalModify", "WHERE is evaluated once: %d call(s) of evalPart on u.where" % len(where_sites), not again,
               "on branches that exclude each other" if not again else
               "after %s the WHERE pattern can be evaluated again on the same path: the second evaluation sees another state (or another active graph) than the first" % norm(again[0])[:60], node=again[0] if again else where_sites[0])
    for using in (False, True):
        for withc in (False, True):
            assume = {A_USING: using, A_WITH: withc}
            tag = "USING %s, WITH %s" % ("present" if using else "absent", "present" if withc else "absent")
            cls = sorted(set().union(*[classes(w.args[0].id, wn, assume) for w, wn in zip(where_sites, wnodes)]))
            if using:
                allowed = {"CALLER", "SCRATCH"}
            elif withc:
                allowed = {"WITH"}
            else:
                allowed = {"CALLER"}
            ok = bool(cls) and set(cls) <= allowed
            rep.ob("C10.j-with-using-select-active-graph", up, "evalModify", "[%s] WHERE evaluated in %s" % (tag, "/".join(cls) or "unreachable"), ok,
                   "as the Update semantics prescribe" if ok else "the context WHERE is evaluated in can be %s; allowed here: %s" % ("/".join(cls) or "none: no evaluation of WHERE is reached", "/".join(sorted(allowed))),
                   node=next((w for w, wn in zip(where_sites, wnodes) if classes(w.args[0].id, wn, assume)), where_sites[0]))
            for s, var in tmpl_sites:
                sn = g.node_of(s, up)
                cls = sorted(classes(var, sn, assume))
                allowed = {"WITH"} if withc else {"CALLER"}
                ok = bool(cls) and set(cls) <= allowed
                rep.ob("C10.j-with-using-select-active-graph", up, "evalModify", "[%s] template target `%s` chosen in %s" % (tag, norm(s)[:50], "/".join(cls) or "unreachable"), ok,
                       "as the Update semantics prescribe" if ok else
                       "with %s the graph the DELETE/INSERT templates outside GRAPH are applied to is selected from the %s context; it must be %s" % (
                           tag, "/".join(cls), "the WITH graph" if withc else "the caller's dataset (real default graph)"), node=s)


from vlib.core import layer as _layer  # noqa: E402

_run_base = run


def run(repo: Repo, rep: Report) -> None:  # noqa: F811
    _layer(rep, _run_base, repo)
    up = _plain_mod(repo, "rdflib.plugins.sparql.update")
    alg = _plain_mod(repo, "rdflib.plugins.sparql.algebra")
    # ------------------------------------------------------------------ (k)
    def rule_k() -> None:
        rep.rule("C10.k-solution-multiset-kept",
                 "the update evaluators materialise the WHERE solutions with list(...) / tuple(...) of the solution stream itself: the templates are instantiated once per SOLUTION "
                 "(blank nodes in an INSERT template are fresh per solution, so two identical solutions insert two blank nodes). set(), frozenset(), dict.fromkeys(), a set/dict "
                 "comprehension or sorted(set(...)) over the stream collapse equal solutions", floor=2)
        for q in ("evalModify", "evalDeleteWhere"):
            f = up.func(q)
            streams = {norm(a.targets[0]) for a in own_nodes(f) if isinstance(a, ast.Assign) and isinstance(a.value, ast.Call) and norm(a.value.func) in ("evalPart", "evalBGP", "_join")}
            for c in own_nodes(f):
                if not isinstance(c, ast.Call) or not c.args:
                    continue
                fn = norm(c.func)
                over = norm(c.args[0])
                if fn in ("list", "tuple") and over in streams:
                    rep.ob("C10.k-solution-multiset-kept", up, q, c, True, "multiplicity-preserving", node=c)
                elif over in streams and fn in ("set", "frozenset", "dict.fromkeys", "OrderedDict.fromkeys", "sorted") or (
                        fn in ("list", "tuple", "sorted") and isinstance(c.args[0], ast.Call) and norm(c.args[0].func) in ("set", "frozenset", "dict.fromkeys", "OrderedDict.fromkeys") and c.args[0].args and norm(c.args[0].args[0]) in streams):
                    if fn == "sorted" and over in streams:
                        continue  # sorted(stream) keeps multiplicity
                    rep.ob("C10.k-solution-multiset-kept", up, q, c, False,
                           "%s collapses equal solutions: a template with a blank node is instantiated once where the solution multiset has it twice (UNION branches, a sub-SELECT that projects the distinguishing variable away)" % norm(c)[:60], node=c)

    # ------------------------------------------------------------------ (l)
    def rule_l() -> None:
        rep.rule("C10.l-each-operation-under-its-own-prologue",
                 "translateUpdate folds the prologue that precedes operation i (PREFIX / BASE written between the operations of one request) and translates operation i in the same "
                 "iteration of one loop over the (prologue, operation) pairs: an operation is resolved against the declarations in force at its position, a later re-declaration of a "
                 "prefix must not rewrite the IRIs of earlier operations", floor=1)
        tu = alg.func("translateUpdate")
        tp = [c for c in own_nodes(tu) if isinstance(c, ast.Call) and norm(c.func) == "translatePrologue"]

        def _in_returning_branch(c):
            # a call made in a branch that returns at once (the request without operations: only its prologue is folded) translates no operation afterwards
            for p_ in alg.parents(c):
                if isinstance(p_, ast.Return):
                    return True
                if isinstance(p_, ast.If) and any(c is x for s_ in p_.body for x in ast.walk(s_)) and isinstance(p_.body[-1], ast.Return):
                    return True
                if p_ is tu:
                    return False
            return False
        tp = [c for c in tp if not _in_returning_branch(c)]
        t1 = [c for c in own_nodes(tu) if isinstance(c, ast.Call) and norm(c.func) in ("translateUpdate1", "translatePName") or (isinstance(c, ast.Call) and any("translatePName" in norm(a) for a in c.args) and norm(c.func) == "functools.partial")]
        if not tp or not t1:
            raise AnalysisError("translateUpdate: prologue folding / operation translation calls not found")

        def loop_of(n):
            for p_ in alg.parents(n):
                if isinstance(p_, (ast.For, ast.While)):
                    return p_
                if p_ is tu:
                    return None
            return None
        lp = {id(loop_of(c)) for c in tp}
        lo = {id(loop_of(c)) for c in t1}
        same = lp == lo and None not in {loop_of(c) for c in tp}
        rep.ob("C10.l-each-operation-under-its-own-prologue", alg, "translateUpdate", "translatePrologue and the translation of the operation share one loop", same,
               "per-operation prologue" if same else
               "all prologues are folded before any operation is translated: `PREFIX v: <a> INSERT DATA { v:x ... } ; PREFIX v: <b> INSERT DATA { ... }` resolves the FIRST operation's v:x against <b>", node=tp[0])

    for sec in (rule_k, rule_l):
        _section(rep, repo, sec)


# ======================================================================================================================
# rules m-s: structural conditions behind the repaired defects F110-F119 (each is quantified over every site of its kind)
# ======================================================================================================================
_run_base2 = run

# keyword targets of CLEAR / DROP that a single graph can serve: it is the default graph of its own one-graph dataset
SINGLE_GRAPH_TARGETS = {"DEFAULT": "the graph itself is the default graph", "ALL": "the default graph is all there is"}
_TRAVERSERS = ("traverse", "_traverse", "_traverseAgg")


def run(repo: Repo, rep: Report) -> None:  # noqa: F811
    _layer(rep, _run_base2, repo)
    from vlib import h_c10 as H

    T = repo.typed
    up = _plain_mod(repo, "rdflib.plugins.sparql.update")
    eu = _plain_mod(repo, "rdflib.plugins.sparql.evalutils")
    alg = _plain_mod(repo, "rdflib.plugins.sparql.algebra")
    sp = repo.mod("rdflib.plugins.sparql.sparql")
    ev = repo.mod("rdflib.plugins.sparql.evaluate")
    rep.extra["explanation"] = rep.extra.get("explanation", "") + (
        " (m) single graph vs dataset is decided by isinstance, never by exact type; (n) CLEAR/DROP DEFAULT|ALL never reach the raising "
        "QueryContext.dataset property on a context without a dataset; (o) a template triple with a literal subject or non-IRI predicate is skipped; "
        "(p) inserted request templates pass through _fillTemplate and all parts of one instantiation share one fresh blank-node map; "
        "(q) a graph term of the request names a graph only after instantiation and an IdentifiedNode test, raw only for operations whose "
        "data the translator checks to be ground; (r) USING is handed to QueryContext as FROM is, only LOAD loads; (s) the WHERE of an update gets "
        "every algebra pass a query pattern gets.")
    evaluators = {q: f for q, f in up.functions() if q.startswith("eval") and "." not in q}
    eup = evaluators.get("evalUpdate")
    if eup is None:
        raise AnalysisError("evalUpdate vanished")
    # operation name of each evaluator, from the dispatch arms of evalUpdate
    op_of: dict[str, str] = {}
    for n in ast.walk(eup):
        if isinstance(n, ast.If) and isinstance(n.test, ast.Compare) and norm(n.test.left).endswith(".name") and isinstance(n.test.ops[0], ast.Eq) \
                and isinstance(n.test.comparators[0], ast.Constant):
            for s in n.body:
                for c in ast.walk(s):
                    if isinstance(c, ast.Call) and isinstance(c.func, ast.Name) and c.func.id in evaluators:
                        op_of[c.func.id] = n.test.comparators[0].value
    if len(op_of) < 11:
        raise AnalysisError("evalUpdate: expected 11 dispatch arms, found %s" % sorted(op_of))

    def cls_full(mod, node: ast.AST) -> str | None:
        r = T.ref(mod.name, node)
        if r and r in T.classes:
            return r
        nm = node.id if isinstance(node, ast.Name) else node.attr if isinstance(node, ast.Attribute) else None
        cands = [c for c in T.classes if c.rsplit(".", 1)[-1] == nm]
        return cands[0] if len(cands) == 1 else None

    def class_list(e: ast.AST) -> list[ast.AST]:
        return list(e.elts) if isinstance(e, (ast.Tuple, ast.List, ast.Set)) else [e]

    def ctx_typed(mod, e: ast.AST, fn: ast.FunctionDef) -> bool:
        tf = T.type_of(mod.name, e)
        if tf is not None and tf.items:
            return any(it.endswith(".QueryContext") for it in tf.items)
        return isinstance(e, ast.Name) and bool(fn.args.args) and e.id == fn.args.args[0].arg and "QueryContext" in norm(fn.args.args[0].annotation or "")

    ft = eu.func("_fillTemplate")
    tu = alg.func("translateUpdate1")

    def sub_of(mod, cs: list[ast.AST], base: str) -> bool:
        fl = [cls_full(mod, c) for c in cs]
        return bool(fl) and all(x is not None and T.is_subclass(x, base) for x in fl)

    def has_cls(mod, cs: list[ast.AST], full: str) -> bool:
        return any(cls_full(mod, c) == full for c in cs)

    # ------------------------------------------------------------------ (m)  F110
    def rule_m() -> None:
        rep.rule("C10.m-graph-kind-by-isinstance",
                 "the SPARQL engine tells a single graph from a dataset (and any other class with subclasses in the package from its siblings) by isinstance, never by "
                 "comparing type(x) / x.__class__ with the class: an instance of a subclass takes the other branch. `type(ctx.graph) is Graph` sends an instance of a "
                 "Graph subclass (class MyGraph(Graph)) down the dataset branch, where DELETE/INSERT ... WHERE raises for a missing dataset instead of updating the graph", floor=2)  # 3 on the pinned tree; one of them is a typing-only assert under TYPE_CHECKING
        for mod in (up, sp, ev, eu):
            for q, f in mod.functions():
                for n in own_nodes(f):
                    if isinstance(n, ast.Call) and isinstance(n.func, ast.Name) and n.func.id == "isinstance" and len(n.args) == 2:
                        fulls = [cls_full(mod, c) for c in class_list(n.args[1])]
                        if any(fl and T.is_subclass(fl, "rdflib.graph.Graph") for fl in fulls):
                            rep.ob("C10.m-graph-kind-by-isinstance", mod, q, n, True, "membership test: instances of subclasses follow their base class", node=n)
                    elif isinstance(n, ast.Compare):
                        sides = [n.left] + list(n.comparators)
                        exact = [s for s in sides if (isinstance(s, ast.Call) and isinstance(s.func, ast.Name) and s.func.id == "type" and len(s.args) == 1)
                                 or (isinstance(s, ast.Attribute) and s.attr == "__class__")]
                        if not exact:
                            continue
                        for s in sides:
                            if s in exact:
                                continue
                            for c in class_list(s):
                                fl = cls_full(mod, c)
                                if fl and len(T.subclasses(fl)) > 1:
                                    rep.ob("C10.m-graph-kind-by-isinstance", mod, q, n, False,
                                           "exact-type test against %s, which has subclasses (%s): their instances are treated as not being a %s" % (
                                               fl, ", ".join(sorted(x.rsplit(".", 1)[-1] for x in T.subclasses(fl) if x != fl)[:4]), fl.rsplit(".", 1)[-1]), node=n)

    # ------------------------------------------------------------------ (n)  F111
    def rule_n() -> None:
        rep.rule("C10.n-single-graph-targets-need-no-dataset",
                 "QueryContext.dataset raises when the update runs on a plain Graph. In the keyword dispatchers of the graph-management operations (a parameter compared with "
                 "\"DEFAULT\"/\"ALL\"/...) and in the single-target evaluators that call them (CLEAR, DROP), no read of that property is feasible when the context has no dataset and "
                 "the target is DEFAULT or ALL (branch feasibility from the fixed truth of `ctx.<the attribute behind the property> is None` and of the keyword comparisons, short-circuit operands included): "
                 "DROP DEFAULT, DROP ALL and CLEAR ALL on a plain Graph empty it as CLEAR DEFAULT does", floor=6)
        # the attribute behind the public property `dataset`: the attribute of self that the property raises for when it is None, and hands out otherwise
        qc = sp.methods("QueryContext").get("dataset")
        backing: set[str] = set()
        if qc is not None and qc.args.args:
            me = qc.args.args[0].arg
            handed = {r.value.attr for r in own_nodes(qc) if isinstance(r, ast.Return) and isinstance(r.value, ast.Attribute) and isinstance(r.value.value, ast.Name) and r.value.value.id == me}
            for r in own_nodes(qc):
                if isinstance(r, ast.Raise):
                    for t, truth in H.facts_at(sp, qc, r):
                        if isinstance(t, ast.Compare) and len(t.ops) == 1 and isinstance(t.left, ast.Attribute) and isinstance(t.left.value, ast.Name) and t.left.value.id == me \
                                and isinstance(t.comparators[0], ast.Constant) and t.comparators[0].value is None and isinstance(t.ops[0], (ast.Is, ast.IsNot)) and truth == isinstance(t.ops[0], ast.Is) and t.left.attr in handed:
                            backing.add(t.left.attr)
        if len(backing) != 1:
            raise AnalysisError("QueryContext.dataset no longer raises where the attribute it hands out is None (found %s): rule C10.n has lost its anchor" % sorted(backing))
        battr = backing.pop()
        dispatchers: dict[str, tuple[str, set[str]]] = {}  # function -> (keyword parameter, keywords compared)
        for q, f in up.functions():
            if "." in q or len(f.args.args) < 2:
                continue
            for a in f.args.args[1:]:
                kws = {c.comparators[0].value for c in own_nodes(f) if isinstance(c, ast.Compare) and isinstance(c.left, ast.Name) and c.left.id == a.arg and len(c.ops) == 1
                       and isinstance(c.ops[0], (ast.Eq, ast.NotEq)) and isinstance(c.comparators[0], ast.Constant) and isinstance(c.comparators[0].value, str)}
                if kws & set(SINGLE_GRAPH_TARGETS):
                    dispatchers[q] = (a.arg, kws)
        if not dispatchers:
            raise AnalysisError("update.py: no function dispatches on the DEFAULT/ALL target keywords")
        scope: dict[str, set[str]] = {q: kws & set(SINGLE_GRAPH_TARGETS) for q, (_, kws) in dispatchers.items()}
        for q, f in evaluators.items():
            calls = [c for c in own_nodes(f) if isinstance(c, ast.Call) and isinstance(c.func, ast.Name) and c.func.id in dispatchers]
            targets = {norm(c.args[1]) for c in calls if len(c.args) > 1}
            if calls and len(targets) == 1:  # one target graph reference (ADD/MOVE/COPY have two: their source = target case is rule f)
                scope[q] = set().union(*(scope[c.func.id] for c in calls))
        changed = True
        while changed:  # evaluators that delegate the whole operation to one in scope
            changed = False
            for q, f in evaluators.items():
                for c in own_nodes(f):
                    if isinstance(c, ast.Call) and isinstance(c.func, ast.Name) and c.func.id in scope and c.func.id in evaluators and \
                            [norm(a) for a in c.args] == [a.arg for a in f.args.args] and not scope[c.func.id] <= scope.get(q, set()):
                        scope[q] = scope.get(q, set()) | scope[c.func.id]
                        changed = True
        rep.info["C10.n_scope"] = {q: sorted(k) for q, k in scope.items()}
        for q in sorted(scope):
            f = up.func(q)
            rep.analysed("rdflib/plugins/sparql/update.py:" + q)
            cp = f.args.args[0].arg
            reads = [n for n in own_nodes(f) if isinstance(n, ast.Attribute) and n.attr == "dataset" and isinstance(n.ctx, ast.Load) and ctx_typed(up, n.value, f)]
            for r in reads:
                bad = []
                for kw in sorted(scope[q]):
                    env: dict[str, bool | None] = {"%s.%s is None" % (cp, battr): True, "%s.%s is not None" % (cp, battr): False, "%s.%s" % (cp, battr): False}
                    for c in own_nodes(f):
                        if isinstance(c, ast.Compare) and len(c.ops) == 1 and isinstance(c.left, ast.Name) and q in dispatchers and c.left.id == dispatchers[q][0]:
                            k = c.comparators[0]
                            if isinstance(c.ops[0], (ast.Eq, ast.NotEq)) and isinstance(k, ast.Constant) and isinstance(k.value, str):
                                env[norm(c)] = (k.value == kw) == isinstance(c.ops[0], ast.Eq)
                            elif isinstance(c.ops[0], (ast.In, ast.NotIn)) and isinstance(k, (ast.Tuple, ast.List, ast.Set)) and all(isinstance(e, ast.Constant) for e in k.elts):
                                env[norm(c)] = (kw in {e.value for e in k.elts}) == isinstance(c.ops[0], ast.In)
                    if H.feasible(up, f, r, env):
                        bad.append(kw)
                rep.ob("C10.n-single-graph-targets-need-no-dataset", up, q, "%s in `%s`" % (norm(r), norm(_stmt_of(up, r, f))[:70]), not bad,
                       "not reached on a context without a dataset for the targets %s" % sorted(scope[q]) if not bad else
                       "with the target %s on a plain Graph (the context has no dataset) this read of the raising property ctx.dataset is reached: the operation raises "
                       "'operating currently on a single graph' instead of emptying the graph" % "/".join(bad), node=r)

    # ------------------------------------------------------------------ (o)  F112
    def rule_o() -> None:
        rep.rule("C10.o-illegal-terms-skipped",
                 "_fillTemplate (the one instantiator of CONSTRUCT / INSERT / DELETE templates) yields a triple only where its subject is known not to be a Literal and its "
                 "predicate is known to be a URIRef (isinstance facts that hold at the yield - enclosing tests, early exits before it, or what a predicate helper of the module "
                 "called on the components says about its arguments where it returns true; the triple is a display of three expressions or a name shown to have three items): "
                 "`INSERT { ?o ?o ?o } WHERE { <s> <p> ?o }` with ?o bound to \"x\" must skip the triple, not store a literal subject and predicate", floor=2)
        yields = [(y, H.components(eu, ft, y.value, y, 3)) for y in own_nodes(ft) if isinstance(y, ast.Yield) and y.value is not None]
        yields = [(y, c) for y, c in yields if c is not None]
        if not yields:
            raise AnalysisError("_fillTemplate yields no 3-tuple")
        for y, (s_, p_, _o) in yields:
            facts = H.isinstance_facts(eu, ft, y)
            s_ok = any(subj == s_ and ((not truth and has_cls(eu, cs, "rdflib.term.Literal")) or (truth and sub_of(eu, cs, "rdflib.term.IdentifiedNode"))) for subj, cs, truth in facts)
            p_ok = any(subj == p_ and ((truth and sub_of(eu, cs, "rdflib.term.URIRef")) or (not truth and has_cls(eu, cs, "rdflib.term.Literal") and has_cls(eu, cs, "rdflib.term.BNode")))
                       for subj, cs, truth in facts)
            rep.ob("C10.o-illegal-terms-skipped", eu, "_fillTemplate", "subject of %s" % norm(y), s_ok,
                   "known not to be a Literal" if s_ok else "the instantiated subject is emitted without a test that it is not a Literal: a template triple whose subject variable is bound to a literal is stored", node=y)
            rep.ob("C10.o-illegal-terms-skipped", eu, "_fillTemplate", "predicate of %s" % norm(y), p_ok,
                   "known to be a URIRef" if p_ok else "the instantiated predicate is emitted without a test that it is a URIRef: a template triple whose predicate variable is bound to a literal or blank node is stored", node=y)

    # ------------------------------------------------------------------ (p)  F113 F119
    def rule_p() -> None:
        rep.rule("C10.p-one-bnode-map-per-instantiation",
                 "(1) an update evaluator never inserts triples of the parsed request as they are: they pass through _fillTemplate, which replaces blank node labels by fresh nodes "
                 "(`INSERT DATA { _:a <p> 1 }` sent twice inserts two nodes, not one node named 'a' twice); (2) when one instantiation of an INSERT template - one solution, or the one "
                 "ground instantiation of INSERT DATA - is filled in several parts (default-graph part, GRAPH blocks), every part is given the same blank-node map, made exactly once at "
                 "the top of that instantiation's scope: `INSERT { _:b <p> ?x . GRAPH <g> { _:b <q> ?x } }` uses ONE new node per solution in both graphs", floor=4)
        params_ft = [a.arg for a in ft.args.args]
        map_param = None
        for i, a in enumerate(params_ft):
            # the parameter whose value is the map that is looked up: subscripted under its own name or under a local that is a plain copy of
            # it, in the body or in a closure of the function (which reads the enclosing local unless it binds the name itself)
            if i >= 2 and H.looked_up_through(ft, a):
                map_param = a
        for q, f in evaluators.items():
            if len(f.args.args) < 2:
                continue
            du = H.DefUse(up, f, {f.args.args[1].arg})
            groups: dict[int, list[tuple[ast.Call, ast.AST, bool]]] = {}
            for n in own_nodes(f):
                if _is_graph_mutation(repo, up.name, n) != "INS":
                    continue
                if isinstance(n, ast.AugAssign):
                    val = n.value
                elif isinstance(n, ast.Call) and n.func.attr in ("add", "addN", "__iadd__") and n.args:  # type: ignore[attr-defined]
                    val = n.args[0]
                else:
                    continue
                if isinstance(val, ast.Call) and norm(val.func) == "_fillTemplate":
                    scope_node, in_req_loop = f, False
                    for p in up.parents(val):
                        if isinstance(p, (ast.For, ast.AsyncFor)):
                            if du.rooted_in(p.iter, p.iter):
                                in_req_loop = True
                                continue
                            scope_node = p
                            break
                        if p is f:
                            break
                    groups.setdefault(id(scope_node), []).append((val, scope_node, in_req_loop))
                elif du.rooted_in(val, val):
                    rep.ob("C10.p-one-bnode-map-per-instantiation", up, q, n, False,
                           "triples of the request (%s) are inserted as parsed: a blank node label of the request text becomes the identifier of the stored node, so the same label in two "
                           "requests (or in the data already there) denotes one node" % norm(val), node=n)
            for calls in groups.values():
                scope_node = calls[0][1]
                several = len(calls) > 1 or any(c[2] for c in calls)
                margs = []
                for c, _, _ in calls:
                    m = None
                    if map_param is not None:
                        pos = params_ft.index(map_param)
                        if len(c.args) > pos:
                            m = c.args[pos]
                        for k in c.keywords:
                            if k.arg == map_param:
                                m = k.value
                    margs.append(m)
                for (c, _, _), m in zip(calls, margs):
                    if not several:
                        rep.ob("C10.p-one-bnode-map-per-instantiation", up, q, c, True, "the only part of its instantiation", node=c)
                        continue
                    why = None
                    if map_param is None:
                        why = "_fillTemplate has no parameter through which the parts of one template instantiation can share a blank-node map: each part makes its own nodes"
                    elif not isinstance(m, ast.Name):
                        why = "this part of the template is filled without the blank-node map of its instantiation: the label it shares with the other parts gets a node of its own"
                    elif any(not isinstance(o, ast.Name) or o.id != m.id for o in margs):
                        why = "the parts of one instantiation are given different blank-node maps"
                    else:
                        # what reaches the parts of THIS instantiation (the same local may be bound again for another phase / operation elsewhere): one
                        # binding, the same for every part, a fresh construction, a statement of the scope of the instantiation
                        bs = du.bindings(m.id, m)
                        made = H.reaching_assignments(up, f, m)
                        same = all(isinstance(o, ast.Name) and [id(x) for x in H.reaching_assignments(up, f, o)] == [id(x) for x in made] for o in margs)
                        if len(bs) != 1 or bs[0][0] != "assign" or not isinstance(bs[0][1], (ast.Call, ast.Dict)) or len(made) != 1 or not same or not any(s is made[0] for s in scope_node.body):  # type: ignore[attr-defined]
                            why = "the blank-node map %s is not made exactly once, by a fresh construction, at the top of the scope of one instantiation (%s)" % (
                                m.id, "the body of the loop over solutions" if scope_node is not f else "the operation")
                    rep.ob("C10.p-one-bnode-map-per-instantiation", up, q, c, why is None, why or "shares the one fresh map of its instantiation", node=c)

    # ------------------------------------------------------------------ (q)  F114 F115 F118
    def rule_q() -> None:
        rep.rule("C10.q-graph-term-instantiated-or-ground",
                 "a term taken from the parsed request names a graph (get_context) or is stored/removed as data only (i) after instantiation with the solution AND under a test that the "
                 "value is an IdentifiedNode - unbound gives get_context(None), a graph named by a new blank node; a literal gives a graph named by its text - unless the same term is the "
                 "GRAPH term of the pattern that produced the solution; or (ii) as it is, in an operation for which translateUpdate1 raises when a term or graph name is a Variable "
                 "(INSERT DATA / DELETE DATA). `DELETE WHERE { GRAPH ?g { ?s ?p ?o } }` must not look into a graph named by the Variable object ?g; `INSERT DATA { GRAPH ?g { ... } }` must be rejected", floor=8)
        ground: set[str] = set()
        for r in [r for r in own_nodes(tu) if isinstance(r, ast.Raise)]:
            fa = list(H.atoms(H.guard_facts(alg, tu, r)))
            var_tests = [e for e, truth in fa if truth and any(isinstance(c, ast.Call) and isinstance(c.func, ast.Name) and c.func.id == "isinstance" and len(c.args) == 2
                                                              and any(cls_full(alg, x) == "rdflib.term.Variable" for x in class_list(c.args[1])) for c in ast.walk(e))]
            if not var_tests:
                continue
            names: set[str] | None = None
            du_q = H.DefUse(alg, tu, set())
            for e, truth in fa:  # innermost first
                if truth and isinstance(e, ast.Compare) and H.is_operation_name(du_q, e.left) and len(e.ops) == 1:
                    k = e.comparators[0]
                    if isinstance(e.ops[0], ast.In):
                        # the operations a membership test admits: the constants of the collection on its right, written there or held by a
                        # module constant that is bound once to a display / frozenset(...) of constants
                        names = H.constant_members(alg, k)
                    elif isinstance(e.ops[0], ast.Eq) and isinstance(k, ast.Constant):
                        names = {k.value}
                    if names is not None:
                        break
            if not names:
                continue
            # the test must look at the terms of the triples and at the graph names: both results of translateQuads
            pair = None
            for n in own_nodes(tu):
                if isinstance(n, ast.Assign) and isinstance(n.targets[0], ast.Tuple) and len(n.targets[0].elts) == 2 and isinstance(n.value, ast.Call) and norm(n.value.func) == "translateQuads" \
                        and all(isinstance(e, ast.Name) for e in n.targets[0].elts):
                    facts_n = {norm(e) for e, t in H.atoms(H.guard_facts(alg, tu, n)) if t}
                    if any(norm(e) in facts_n for e, t in fa if t and isinstance(e, ast.Compare) and H.is_operation_name(du_q, e.left)):
                        pair = [e.id for e in n.targets[0].elts]
            du_tu = H.DefUse(alg, tu, set())
            seen_names: set[str] = set()
            work = [x for e in var_tests for x in H._names(e)]
            while work:
                x = work.pop()
                if x in seen_names:
                    continue
                seen_names.add(x)
                for kind, src, _ in du_tu.bindings(x):
                    work.extend(H._names(src.iter if kind in ("for", "comp") else src))  # type: ignore[attr-defined]
            covers = pair is not None and set(pair) <= seen_names
            rep.ob("C10.q-graph-term-instantiated-or-ground", alg, "translateUpdate1", "ground-data test for %s: %s" % (sorted(names), norm(var_tests[0])[:90]), covers,
                   "looks at the terms of the triples and at the graph names" if covers else
                   "the Variable test does not reach both results of translateQuads (%s): a variable as %s is not rejected" % (pair, "graph name or term"), node=r)
            if covers:
                ground |= names
        rep.info["C10.q_ground_checked_operations"] = sorted(ground)
        if not ground:
            rep.ob("C10.q-graph-term-instantiated-or-ground", alg, "translateUpdate1", "a test that rejects Variables in ground data (INSERT DATA / DELETE DATA)", False,
                   "translateUpdate1 raises nowhere under an isinstance(..., Variable) test that covers the triples and graph names of an operation: `INSERT DATA { ?s <p> ?o }` is accepted", node=tu)
        for q, f in evaluators.items():
            if len(f.args.args) < 2 or q not in op_of:
                continue
            du = H.DefUse(up, f, {f.args.args[1].arg})
            op = op_of[q]
            graph_patterns = set()  # containers whose keys are evaluated as the GRAPH term of a pattern handed to evalPart
            for c in own_nodes(f):
                if isinstance(c, ast.Call) and norm(c.func) == "CompValue" and c.args and isinstance(c.args[0], ast.Constant) and c.args[0].value == "Graph":
                    term = [k.value for k in c.keywords if k.arg == "term"]
                    key = du.request_key(term[0], c) if term else None
                    if key is None:
                        continue
                    holders = {norm(c)} | {norm(a.targets[0]) for a in own_nodes(f) if isinstance(a, ast.Assign) and a.value is c}
                    if any(isinstance(e, ast.Call) and norm(e.func) == "evalPart" and any(norm(a) in holders for a in e.args) for e in own_nodes(f)):
                        graph_patterns.add(key)
            for c in own_nodes(f):
                if isinstance(c, ast.Call) and isinstance(c.func, ast.Attribute) and c.func.attr == "get_context" and len(c.args) == 1:
                    a = c.args[0]
                    key = du.request_key(a, c)
                    look = du.solution_lookup(a, c) if key is None else None
                    if key is not None:
                        ok = op in ground
                        rep.ob("C10.q-graph-term-instantiated-or-ground", up, q, c, ok,
                               "%s data is checked to be ground by translateUpdate1" % op if ok else
                               "the graph term of the request (a key of %s) names the graph as it is, but translateUpdate1 does not reject a Variable there for %s: the operation reads/"
                               "writes a graph named by the Variable object" % (key, op), node=c)
                    elif look is not None:
                        subj = {norm(a), norm(look[1])}
                        facts = H.isinstance_facts(up, f, c)
                        nn = H.not_none_facts(up, f, c)
                        guarded = any(s in subj and ((truth and sub_of(up, cs, "rdflib.term.IdentifiedNode")) or
                                                     (not truth and has_cls(up, cs, "rdflib.term.Literal") and (subj & nn))) for s, cs, truth in facts)
                        bound_by_pattern = look[0] in graph_patterns
                        ok = guarded or bound_by_pattern
                        rep.ob("C10.q-graph-term-instantiated-or-ground", up, q, c, ok,
                               ("under a test that the instantiated graph term is an IdentifiedNode" if guarded else "the term is the GRAPH term of the pattern that produced the solution: bound to a graph name") if ok else
                               "the instantiated graph term %s names the graph without a test that it is an IdentifiedNode: unbound -> get_context(None) writes to a graph named by a new "
                               "blank node, a literal -> a graph named by its text; the GRAPH block must be skipped" % norm(look[1]), node=c)
            for n in own_nodes(f):
                k = _is_graph_mutation(repo, up.name, n)
                if not k:
                    continue
                if isinstance(n, ast.AugAssign):
                    val = n.value
                elif isinstance(n, ast.Call) and n.func.attr in ("add", "addN", "remove", "__iadd__", "__isub__") and n.args:  # type: ignore[attr-defined]
                    val = n.args[0]
                else:
                    continue
                if isinstance(val, ast.Call) or not du.rooted_in(val, val):
                    continue
                ok = op in ground
                rep.ob("C10.q-graph-term-instantiated-or-ground", up, q, n, ok,
                       "%s data is checked to be ground by translateUpdate1" % op if ok else
                       "triples of the request (%s) are %s as they are, but translateUpdate1 does not reject variables for %s: Variable objects reach the store" % (
                           norm(val), "removed" if k == "DEL" else "stored", op), node=n)

    # ------------------------------------------------------------------ (r)  F116
    def rule_r() -> None:
        rep.rule("C10.r-using-is-a-dataset-clause",
                 "USING / USING NAMED are interpreted by the code that interprets FROM / FROM NAMED: the update evaluator hands `u.using` to QueryContext(datasetClause=...) as evalQuery "
                 "hands the query's clause, and uses it otherwise only as a truth value; QueryContext.load (which fetches a document) is called by the LOAD evaluator only. "
                 "`DELETE { ?s ?p ?o } USING <g1> WHERE { GRAPH <g2> { ?s ?p ?o } }` must not see <g2>, and <g1> is read from the store, not from the network", floor=3)
        # (floor: one obligation per role - the sibling in evalQuery, the fetch of LOAD, the USING clauses of an evaluator; each role is required below by
        # itself, however many times the evaluator tests the presence of the clause)
        n_load = n_using = 0
        eq = ev.func("evalQuery")
        sib = [c for c in own_nodes(eq) if isinstance(c, ast.Call) and norm(c.func) == "QueryContext" and any(k.arg == "datasetClause" for k in c.keywords)]
        if not sib:
            raise AnalysisError("evalQuery no longer passes datasetClause to QueryContext: the sibling of rule C10.r vanished")
        rep.ob("C10.r-using-is-a-dataset-clause", ev, "evalQuery", sib[0], True, "FROM / FROM NAMED: the reference reading of a dataset clause", node=sib[0])
        for q, f in evaluators.items():
            for c in own_nodes(f):
                if isinstance(c, ast.Call) and isinstance(c.func, ast.Attribute) and c.func.attr == "load" and ctx_typed(up, c.func.value, f):
                    ok = op_of.get(q) == "Load"
                    n_load += 1
                    rep.ob("C10.r-using-is-a-dataset-clause", up, q, c, ok, "LOAD" if ok else
                           "%s fetches a document into the context: only LOAD reads from outside the store; a dataset clause selects among the graphs the store has" % q, node=c)
            if len(f.args.args) < 2:
                continue
            un = f.args.args[1].arg
            uses = [n for n in own_nodes(f) if isinstance(n, ast.Attribute) and n.attr == "using" and isinstance(n.value, ast.Name) and n.value.id == un]
            handed = 0
            n_using += len(uses)
            for n in uses:
                child: ast.AST = n
                kind = None
                for p in up.parents(n):
                    if isinstance(p, ast.BoolOp) or (isinstance(p, ast.UnaryOp) and isinstance(p.op, ast.Not)):
                        child = p
                        continue
                    if isinstance(p, (ast.If, ast.While, ast.IfExp)) and p.test is child:
                        kind = "truth"
                    elif isinstance(p, ast.keyword) and p.arg == "datasetClause" and child is n:
                        call = up.parent.get(id(p))
                        if isinstance(call, ast.Call) and norm(call.func) == "QueryContext":
                            kind = "dataset"
                            handed += 1
                    break
                rep.ob("C10.r-using-is-a-dataset-clause", up, q, "%s in `%s`" % (norm(n), norm(_stmt_of(up, n, f))[:70]), kind is not None,
                       {"truth": "presence test", "dataset": "handed to QueryContext as the dataset clause"}.get(kind or "", "") if kind else
                       "the USING clauses are interpreted here by hand instead of being handed to QueryContext(datasetClause=...): graphs not listed stay visible to GRAPH patterns "
                       "and listed graphs are loaded instead of read from the store", node=n)
            if uses and not handed:
                rep.ob("C10.r-using-is-a-dataset-clause", up, q, "QueryContext(..., datasetClause=%s.using)" % un, False,
                       "the USING clauses never reach QueryContext as a dataset clause", node=f)
        if not n_load:
            raise AnalysisError("update.py: no evaluator fetches a document through the load method of its context (LOAD): rule C10.r has lost its anchor")
        if not n_using:
            raise AnalysisError("update.py: no evaluator reads the USING clauses of its request: rule C10.r has lost its anchor")

    # ------------------------------------------------------------------ (s)  F117
    def rule_s() -> None:
        rep.rule("C10.s-where-processed-like-a-query-pattern",
                 "every algebra pass translateQuery applies (functions handed to traverse / _traverse / _traverseAgg) is also applied to the update: to the whole operation in "
                 "translateUpdate or to the WHERE pattern in translateUpdate1 (the pattern handed to the traversal is computed from the `where` of the request, directly or through locals). Without `simplify` / `analyse` / `_addVars` a Join with the empty BGP stays and no join is lazy, so in "
                 "`INSERT { ... } WHERE { GRAPH ?g { ?s ?p ?o OPTIONAL { ... } } }` the inner pattern is not evaluated in ?g for every solution", floor=4)

        def reads_where(x: ast.AST) -> bool:
            return (isinstance(x, ast.Attribute) and x.attr == "where") or (isinstance(x, ast.Subscript) and isinstance(x.slice, ast.Constant) and x.slice.value == "where")

        def passes(fn: ast.FunctionDef, only_where: bool = False) -> dict[str, ast.Call]:
            out: dict[str, ast.Call] = {}
            g = CFG(fn) if only_where else None
            for c in own_nodes(fn):
                if not (isinstance(c, ast.Call) and isinstance(c.func, ast.Name) and c.func.id in _TRAVERSERS and c.args):
                    continue
                # the pattern traversed is the WHERE pattern: the argument reads the `where` of the request - itself, or through the locals it mentions,
                # each of which can only hold (at the call) a value computed from such a read
                if only_where and not H.computed_from(g, alg, c.args[0], g.node_of(c, alg), reads_where):
                    continue
                for v in list(c.args[1:]) + [k.value for k in c.keywords]:
                    if isinstance(v, ast.Call) and norm(v.func).endswith("partial") and v.args:
                        v = v.args[0]
                    if isinstance(v, ast.Name) and alg.has(v.id):
                        out[v.id] = c
            return out
        tq_ = alg.func("translateQuery")
        qpasses = passes(tq_)
        if len(qpasses) < 3:
            raise AnalysisError("translateQuery: expected >= 3 algebra passes, found %s" % sorted(qpasses))
        upasses = dict(passes(alg.func("translateUpdate")))
        upasses.update(passes(tu, only_where=True))
        for v in sorted(qpasses):
            ok = v in upasses
            rep.ob("C10.s-where-processed-like-a-query-pattern", alg, "translateUpdate1", "pass %s (translateQuery: %s)" % (v, norm(qpasses[v])[:60]), ok,
                   "applied: %s" % norm(upasses[v])[:70] if ok else
                   "translateQuery runs %s over the algebra, the translation of an update never does: the WHERE pattern of DELETE/INSERT is evaluated in a form no query pattern has" % v, node=tu)

    for sec in (rule_m, rule_n, rule_o, rule_p, rule_q, rule_r, rule_s):
        _section(rep, repo, sec)


def _stmt_of(mod, node: ast.AST, fn: ast.AST) -> ast.AST:
    """the head of the statement that evaluates node (for readable construct texts): test of an if/while, else the statement"""
    child = node
    for p in mod.parents(node):
        if isinstance(p, (ast.If, ast.While)) and child is p.test:
            return p.test
        if isinstance(p, (ast.For, ast.AsyncFor)) and child is p.iter:
            return p.iter
        if isinstance(p, ast.stmt) and not isinstance(p, (ast.If, ast.While, ast.For, ast.AsyncFor, ast.With, ast.Try)):
            return p
        if p is fn:
            break
        child = p
    return node


# ======================================================================================================================
# rules t-y: structural conditions behind the repaired defects F286-F291 (request-level structure: the prologue folded over the
# operations, what the translator hands back, the shape of the request grammar, what a USING context may fetch, missing sources)
# ======================================================================================================================
_run_base3 = run

# modules a request passes on its way from text to the store
_UPDATE_PIPELINE = ("rdflib.plugins.sparql.parser", "rdflib.plugins.sparql.algebra", "rdflib.plugins.sparql.processor", "rdflib.plugins.sparql.update")


def run(repo: Repo, rep: Report) -> None:  # noqa: F811
    _layer(rep, _run_base3, repo)
    from vlib import h_c10 as H
    from vlib.cfg import reaching_defs
    from vlib.h_c04 import Grammar

    T = repo.typed
    up = _plain_mod(repo, "rdflib.plugins.sparql.update")
    alg = _plain_mod(repo, "rdflib.plugins.sparql.algebra")
    sp = repo.mod("rdflib.plugins.sparql.sparql")
    par = repo.mod("rdflib.plugins.sparql.parser")
    rep.extra["explanation"] = rep.extra.get("explanation", "") + (
        " (t) what the caller gives as default for the whole request (base, initNs) is written into the prologue only on the step that creates it; "
        "(u) a step that folds later declarations never writes into the prologue object it was handed, because the operations before it keep that object; "
        "(v) every return of the request pipeline hands out an instance of the declared class (the request without operations too); "
        "(w) no grammar symbol is a list by right recursion: the request grammar iterates over its operations; "
        "(x) a context built by an update evaluator cannot reach a document fetch: the fetching calls of QueryContext.__init__ are infeasible under the "
        "constant arguments of the construction; (y) the source of ADD/MOVE/COPY comes from a helper that raises when the graph does not exist, before any mutation.")

    def cls_full(mod, node: ast.AST) -> str | None:
        r = T.ref(mod.name, node)
        if r and r in T.classes:
            return r
        nm = node.id if isinstance(node, ast.Name) else node.attr if isinstance(node, ast.Attribute) else None
        cands = [c for c in T.classes if c.rsplit(".", 1)[-1] == nm]
        return cands[0] if len(cands) == 1 else None

    # ------------------------------------------------------------------ (t) (u)  F286 F287
    def rule_tu() -> None:
        rep.rule("C10.t-request-defaults-applied-once",
                 "where the translator folds the declarations of a request into one accumulator, step by step in a loop (`acc = f(item, ..., acc)`, f creates the accumulator when it is "
                 "handed None), the arguments that are the same on every step - parameters of the translating function: the base and the namespaces given from outside - are written into "
                 "the accumulator only on the step that creates it (the write is infeasible when the accumulator parameter is not None at entry). Otherwise "
                 "`g.update('BASE <http://a/> INSERT DATA { <x> <p> 1 } ; INSERT DATA { <y> <p> 2 }', base='http://b/')` resolves <y> against http://b/: the outside default overrides "
                 "the BASE / PREFIX the request has declared, from the second operation on", floor=3)
        rep.rule("C10.u-operation-keeps-its-prologue",
                 "the accumulator of such a fold is kept by the operation translated on the same step (the callee stores it: `u.prologue = prologue`, read at evaluation time by IRI() / "
                 "relative IRIs). So a later step never writes into the object it was handed: under `accumulator is not None at entry`, for every truth value of the other parameters, "
                 "each feasible write (attribute store, state-changing method) is reached only by a binding of the accumulator to a new object made in this call (a loop over a "
                 "parameter that is false is not entered). Otherwise `INSERT { ?s <p> ?i } WHERE { ?s <q> ?o BIND(IRI('x') AS ?i) } ; BASE <http://b/> INSERT DATA { ... }` "
                 "resolves the first operation's IRI('x') against <http://b/>", floor=3)
        folds = []
        for q, fn, loop, st, callee, accp in H.fold_sites(alg):
            params = [a.arg for a in callee.args.args]
            defaults = dict(zip(reversed(params), reversed(callee.args.defaults)))
            d = defaults.get(accp)
            if isinstance(d, ast.Constant) and d.value is None:  # the first step creates the accumulator
                folds.append((q, fn, loop, st, callee, accp))
        rep.info["C10.t_folds"] = ["%s: %s" % (q, norm(st)) for q, _, _, st, _, _ in folds]  # (none left: the floors of t and u report the lost anchor)
        for q, fn, loop, st, callee, accp in folds:
            rep.analysed("rdflib/plugins/sparql/algebra.py:" + callee.name)
            call = st.value
            accname = st.targets[0].id
            params = [a.arg for a in callee.args.args]
            own_params = {a.arg for a in fn.args.args + fn.args.kwonlyargs}
            stored = {n.id for n in own_nodes(fn) if isinstance(n, ast.Name) and isinstance(n.ctx, (ast.Store, ast.Del))}
            invariant = set()
            for a in list(call.args) + [k.value for k in call.keywords]:
                if isinstance(a, ast.Name) and a.id in own_params and a.id not in stored:
                    p = H.param_of_arg(callee, call, a)
                    if p is not None and p != accp:
                        invariant.add(p)
            rep.ob("C10.t-request-defaults-applied-once", alg, q, st, True, "fold step; same on every step: %s" % sorted(invariant), node=st)
            # class of the accumulator and its state-changing methods
            ann = [a.annotation for a in callee.args.args if a.arg == accp][0]
            acc_cls = None
            for n in ast.walk(ann) if ann is not None else []:
                if isinstance(n, (ast.Name, ast.Attribute)):
                    fl = cls_full(alg, n)
                    if fl:
                        acc_cls = fl
            if acc_cls is None:
                raise AnalysisError("%s: class of the accumulator parameter %s not resolved" % (callee.name, accp))
            cmod = repo.mod(acc_cls.rsplit(".", 1)[0])
            mutators = H.self_mutators(cmod, acc_cls.rsplit(".", 1)[1])
            writes = H.acc_writes(alg, callee, accp, mutators)
            if not writes:
                raise AnalysisError("%s: no write into the accumulator %s found" % (callee.name, accp))
            g = CFG(callee)
            # (no `acc is None` test on the entry value: nothing tells the creating step from the later ones, every write below is feasible on every step)
            base_env = H.entry_atoms(g, alg, callee, accp) or {}
            du = H.DefUse(alg, callee, invariant)
            for w, vals in writes:
                if not any(du.rooted_in(n, n) for v in vals for n in ast.walk(v) if isinstance(n, ast.Name)):
                    continue
                later = reaching_defs(g, g.node_of(w, alg), accp, base_env)
                rep.ob("C10.t-request-defaults-applied-once", alg, callee.name, w, not later,
                       "only on the step that creates the accumulator" if not later else
                       "this write of a value that is the same on every step (%s) is also executed when %s is handed an accumulator: from the second operation on it overrides "
                       "what the request has declared before" % ("/".join(sorted(invariant)), callee.name), node=w)
            # (u) does the accumulator escape on each step?
            keeps = []
            for c in [n for s in loop.body for n in ast.walk(s)]:
                if not (isinstance(c, ast.Call) and c is not call and isinstance(c.func, ast.Name) and alg.has(c.func.id) and isinstance(alg.defs[c.func.id], ast.FunctionDef)):
                    continue
                for a in list(c.args) + [k.value for k in c.keywords]:
                    if isinstance(a, ast.Name) and a.id == accname:
                        kp = H.param_of_arg(alg.defs[c.func.id], c, a)
                        if kp and any(isinstance(s, ast.Assign) and isinstance(s.value, ast.Name) and s.value.id == kp and any(isinstance(t, (ast.Attribute, ast.Subscript)) for t in s.targets)
                                      for s in own_nodes(alg.defs[c.func.id])):
                            keeps.append(c)
            if not keeps:
                continue
            rep.ob("C10.u-operation-keeps-its-prologue", alg, q, keeps[0], True, "the operation of this step keeps the accumulator object", node=keeps[0])
            atoms = sorted({n.test.id for n in own_nodes(callee) if isinstance(n, (ast.If, ast.While)) and isinstance(n.test, ast.Name) and n.test.id in params and n.test.id != accp}
                           | {n.iter.id for n in own_nodes(callee) if isinstance(n, ast.For) and isinstance(n.iter, ast.Name) and n.iter.id in params and n.iter.id != accp})
            if len(atoms) > 5:
                raise AnalysisError("%s: too many parameter tests to enumerate" % callee.name)
            for w, _vals in writes:
                wn = g.node_of(w, alg)
                bad = None
                feasible_any = False
                for bits in range(1 << len(atoms)):
                    env = dict(base_env)
                    for i, a in enumerate(atoms):
                        env[a] = bool(bits >> i & 1)
                    if any(isinstance(p_, ast.For) and isinstance(p_.iter, ast.Name) and env.get(p_.iter.id) is False and not any(x is w for s in p_.orelse for x in ast.walk(s))
                           for p_ in alg.parents(w)):
                        continue  # inside a loop over something false: not entered
                    defs = reaching_defs(g, wn, accp, env)
                    if not defs:
                        continue
                    feasible_any = True
                    for dnode in defs:
                        if dnode == g.entry:
                            bad = "is reached with the object %s was handed (when %s)" % (callee.name, ", ".join("%s is %s" % (a, "true" if env[a] else "false") for a in atoms) or "called again")
                        else:
                            bv = H.bound_value(g.nodes[dnode].ast, accp)
                            if not isinstance(bv, ast.Call):
                                bad = "is reached after `%s`, which does not bind %s to a new object" % (norm(g.nodes[dnode].ast)[:60], accp)
                    if bad:
                        break
                rep.ob("C10.u-operation-keeps-its-prologue", alg, callee.name, w, bad is None,
                       ("writes into an object made in this call" if feasible_any else "only on the step that creates the accumulator") if bad is None else
                       "this write into the accumulator %s: the operations translated on earlier steps keep that object, their prologue changes under them" % bad, node=w)

    # ------------------------------------------------------------------ (v)  F288
    def rule_v() -> None:
        rep.rule("C10.v-pipeline-returns-declared-class",
                 "in the modules a request passes (parser, algebra, processor, update) a function whose return annotation is one class returns, at every `return`, a value whose "
                 "static type (mypy, `type: ignore` comments notwithstanding) is that class: the consumer reads attributes of it. translateUpdate handing back a bare list for the "
                 "request without operations makes `Graph.update('')` (a legal request: no operations, no change) fail with AttributeError: 'list' object has no attribute 'algebra'", floor=25)
        n_tu = 0
        for mn in _UPDATE_PIPELINE:
            mod = repo.mod(mn)
            for q, f in mod.functions():
                ann = f.returns
                if not isinstance(ann, (ast.Name, ast.Attribute)):
                    continue
                want = cls_full(mod, ann)
                if want is None:
                    continue
                for n in own_nodes(f):
                    if not (isinstance(n, ast.Return) and n.value is not None):
                        continue
                    tf = T.type_of(mn, n.value)
                    if tf is None or (not tf.items and not tf.optional):
                        continue  # no static type (Any): nothing to compare
                    items = list(tf.items)
                    # (the static type of an instance of a NamedTuple class is a tuple type that carries the class as its fallback: the class is that one)
                    nt = re.search(r"^tuple\[.*, fallback=([\w.]+)\]$", tf.text or "")
                    if nt and items == ["builtins.tuple"] and nt.group(1) in T.classes:
                        items = [nt.group(1)]
                    bad = [it for it in items if not T.is_subclass(it, want)]
                    ok = not bad and not tf.optional
                    if q == "translateUpdate":
                        n_tu += 1
                    rep.ob("C10.v-pipeline-returns-declared-class", mod, q, n, ok,
                           "a %s" % want.rsplit(".", 1)[1] if ok else
                           "returns a value of type %s where %s is declared: the caller reads attributes of a %s (e.g. `.algebra` in evalUpdate) and fails" % (tf.text[:60], want.rsplit(".", 1)[1], want.rsplit(".", 1)[1]), node=n)
        if n_tu < 2:
            raise AnalysisError("translateUpdate: expected >= 2 typed returns (request without and with operations), found %d" % n_tu)

    # ------------------------------------------------------------------ (w)  F289
    def rule_w() -> None:
        rep.rule("C10.w-request-grammar-iterates",
                 "no symbol of the SPARQL grammar (parser.py) can end a match of its own definition (tail position: last operand of a sequence, or followed only by operands that can "
                 "match nothing; through Optional / alternatives / other symbols): that is a list written as right recursion, `X <<= item + Optional(sep + X)`, and every item costs "
                 "Python stack frames in pyparsing - a request of 75 operations separated by ';' (or a long triples block) fails with RecursionError. Lists are iterations "
                 "(ZeroOrMore); recursion is left to bracketed nesting, whose closing delimiter follows the inner symbol", floor=25)
        tg = H.TailGrammar(Grammar(par).defs)
        unit = [s for s in ("UpdateUnit",) if s in tg.defs]
        if not unit:
            raise AnalysisError("parser.py: UpdateUnit vanished")
        request_syms = tg.refs("UpdateUnit")
        if len(request_syms) < 30:
            raise AnalysisError("parser.py: expected >= 30 symbols below UpdateUnit, found %d" % len(request_syms))
        checked = set()
        for x in sorted(tg.forwards | {"UpdateUnit"} | {y for y in tg.tail_closure("UpdateUnit")}):
            via = tg.tail_closure(x)
            cyc = x in via
            chain = []
            if cyc:
                chain, y = [x], via[x]
                while y != x and len(chain) < 12:
                    chain.append(y)
                    y = via[y]
            checked.add(x)
            rep.ob("C10.w-request-grammar-iterates", par, "<grammar>", "symbol %s" % x, not cyc,
                   "cannot end its own match" if not cyc else
                   "%s ends its own definition (%s): a list by right recursion, its length is bounded by the recursion limit%s" % (
                       x, " <- ".join(chain + [x]), "; this symbol is part of an update request" if x in request_syms or x == "UpdateUnit" else ""), node=(tg.defs.get(x) or [par.tree])[-1])
        rep.info["C10.w_symbols"] = sorted(checked)

    # ------------------------------------------------------------------ (x)  F290
    def rule_x() -> None:
        rep.rule("C10.x-update-context-never-fetches",
                 "QueryContext.__init__ fetches documents for FROM / FROM NAMED graphs the dataset lacks: it reaches, through calls of methods of the class on self (directly or "
                 "through further such methods), a method that parses a source (itself, or in a plain function of the module it mentions). Every context an update evaluator constructs must make each such chain of calls infeasible through "
                 "the constant arguments of the construction (a parameter bound to a literal, or left to its literal default, decides the branch tests that mention it; a method "
                 "called with a parameter that the caller never re-binds inherits what is known of it): USING <g> selects among the graphs of the store, a missing one is empty. Otherwise "
                 "`DELETE { ?s ?p ?o } USING <http://example.org/doc> WHERE { ?s ?p ?o }` dereferences the IRI: a document outside the store decides what is deleted, or the operation "
                 "fails with 'Could not load'", floor=4)
        qmeths = sp.methods("QueryContext")
        init = qmeths.get("__init__")
        if init is None:
            raise AnalysisError("QueryContext.__init__ vanished")
        # what parses a source: a `.parse(...)` call in the method itself (nested functions included), or in a plain function of the module that the
        # method mentions (calls, or binds with functools.partial), directly or through further such functions
        def parses(fn: ast.AST) -> bool:
            return any(isinstance(c, ast.Call) and isinstance(c.func, ast.Attribute) and c.func.attr == "parse" for c in own_nodes(fn, include_nested=True))
        mod_fns = {q: fn for q, fn in sp.functions() if "." not in q}
        mod_parsers = {q for q, fn in mod_fns.items() if parses(fn)}
        grown = True
        while grown:
            grown = False
            for q, fn in mod_fns.items():
                if q not in mod_parsers and any(isinstance(n, ast.Name) and isinstance(n.ctx, ast.Load) and n.id in mod_parsers for n in own_nodes(fn, include_nested=True)):
                    mod_parsers.add(q)
                    grown = True
        parsers = {m for m, f in qmeths.items() if parses(f) or any(isinstance(n, ast.Name) and isinstance(n.ctx, ast.Load) and n.id in mod_parsers for n in own_nodes(f, include_nested=True))}
        if not parsers:
            raise AnalysisError("QueryContext: no method parses a source any more: rule C10.x has lost its anchor")
        fetchers = H.reaching_methods(qmeths, parsers)

        def chains(fn: ast.FunctionDef, env: dict, seen: frozenset) -> list[tuple[list[ast.Call], bool]]:
            """(calls from fn down to a method that parses, can every one of them be reached under env)"""
            out: list[tuple[list[ast.Call], bool]] = []
            here = H.entry_env(fn, env)
            for c, m in H.self_calls(fn, qmeths):
                if m not in fetchers:
                    continue
                feas = H.feasible(sp, fn, c, here)
                callee = qmeths[m]
                sub = [] if (m in parsers or m in seen) else chains(callee, H.passed_env(fn, here, callee, c, skip_first=not H.is_static(callee)), seen | {m})
                if not sub:
                    out.append(([c], feas))
                for ch, f2 in sub:
                    out.append(([c] + ch, feas and f2))
            return out
        if not chains(init, {}, frozenset({"__init__"})):
            raise AnalysisError("QueryContext.__init__ no longer reaches a method that parses a source (%s): rule C10.x has lost its anchor" % sorted(fetchers))
        n_ctor = 0
        for q, f in up.functions():
            for c in own_nodes(f, include_nested=True):
                if not (isinstance(c, ast.Call) and isinstance(c.func, (ast.Name, ast.Attribute)) and cls_full(up, c.func) == "rdflib.plugins.sparql.sparql.QueryContext"):
                    continue
                n_ctor += 1
                env = H.constant_arg_env(init, c, skip_first=True)
                for ch, feas in chains(init, env, frozenset({"__init__"})):
                    how = " -> ".join(norm(x) for x in ch)
                    rep.ob("C10.x-update-context-never-fetches", up, q, "%s -> __init__: %s" % (norm(c)[:80], how), not feas,
                           "infeasible under the constant arguments %s" % {k: v for k, v in env.items() if " " not in k} if not feas else
                           "the context constructed here can reach `%s` in QueryContext.__init__: an update operation other than LOAD dereferences a graph IRI the store does not have" % how, node=c)
        rep.info["C10.x_constructions"] = n_ctor  # (fewer constructions than on the pinned tree: the floor of the rule reports it, without hiding the verdicts of other rules)

    # ------------------------------------------------------------------ (y)  F291
    def rule_y() -> None:
        rep.rule("C10.y-missing-source-fails-first",
                 "the evaluators that take a (source, target) pair from the request (ADD, MOVE, COPY) obtain the source graph through a helper of the module that raises under a test "
                 "over the graphs the dataset has (`... ctx.dataset.contexts() ...`: the graph does not exist), and every mutation of the evaluator comes after that call: the operation "
                 "fails before the target is touched, as the Update specification prescribes. With the source made up as an empty graph, `COPY <http://typo> TO <g>` empties <g>", floor=10)

        def raises_if_missing(fname: str, depth: int = 0) -> bool:
            hf = up.defs.get(fname)
            if not isinstance(hf, ast.FunctionDef):
                return False
            for r in own_nodes(hf):
                if isinstance(r, ast.Raise):
                    for e, _truth in H.atoms(H.guard_facts(up, hf, r)):
                        if any(isinstance(c, ast.Call) and isinstance(c.func, ast.Attribute) and c.func.attr in ("contexts", "graphs") for c in ast.walk(e)):
                            return True
            if depth < 2:
                # ... or hands on what a helper gave it that raises so
                for r in own_nodes(hf):
                    if isinstance(r, ast.Return) and isinstance(r.value, ast.Call) and isinstance(r.value.func, ast.Name) and raises_if_missing(r.value.func.id, depth + 1):
                        return True
            return False
        evaluators = {q: f for q, f in up.functions() if q.startswith("eval") and "." not in q}
        n_pair = 0
        for q, f in evaluators.items():
            if len(f.args.args) < 2:
                continue
            un = f.args.args[1].arg
            pair = None
            for n in own_nodes(f):
                if isinstance(n, ast.Assign) and isinstance(n.targets[0], ast.Tuple) and len(n.targets[0].elts) == 2 and all(isinstance(e, ast.Name) for e in n.targets[0].elts) \
                        and isinstance(n.value, ast.Attribute) and isinstance(n.value.value, ast.Name) and n.value.value.id == un:
                    pair = [e.id for e in n.targets[0].elts]
            if pair is None:
                continue
            n_pair += 1
            g = CFG(f)
            src_calls = [c for c in own_nodes(f) if isinstance(c, ast.Call) and isinstance(c.func, ast.Name) and up.has(c.func.id) and any(isinstance(a, ast.Name) and a.id == pair[0] for a in c.args)]
            checking = [c for c in src_calls if raises_if_missing(c.func.id)]
            # ... or the evaluator makes the test itself: a top-level statement that raises under a test over the dataset's contexts()
            inline = []
            for r in own_nodes(f):
                if isinstance(r, ast.Raise) and any(isinstance(c, ast.Call) and isinstance(c.func, ast.Attribute) and c.func.attr in ("contexts", "graphs")
                                                    for e, _t in H.atoms(H.guard_facts(up, f, r)) for c in ast.walk(e)):
                    top = r
                    for p_ in up.parents(r):
                        if p_ is f:
                            break
                        top = p_
                    if isinstance(top, ast.If) and pair[0] in H._names(top):
                        inline.append(top)
            rep.ob("C10.y-missing-source-fails-first", up, q, "source graph: %s" % ", ".join(norm(c) for c in src_calls), bool(checking or inline),
                   ("%s raises when the graph does not exist" % checking[0].func.id if checking else "tested in the evaluator: `if %s`" % norm(inline[0].test)[:60]) if checking or inline else
                   "the source graph is obtained without a test that it exists (no helper called with the source raises under a test over the dataset's contexts()): a missing "
                   "source is made up as an empty graph and the operation goes on to change the target", node=src_calls[0] if src_calls else f)
            gates = {g.node_of(c, up) for c in checking} | {g.by_ast[id(t)] for t in inline}
            for n in own_nodes(f):
                if not gates or not _is_graph_mutation(repo, up.name, n):
                    continue  # (without an existence test there is nothing to be ordered after: reported above, once)
                ok = g.must_pass_before(g.node_of(n, up), gates)
                rep.ob("C10.y-missing-source-fails-first", up, q, n, ok,
                       "after the existence test of the source" if ok else "this mutation can execute without the source graph having been tested to exist", node=n)
        rep.info["C10.y_pair_evaluators"] = n_pair

    for sec in (rule_tu, rule_v, rule_w, rule_x, rule_y):
        _section(rep, repo, sec)
