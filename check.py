#!/venv/bin/python
"""Entry point: check.py <PROPERTY-ID> [--tier quick|thorough]

Static analysis only: parses /repo's current working tree (or $VERIF_REPO),
never imports or runs rdflib.  Exit 0 = every rule instance of the property's
claimed clauses holds; exit 1 + "VIOLATION property=<id> replay=<path>" = a
rule instance is violated; exit 2 + "ANALYSIS-ERROR" = the analysis could not
decide (anchor vanished / idiom not modelled) - never a silent pass.
"""
from __future__ import annotations

import argparse
import importlib
import os
import sys
from pathlib import Path

HERE = Path(__file__).resolve().parent
sys.path.insert(0, str(HERE))

from vlib.core import run_check  # noqa: E402


def main() -> int:
    ap = argparse.ArgumentParser()
    ap.add_argument("prop")
    ap.add_argument("--tier", default=os.environ.get("VERIF_TIER", "quick"))
    ap.add_argument("--no-selftest", action="store_true")
    a = ap.parse_args()
    pid = a.prop.upper()
    tier = "thorough" if a.tier == "thorough" else "quick"
    try:
        mod = importlib.import_module("checks." + pid.lower())
    except ImportError as e:
        print("ANALYSIS-ERROR property=%s no such check: %s" % (pid, e))
        return 2
    if tier == "thorough" and not a.no_selftest:
        from vlib import selftest

        return selftest.run_thorough(pid, mod)
    return run_check(pid, lambda repo, rep: mod.run(repo, rep), tier)


if __name__ == "__main__":
    rc = main()
    sys.stdout.flush()
    os._exit(rc)
