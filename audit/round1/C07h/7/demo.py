# literals are distinguished by lexical form: an invalid xsd:boolean lexical form must not turn into "false"/"true"
import logging, warnings
logging.disable(logging.CRITICAL); warnings.simplefilter("ignore")
from rdflib import Graph, Literal, URIRef, XSD

false = Literal("false", datatype=XSD.boolean)
true = Literal("true", datatype=XSD.boolean)
problems = []
for lex in ("abc", "", "no", "2", "yes"):
    lit = Literal(lex, datatype=XSD.boolean)
    if lit == false or str(lit) != lex:
        problems.append(f'"{lex}"^^xsd:boolean became {lit.n3()} (ill_typed={lit.ill_typed})')
lit = Literal("TRUE", datatype=XSD.boolean)      # not in the lexical space {true,false,1,0}; rdflib itself says ill_typed
if lit == true or str(lit) != "TRUE":
    problems.append(f'"TRUE"^^xsd:boolean became {lit.n3()} (ill_typed={lit.ill_typed})')
g = Graph().parse(data='<urn:s> <urn:p> "maybe"^^<http://www.w3.org/2001/XMLSchema#boolean>, "false"^^<http://www.w3.org/2001/XMLSchema#boolean> .', format="turtle")
if len(g) != 2:
    problems.append(f"parsing two distinct objects \"maybe\"^^xsd:boolean and \"false\"^^xsd:boolean gives {len(g)} triple(s)")
if problems:
    print("FAIL " + "; ".join(problems))
    raise SystemExit(1)
print("PASS")
