# n3() of a multi-line literal that ends in backslash + double quote must be readable by the SPARQL parser
from rdflib import Graph, Literal

def via_sparql(n3):
    (row,) = Graph().query("SELECT ?x WHERE { VALUES ?x { %s } }" % n3)
    return row[0]

# control: the same text without the line feed is written and read back fine
ctl = Literal('C:\\dir\\"')
assert via_sparql(ctl.n3()) == ctl
# control: the correctly escaped long string is accepted by the SPARQL parser
lit = Literal('line1\nC:\\dir\\"')     # text ends with  \"
assert via_sparql('"""line1\nC:\\\\dir\\\\\\""""') == lit

n3 = lit.n3()
try:
    back = via_sparql(n3)
except Exception as e:
    print("FAIL n3() gives %r (last quote of the text left unescaped) and the SPARQL parser rejects it: %s"
          % (n3, str(e).splitlines()[0][:60]))
    raise SystemExit(1)
if back != lit:
    print("FAIL SPARQL parser read %r back as %r" % (n3, back))
    raise SystemExit(1)
print("PASS")
