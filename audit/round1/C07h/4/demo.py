# an xsd:decimal term without a fraction part must survive a Turtle write/read cycle unchanged
from decimal import Decimal
from rdflib import Graph, Literal, URIRef, XSD

lit = Literal(Decimal("100"))                     # "100"^^xsd:decimal
assert lit == Literal("100", datatype=XSD.decimal)
g = Graph().add((URIRef("urn:s"), URIRef("urn:p"), lit))
for fmt in ("turtle", "longturtle", "n3", "trig"):
    text = g.serialize(format=fmt)
    back = Graph().parse(data=text, format="turtle" if fmt == "longturtle" else fmt)
    (o,) = back.objects()
    if o != lit:
        print(f"FAIL {fmt} serializer writes {lit.n3()} as bare `{lit._literal_n3(use_plain=True)}`, "
              f"which reads back as the different term {o.n3()}")
        raise SystemExit(1)
# control: the n3() text itself does read back
(o,) = Graph().parse(data="<urn:s> <urn:p> %s ." % lit.n3(), format="turtle").objects()
assert o == lit
print("PASS")
