# literals are distinguished by lexical form (and value): valid xsd:dateTime / xsd:time / xsd:duration lexical forms that differ
# below the microsecond must not collapse into one term
from rdflib import Graph, Literal, XSD

pairs = [
    (XSD.dateTime, "2000-01-01T00:00:00.1234561", "2000-01-01T00:00:00.1234569"),
    (XSD.time, "12:00:00.0000001", "12:00:00"),
    (XSD.duration, "PT0.0000004S", "PT0S"),
]
problems = []
for dt, x, y in pairs:
    a, b = Literal(x, datatype=dt), Literal(y, datatype=dt)
    if a == b:
        problems.append(f'"{x}" and "{y}" (xsd:{dt.split("#")[1]}) are the same term {a.n3()}')
g = Graph().parse(data='<urn:s> <urn:p> "2000-01-01T00:00:00.1234561"^^<http://www.w3.org/2001/XMLSchema#dateTime>, '
                       '"2000-01-01T00:00:00.1234569"^^<http://www.w3.org/2001/XMLSchema#dateTime> .', format="turtle")
if len(g) != 2:
    problems.append(f"two distinct dateTime objects parse to {len(g)} triple")
if problems:
    print("FAIL " + "; ".join(problems))
    raise SystemExit(1)
print("PASS")
