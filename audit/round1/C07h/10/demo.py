# a valid xsd:duration lexical form must give a term (constructor / parsers must not blow up)
import logging, warnings
logging.disable(logging.CRITICAL); warnings.simplefilter("ignore")
from rdflib import Graph, Literal, XSD

problems = []
for lex in ("-P1Y1D", "-P1Y2M3DT4H5M6.7S", "-P1M1D"):
    try:
        lit = Literal(lex, datatype=XSD.duration)
        if str(lit) != lex and lit.value is None:
            problems.append(f"{lex} -> {lit!r}")
    except Exception as e:
        problems.append(f'Literal("{lex}", datatype=XSD.duration) raises {type(e).__name__}: {e}')
try:
    g = Graph().parse(data='<urn:s> <urn:p> "-P1Y1D"^^<http://www.w3.org/2001/XMLSchema#duration> .', format="nt")
    assert len(g) == 1
except Exception as e:
    problems.append(f"N-Triples parser fails on the triple: {type(e).__name__}")
if problems:
    print("FAIL " + "; ".join(problems))
    raise SystemExit(1)
print("PASS")
