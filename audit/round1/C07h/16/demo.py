# "1"^^xsd:boolean (a valid lexical form, e.g. as stored by SPARQL INSERT DATA) must survive the Turtle serializer
from rdflib import Graph, Literal, URIRef, XSD

g = Graph()
g.update('INSERT DATA { <urn:s> <urn:p> "1"^^<http://www.w3.org/2001/XMLSchema#boolean> }')
(lit,) = g.objects()
assert lit.datatype == XSD.boolean and str(lit) == "1" and lit.value is True
# same term built directly
assert lit == Literal("1", datatype=XSD.boolean, normalize=False)

text = g.serialize(format="turtle")
(back,) = Graph().parse(data=text, format="turtle").objects()
if back.datatype != XSD.boolean or back.value is not True:
    print(f"FAIL turtle serializer writes {lit.n3()} as bare `{lit._literal_n3(use_plain=True)}`, which reads back as {back.n3()}")
    raise SystemExit(1)
print("PASS")
