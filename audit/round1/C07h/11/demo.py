# a term survives pickling and copying unchanged
import copy, pickle
from rdflib import Literal, XSD

problems = []
for lit in (Literal(1, datatype=XSD.double), Literal(5, datatype=XSD.float),
            Literal("01", datatype=XSD.integer, normalize=False)):
    for name, f in (("pickle", lambda x: pickle.loads(pickle.dumps(x))), ("copy.copy", copy.copy), ("copy.deepcopy", copy.deepcopy)):
        back = f(lit)
        if back != lit or hash(back) != hash(lit):
            problems.append(f"{name}({lit.n3()}) -> {back.n3()}")
if problems:
    print("FAIL copies are different terms: " + "; ".join(problems))
    raise SystemExit(1)
print("PASS")
