# from_n3 must read back the n3() text of a multi-line literal that contains backslash + double quote
from rdflib import Graph, Literal
from rdflib.util import from_n3

lit = Literal('say \\"hi\\"\nbye')          # text: say \"hi\"<newline>bye
n3 = lit.n3()                                # """say \\"hi\\"<newline>bye"""
# the Turtle parser reads the text back correctly ...
(via_turtle,) = Graph().parse(data="<s:s> <p:p> %s ." % n3, format="turtle").objects()
assert via_turtle == lit, via_turtle
back = from_n3(n3)
if back != lit:
    print(f"FAIL from_n3({n3!r}) = {back!r}, the backslashes before the quotes are lost (expected {lit!r})")
    raise SystemExit(1)
print("PASS")
