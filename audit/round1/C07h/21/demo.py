# equal terms collapse in graphs: two graphs whose triples are pairwise equal (language tags differing only in case) are the same graph
from rdflib import BNode, Graph, Literal, URIRef
from rdflib.compare import isomorphic, to_isomorphic

p = URIRef("urn:p")
lower, upper = Literal("chat", lang="en"), Literal("chat", lang="EN")
assert lower == upper and hash(lower) == hash(upper)

g1, g2 = Graph(), Graph()
g1.add((URIRef("urn:s"), p, lower))
g2.add((URIRef("urn:s"), p, upper))
assert set(g1) == set(g2)                      # the triple sets are equal
problems = []
if to_isomorphic(g1) != to_isomorphic(g2):
    problems.append("to_isomorphic(g1) != to_isomorphic(g2) although set(g1) == set(g2)")
if to_isomorphic(g1).graph_digest() != to_isomorphic(g2).graph_digest():
    problems.append("graph_digest() differs")
# with a blank node Graph.isomorphic / compare.isomorphic take the canonicalisation path too
b1, b2 = Graph(), Graph()
b1.add((BNode(), p, lower))
b2.add((BNode(), p, upper))
if not isomorphic(b1, b2) or not b1.isomorphic(b2):
    problems.append('{_:x <urn:p> "chat"@en} is not isomorphic to {_:y <urn:p> "chat"@EN}')
if problems:
    print("FAIL " + "; ".join(problems))
    raise SystemExit(1)
print("PASS")
