# literals are distinguished by lexical form: strings that are not in the lexical space of xsd:time / xsd:dateTime / xsd:date
# must not be rewritten into (other) valid literals
import logging, warnings
logging.disable(logging.CRITICAL); warnings.simplefilter("ignore")
from rdflib import Literal, XSD

cases = [
    (XSD.time, "2000", "20:00:00"),                       # a year read as hhmm
    (XSD.time, "2000-01", "20:00:00-01:00"),
    (XSD.time, "07", "07:00:00"),
    (XSD.dateTime, "2000-01-01", "2000-01-01T00:00:00"),   # a date is not a dateTime
    (XSD.dateTime, "20000101T000000", "2000-01-01T00:00:00"),
    (XSD.dateTime, "2000-W01-1T00:00:00", "2000-01-03T00:00:00"),
    (XSD.date, "2000-01-01T23:59:59+05:00", "2000-01-01"),
    (XSD.date, "2000-W01-1", "2000-01-03"),
    (XSD.duration, "P0001-01-01T00:00:00", "P1Y1M1D"),
]
problems = []
for dt, lex, other in cases:
    lit = Literal(lex, datatype=dt)
    if lit == Literal(other, datatype=dt):
        problems.append(f'"{lex}"^^xsd:{dt.split("#")[1]} == "{other}" (ill_typed={lit.ill_typed})')
if problems:
    print("FAIL invalid date/time lexical forms collapse onto valid terms: " + "; ".join(problems))
    raise SystemExit(1)
print("PASS")
