# a literal built from a Python Fraction (owl:rational, a datatype rdflib maps itself) must survive a Turtle write/read cycle
from fractions import Fraction
from rdflib import Graph, Literal, URIRef

problems = []
for value in (Fraction(-3, 1), Fraction(1, 2)):
    lit = Literal(value)                           # "-3"^^owl:rational / "1/2"^^owl:rational
    g = Graph().add((URIRef("urn:s"), URIRef("urn:p"), lit))
    text = g.serialize(format="turtle")
    try:
        (o,) = Graph().parse(data=text, format="turtle").objects()
    except Exception as e:
        problems.append(f"{lit.n3()} is written as bare `{lit}` and the output is not Turtle ({type(e).__name__})")
        continue
    if o != lit:
        problems.append(f"{lit.n3()} is written as bare `{lit}` and reads back as {o.n3()}")
if problems:
    print("FAIL " + "; ".join(problems))
    raise SystemExit(1)
print("PASS")
