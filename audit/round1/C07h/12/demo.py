# a collection of numeric literals that contains NaN must sort without error (sorted() and SPARQL ORDER BY), and x < x must be False
from decimal import Decimal
from rdflib import Graph, Literal, URIRef

problems = []
nan = Literal(float("nan"))
dec = Literal(Decimal("1.5"))
try:
    sorted([dec, nan, Literal(2)])
except Exception as e:
    problems.append(f"sorted([{dec.n3()}, {nan.n3()}, 2]) raises {type(e).__module__}.{type(e).__name__}")
g = Graph()
for i, o in enumerate([dec, nan, Literal(2)]):
    g.add((URIRef(f"urn:s{i}"), URIRef("urn:p"), o))
try:
    list(g.query("SELECT ?o { ?s ?p ?o } ORDER BY ?o"))
except Exception as e:
    problems.append(f"SPARQL ORDER BY over the same three literals raises {type(e).__module__}.{type(e).__name__}")
if nan < nan or (nan == nan and not nan >= nan):
    problems.append(f"NaN literal: x == x is {nan == nan} but x < x is {nan < nan}, x <= x is {nan <= nan}, x >= x is {nan >= nan}")
if problems:
    print("FAIL " + "; ".join(problems))
    raise SystemExit(1)
print("PASS")
