# from_n3 must read back the n3() text of a literal that contains the two characters backslash + "x"
from rdflib import Literal
from rdflib.util import from_n3

bad = []
for s in ["C:\\xampp", "a\\x41", "\\x"]:
    lit = Literal(s)
    try:
        back = from_n3(lit.n3())
    except Exception as e:  # UnicodeDecodeError for "\\x" / "C:\\xampp"
        bad.append(f"{lit.n3()} -> {type(e).__name__}")
        continue
    if back != lit:
        bad.append(f"{lit.n3()} -> {back!r}")
if bad:
    print("FAIL from_n3(Literal.n3()) is not the same term for text containing '\\x': " + "; ".join(bad))
    raise SystemExit(1)
print("PASS")
