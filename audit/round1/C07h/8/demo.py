# literals are distinguished by lexical form: lexical forms outside the XSD lexical space must not be rewritten to other numbers
import logging, warnings
logging.disable(logging.CRITICAL); warnings.simplefilter("ignore")
from rdflib import Graph, Literal, XSD

cases = [("1_000", XSD.integer, "1000"), ("١٢٣", XSD.integer, "123"), ("1_0", XSD.byte, "10"),
         ("1_0.5", XSD.decimal, "10.5"), ("1e3", XSD.decimal, "1000"), ("Infinity", XSD.double, "INF"), ("1_0", XSD.float, "10.0")]
problems = []
for lex, dt, other in cases:
    lit = Literal(lex, datatype=dt)
    if lit == Literal(other, datatype=dt):
        problems.append(f'"{lex}"^^xsd:{dt.split("#")[1]} == "{other}"^^xsd:{dt.split("#")[1]} (ill_typed={lit.ill_typed})')
g = Graph().parse(data='<urn:s> <urn:p> "1_000"^^<http://www.w3.org/2001/XMLSchema#integer>, "1000"^^<http://www.w3.org/2001/XMLSchema#integer> .', format="turtle")
if len(g) != 2:
    problems.append(f"two distinct objects parse to {len(g)} triple")
if problems:
    print("FAIL invalid lexical forms collapse onto valid ones: " + "; ".join(problems))
    raise SystemExit(1)
print("PASS")
