# language tags are case-insensitive for term identity; ordering must agree with equality (a == b implies not a < b and not a > b)
from rdflib import Literal

a, b = Literal("chat", lang="en"), Literal("chat", lang="EN")
assert a == b and hash(a) == hash(b)
problems = []
if a < b or a > b or b < a or b > a:
    problems.append(f"{a.n3()} == {b.n3()} but a<b={a < b} a>b={a > b} b<a={b < a} b>a={b > a}")
s = sorted([Literal("a", lang="en-us"), Literal("b", lang="en-US"), Literal("c", lang="en-us")])
if [str(x) for x in s] != ["a", "b", "c"]:
    problems.append("sorted(['a'@en-us, 'b'@en-US, 'c'@en-us]) = %s (same language, so expected a, b, c)" % [x.n3() for x in s])
if problems:
    print("FAIL " + "; ".join(problems))
    raise SystemExit(1)
print("PASS")
