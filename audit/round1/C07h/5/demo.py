# an xsd:double term must survive a Turtle write/read cycle unchanged
from rdflib import Graph, Literal, URIRef

lit = Literal(123456789.125)                       # "123456789.125"^^xsd:double, exactly representable
g = Graph().add((URIRef("urn:s"), URIRef("urn:p"), lit))
for fmt in ("turtle", "longturtle", "n3", "trig"):
    text = g.serialize(format=fmt)
    back = Graph().parse(data=text, format="turtle" if fmt == "longturtle" else fmt)
    (o,) = back.objects()
    if o != lit or o.value != lit.value:
        print(f"FAIL {fmt} serializer writes {lit.n3()} as `{lit._literal_n3(use_plain=True)}` "
              f"(7 significant digits); it reads back as {o.n3()}, value {o.value!r} != {lit.value!r}")
        raise SystemExit(1)
print("PASS")
