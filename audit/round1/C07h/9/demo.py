# xsd:date literals with different (valid) timezones are different terms and different values; they must stay distinct
from rdflib import Graph, Literal, XSD

utc = Literal("2000-01-01Z", datatype=XSD.date)
plus5 = Literal("2000-01-01+05:00", datatype=XSD.date)
minus5 = Literal("2000-01-01-05:00", datatype=XSD.date)
naive = Literal("2000-01-01", datatype=XSD.date)
problems = []
if len({utc, plus5, minus5, naive}) != 4:
    problems.append("the four literals 2000-01-01Z / +05:00 / -05:00 / (no tz) collapse to %d term(s): %s"
                    % (len({utc, plus5, minus5, naive}), sorted(str(x) for x in {utc, plus5, minus5, naive})))
g = Graph().parse(data='<urn:s> <urn:p> "2000-01-01+05:00"^^<http://www.w3.org/2001/XMLSchema#date> .', format="turtle")
(o,) = g.objects()
if str(o) != "2000-01-01+05:00":
    problems.append('parsed "2000-01-01+05:00"^^xsd:date comes out as %s - the timezone is gone' % o.n3())
if problems:
    print("FAIL " + "; ".join(problems))
    raise SystemExit(1)
print("PASS")
