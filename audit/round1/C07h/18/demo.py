# literals are distinguished by lexical form: invalid xsd:base64Binary forms must not be rewritten into other, valid ones
import logging, warnings
logging.disable(logging.CRITICAL); warnings.simplefilter("ignore")
from rdflib import Literal, XSD

cases = [("YWJj!!!!", "YWJj"), ("-0001", "0001"), ("YQ==YQ==", "YQ=="), ("2000-01-01", "20000101"), ("====", "")]
problems = []
for lex, other in cases:
    lit = Literal(lex, datatype=XSD.base64Binary)
    if lit == Literal(other, datatype=XSD.base64Binary):
        problems.append(f'"{lex}" == "{other}" (ill_typed={lit.ill_typed})')
if problems:
    print("FAIL xsd:base64Binary literals with characters outside the alphabet / data after padding collapse onto other terms: " + "; ".join(problems))
    raise SystemExit(1)
print("PASS")
