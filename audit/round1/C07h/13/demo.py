# sorting a mixed collection of literal terms must be reproducible: the result may not depend on the input order
import itertools
from rdflib import Literal, XSD

terms = [Literal(0), Literal(1.0), Literal("P1D", datatype=XSD.duration)]
results = {tuple(sorted(p)) for p in itertools.permutations(terms)}
a, b, c = terms
if len(results) != 1 or (a < b and b < c and not a < c):
    print("FAIL sorted() of the same three literals gives %d different orders depending on input order; "
          "0 < 1.0e0 is %s, 1.0e0 < P1D is %s, but 0 < P1D is %s (P1D < 0 is %s)"
          % (len(results), a < b, b < c, a < c, c < a))
    raise SystemExit(1)
print("PASS")
