# the same literal text must be the same term whether it is read by the Turtle parser or by the SPARQL parser
from rdflib import Graph, Literal, URIRef, XSD

T = '<urn:s> <urn:p> "01"^^<http://www.w3.org/2001/XMLSchema#integer>'
g = Graph().parse(data=T + " .", format="turtle")
g.update("INSERT DATA { %s }" % T)          # the very same triple, written identically
problems = []
if len(g) != 1:
    problems.append("parsing the triple from Turtle and inserting the identical text with SPARQL gives %d triples: %s"
                    % (len(g), sorted(o.n3() for o in g.objects())))
g.update("DELETE DATA { %s }" % T)
if len(g) != 0:
    problems.append("DELETE DATA with the identical text leaves %d triple(s)" % len(g))
a = Literal("01", datatype=XSD.integer)
b = Literal(Literal("01"), datatype=XSD.integer)   # constructor path used by the SPARQL parser
if a != b or a.ill_typed != b.ill_typed:
    problems.append(f"Literal('01', datatype=xsd:integer) = {a.n3()} (ill_typed={a.ill_typed}) but "
                    f"Literal(Literal('01'), datatype=xsd:integer) = {b.n3()} (ill_typed={b.ill_typed})")
if problems:
    print("FAIL " + "; ".join(problems))
    raise SystemExit(1)
print("PASS")
