# from_n3 must read the numeric shorthand of a literal (the text rdflib's own Turtle serializer writes) as the same term the Turtle parser reads
from rdflib import Graph, Literal
from rdflib.util import from_n3

problems = []
for lit in (Literal(1.0), Literal(-0.0015), Literal(2.5e-7)):
    text = lit._literal_n3(use_plain=True)      # what the Turtle serializer writes: 1e+00, -1.5e-03, 2.5e-07
    (via_turtle,) = Graph().parse(data="<urn:s> <urn:p> %s ." % text, format="turtle").objects()
    assert via_turtle == lit, (text, via_turtle)
    back = from_n3(text)
    if back != lit:
        problems.append(f"from_n3({text!r}) = {back!r}")
for text in ("+1", "-1.5E-3"):                                                   # legal Turtle / SPARQL numeric tokens
    (via_turtle,) = Graph().parse(data="<urn:s> <urn:p> %s ." % text, format="turtle").objects()
    back = from_n3(text)
    if back != via_turtle:
        problems.append(f"from_n3({text!r}) = {back!r} (Turtle parser: {via_turtle.n3()})")
if problems:
    print("FAIL numeric shorthand is read as a blank node: " + "; ".join(problems))
    raise SystemExit(1)
print("PASS")
