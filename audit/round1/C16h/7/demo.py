"""SPARQL XML serializer writes ill-formed XML for literals with C0 control characters (e.g. form feed)."""
import io
import sys

from rdflib import Literal, Variable
from rdflib.query import Result

x = Variable("x")
problems = []
for ch in ("\x0c", "\x01", "\x1f", "\x08"):
    lit = Literal("a%sb" % ch)
    r = Result("SELECT")
    r.vars = [x]
    r.bindings = [{x: lit}]
    # control: the JSON form round-trips this term
    j = Result.parse(io.BytesIO(r.serialize(format="json")), format="json")
    assert j.bindings == [{x: lit}]
    try:
        data = r.serialize(format="xml")
    except Exception as e:  # an explicit refusal would at least not produce unreadable output
        problems.append("U+%04X: serialize raised %s" % (ord(ch), type(e).__name__))
        continue
    try:
        back = Result.parse(io.BytesIO(data), format="xml")
    except Exception as e:  # noqa: BLE001
        problems.append("U+%04X: output does not read back (%s)" % (ord(ch), type(e).__name__))
        continue
    if back.vars != [x] or [dict(b) for b in back.bindings] != [{x: lit}]:
        problems.append("U+%04X: read back as %r" % (ord(ch), back.bindings))
if problems:
    print("FAIL: XML form of a literal with a control character: " + "; ".join(problems))
    sys.exit(1)
print("PASS")
