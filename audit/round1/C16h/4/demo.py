"""CSV written by the library is read back (from bytes) with rows broken at U+2028 / NEL / form feed."""
import csv
import io
import sys

from rdflib import Literal, URIRef, Variable
from rdflib.query import Result

x, y = Variable("x"), Variable("y")
problems = []
for ch in ("\u2028", "\x85", "\x0c", "\x1c"):
    r = Result("SELECT")
    r.vars = [x, y]
    r.bindings = [
        {x: Literal("a%sb" % ch), y: URIRef("http://e/1")},
        {x: Literal("c"), y: URIRef("http://e/2")},
    ]
    data = r.serialize(format="csv")
    want = [["a%sb" % ch, "http://e/1"], ["c", "http://e/2"]]
    # the CSV bytes themselves are fine (reference reader)
    ref = list(csv.reader(io.StringIO(data.decode("utf-8"), newline="")))[1:]
    assert ref == want, ref
    r2 = Result.parse(io.BytesIO(data), format="csv")
    got = [[str(b.get(v, "")) for v in r2.vars] for b in r2.bindings]
    if got != want:
        problems.append("U+%04X: %d rows %r" % (ord(ch), len(got), got))

if problems:
    print("FAIL: CSV read back from bytes changes the row sequence/values: " + "; ".join(problems))
    sys.exit(1)
print("PASS")
