"""An empty relative IRI <> in a result breaks the SPARQL XML round trip (reader crashes / datatype lost)."""
import io
import sys

from rdflib import Graph, Literal, URIRef, Variable
from rdflib.query import Result

problems = []

# 1. reachable from a plain query: without a base, <> evaluates to URIRef("")
res = Graph().query("SELECT (<> AS ?i) {}")
want = [dict(b) for b in res.bindings]
assert want == [{Variable("i"): URIRef("")}], want
j = Result.parse(io.BytesIO(res.serialize(format="json")), format="json")
assert [dict(b) for b in j.bindings] == want  # JSON copes
data = res.serialize(format="xml")
try:
    back = Result.parse(io.BytesIO(data), format="xml")
    if [dict(b) for b in back.bindings] != want:
        problems.append("URIRef('') read back as %r" % (back.bindings,))
except Exception as e:  # noqa: BLE001
    problems.append("URIRef('') : reading the XML back raises %s: %s" % (type(e).__name__, e))

# 2. same falsy-string trap for a datatype IRI
x = Variable("x")
lit = Literal("v", datatype=URIRef(""))
r = Result("SELECT")
r.vars = [x]
r.bindings = [{x: lit}]
back = Result.parse(io.BytesIO(r.serialize(format="xml")), format="xml")
got = back.bindings[0][x]
if got.datatype != lit.datatype:
    problems.append("Literal('v', datatype=<>) read back with datatype %r" % (got.datatype,))

if problems:
    print("FAIL: " + "; ".join(problems))
    sys.exit(1)
print("PASS")
