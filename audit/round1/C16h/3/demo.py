"""TSV reader fed bytes breaks literals at U+2028 / U+0085 / form feed etc. (codecs line splitting)."""
import io
import sys

from rdflib import Literal, Variable
from rdflib.query import Result

x = Variable("x")
problems = []
# Only TAB, LF, CR, quote and backslash need escaping in a TSV string; these
# characters are legal raw inside a quoted literal.
for ch in ("\u2028", "\x85", "\x0c", "\x0b", "\x1c", "\x1d", "\x1e", "\u2029"):
    text = '?x\n"a%sb"\n' % ch
    want = [{x: Literal("a%sb" % ch)}]
    # control: a text source works
    got_s = [dict(b) for b in Result.parse(io.StringIO(text), format="tsv").bindings]
    assert got_s == want, got_s
    try:
        got_b = [dict(b) for b in Result.parse(io.BytesIO(text.encode("utf-8")), format="tsv").bindings]
    except Exception as e:  # noqa: BLE001
        problems.append("U+%04X: %s" % (ord(ch), type(e).__name__))
        continue
    if got_b != want:
        problems.append("U+%04X: read %r" % (ord(ch), got_b))

if problems:
    print("FAIL: the same TSV document parses from str but not from UTF-8 bytes: " + ", ".join(problems))
    sys.exit(1)
print("PASS")
