"""TSV reader drops result rows in which no variable is bound."""
import io
import sys

from rdflib import URIRef, Variable
from rdflib.query import Result

# W3C SPARQL 1.1 TSV: an unbound variable is an empty field.  Three solutions
# over (?x ?y); the middle one binds nothing, so its line is just the tab.
tsv = "?x\t?y\n<http://e/a>\t<http://e/b>\n\t\n<http://e/c>\t\n"
x, y = Variable("x"), Variable("y")
expected = [
    {x: URIRef("http://e/a"), y: URIRef("http://e/b")},
    {},
    {x: URIRef("http://e/c")},
]

problems = []
for label, src in (("str", io.StringIO(tsv)), ("bytes", io.BytesIO(tsv.encode()))):
    got = [dict(b) for b in Result.parse(src, format="tsv").bindings]
    if got != expected:
        problems.append("%s source: %d rows read instead of 3: %r" % (label, len(got), got))

if problems:
    print("FAIL: TSV reader loses the all-unbound row; " + "; ".join(problems))
    sys.exit(1)
print("PASS")
