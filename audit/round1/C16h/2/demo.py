"""TSV reader raises TypeError on a negative xsd:decimal written in its plain (Turtle/SPARQL) form."""
import io
import sys

from rdflib import Literal, Variable
from rdflib.namespace import XSD
from rdflib.query import Result

# The W3C TSV format writes terms in SPARQL/Turtle syntax, so numbers may appear bare.
tsv = "?x\n-0.5\n"
try:
    r = Result.parse(io.StringIO(tsv), format="tsv")
except Exception as e:  # noqa: BLE001
    print("FAIL: reading the TSV cell -0.5 raises %s: %s" % (type(e).__name__, e))
    sys.exit(1)
got = r.bindings[0][Variable("x")]
want = Literal("-0.5", datatype=XSD.decimal)
if got != want or got.datatype != XSD.decimal:
    print("FAIL: -0.5 read as %r" % (got,))
    sys.exit(1)
print("PASS")
