"""TSV reader rejects the legal string escapes \\' (in a "..." literal) and \\" (in a '...' literal)."""
import io
import sys

from rdflib import Literal, Variable
from rdflib.query import Result

# SPARQL / Turtle grammar:  ECHAR ::= '\' [tbnrf\"']   -- valid in both quote styles.
cases = [
    ('?x\n"it\\\'s"\n', Literal("it's")),  # cell is  "it\'s"
    ("?x\n'say \\\"hi\\\"'\n", Literal('say "hi"')),  # cell is  'say \"hi\"'
]
problems = []
for text, want in cases:
    try:
        r = Result.parse(io.StringIO(text), format="tsv")
        got = r.bindings[0][Variable("x")]
        if got != want:
            problems.append("%r read as %r" % (text.split("\n")[1], got))
    except Exception as e:  # noqa: BLE001
        problems.append("%s -> %s" % (text.split("\n")[1], type(e).__name__))
if problems:
    print("FAIL: legal ECHAR escapes in TSV literals are not accepted: " + "; ".join(problems))
    sys.exit(1)
print("PASS")
