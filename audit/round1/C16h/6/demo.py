"""TSV reader rejects \\uXXXX / \\UXXXXXXXX escapes in literals and IRIs (Turtle/SPARQL term syntax)."""
import io
import sys

from rdflib import Literal, URIRef, Variable
from rdflib.query import Result

cases = [
    ('?x\n"caf\\u00E9"\n', Literal("caf\u00e9")),
    ('?x\n"\\U0001F600"\n', Literal("\U0001F600")),
    ("?x\n<http://e/caf\\u00E9>\n", URIRef("http://e/caf\u00e9")),
]
problems = []
for text, want in cases:
    cell = text.split("\n")[1]
    try:
        r = Result.parse(io.StringIO(text), format="tsv")
        got = r.bindings[0][Variable("x")]
        if got != want:
            problems.append("%s read as %r" % (cell, got))
    except Exception as e:  # noqa: BLE001
        problems.append("%s -> %s" % (cell, type(e).__name__))
if problems:
    print("FAIL: numeric escapes in TSV terms are not accepted: " + "; ".join(problems))
    sys.exit(1)
print("PASS")
