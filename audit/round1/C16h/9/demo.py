"""CSV reader keeps the '_:' marker inside the blank node id, so the string value grows on each CSV round trip."""
import io
import sys

from rdflib import BNode, Variable
from rdflib.query import Result

x = Variable("x")
r = Result("SELECT")
r.vars = [x]
r.bindings = [{x: BNode("b0")}]
csv1 = r.serialize(format="csv")
assert csv1 == b"x\r\n_:b0\r\n", csv1  # W3C CSV form of the blank node b0

r2 = Result.parse(io.BytesIO(csv1), format="csv")
got = r2.bindings[0][x]
csv2 = r2.serialize(format="csv")
json2 = r2.serialize(format="json")

problems = []
if not (isinstance(got, BNode) and str(got) == "b0"):
    problems.append("cell _:b0 read as %r (n3: %s)" % (got, got.n3()))
if csv2 != csv1:
    problems.append("CSV -> parse -> CSV is not stable: %r" % (csv2,))
if problems:
    print("FAIL: " + "; ".join(problems))
    sys.exit(1)
print("PASS")
