"""A namespace that was unbound again (its prefix was re-used with replace=True) stays
in the manager's trie and still wins the 'longest namespace' lookup."""
import sys
from rdflib import Graph

g = Graph(bind_namespaces="none")
g.bind("p", "http://e/")
g.bind("x", "http://e/ab")
g.bind("x", "http://o/", replace=True)        # http://e/ab is not bound any more
iri = "http://e/abc"
before = {p: str(n) for p, n in g.namespaces()}
try:
    c = g.namespace_manager.curie(iri, generate=False)
except KeyError as e:
    print("FAIL: bindings %r; curie(%r, generate=False) raises KeyError(%s) although p: is bound and 'p:abc' expands back"
          % (before, iri, e))
    sys.exit(1)
after = {p: str(n) for p, n in g.namespaces()}
p, l = c.split(":", 1)
if after != before or after.get(p, "") + l != iri:
    print("FAIL: curie=%r bindings before %r after %r" % (c, before, after))
    sys.exit(1)
print("PASS")
