"""split_uri() special-cases every IRI that merely *starts with* the XML namespace IRI:
whatever follows becomes the 'local name'."""
import sys
from rdflib import Graph, URIRef

problems = []

# (a) plain expansion of the compact form gives a different IRI
g = Graph()
iri = "http://www.w3.org/XML/1998/namespace?see=http://www.w3.org/XML/1998/namespace"
c = g.namespace_manager.curie(iri)
back = g.namespace_manager.expand_curie(c)
if str(back) != iri:
    problems.append("curie(%r) = %r expands to %r" % (iri, c, str(back)))

# (b) the compact form written by n3()/Turtle does not read back
g = Graph()
t = (URIRef("http://e/s"), URIRef("http://e/p"), URIRef("http://www.w3.org/XML/1998/namespace#x"))
g.add(t)
doc = g.serialize(format="turtle")
try:
    h = Graph().parse(data=doc, format="turtle")
    if set(h) != {t}:
        problems.append("turtle read back %r" % (list(h),))
except Exception as e:
    problems.append("Turtle output %r does not parse (%s)" % (doc.strip().splitlines()[-1], type(e).__name__))

if problems:
    print("FAIL: " + "; ".join(problems))
    sys.exit(1)
print("PASS")
