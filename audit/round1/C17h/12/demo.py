"""qname_strict() / is_ncname() accept '(' ')' '%' in an XML local name, so RDF/XML
gets an element name that is not a QName."""
import sys
from rdflib import Graph, URIRef, Literal
from rdflib.namespace import is_ncname

g = Graph(bind_namespaces="none")
g.bind("p", "http://e/")
t = (URIRef("http://e/s"), URIRef("http://e/f(x)"), Literal("v"))
g.add(t)
problems = []
for fmt in ("xml", "pretty-xml"):
    try:
        doc = g.serialize(format=fmt)
    except ValueError:
        continue  # refusing to serialize would be acceptable
    try:
        h = Graph().parse(data=doc, format="xml")
        if set(h) != {t}:
            problems.append("%s: read back %r" % (fmt, list(h)))
    except Exception as e:
        line = [l.strip() for l in doc.splitlines() if "f(x)" in l][0]
        problems.append("%s writes %r which is not well-formed XML (%s)" % (fmt, line, e))
if problems:
    print("FAIL: qname_strict(<http://e/f(x)>) = %r, is_ncname('f(x)') = %r; %s"
          % (g.namespace_manager.qname_strict("http://e/f(x)"), is_ncname("f(x)"), "; ".join(problems)))
    sys.exit(1)
print("PASS")
