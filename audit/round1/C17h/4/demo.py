"""Turtle family + base: a predicate that starts with the base is skipped when the
prefixes are collected, but is then written as a prefixed name when it cannot be
written relative to the base -> the prefix is used without an @prefix line."""
import sys
from rdflib import Graph, URIRef

problems = []
cases = [
    ("http://e/a", "http://e/ab"),       # 'b' would resolve to http://e/b, so it is not relativized
    ("http://e/a/", "http://e/a/b:c"),   # 'b:c' would be read as an absolute IRI
    ("http://e/a#", "http://e/a#c"),     # base with a fragment
]
for base, iri in cases:
    for fmt in ("turtle", "longturtle", "n3"):
        g = Graph(bind_namespaces="none")
        t = (URIRef("http://e/s"), URIRef(iri), URIRef("http://e/o"))
        g.add(t)
        doc = g.serialize(format=fmt, base=base)
        try:
            h = Graph().parse(data=doc, format="n3" if fmt == "n3" else "turtle")
            if set(h) != {t}:
                problems.append("%s base=%s: read back %r" % (fmt, base, list(h)))
        except Exception as e:
            problems.append("%s base=<%s> predicate <%s>: %s" % (fmt, base, iri, str(e).split(" at ^")[0].replace("\n", " ")[-60:]))
if problems:
    print("FAIL: %d outputs do not read back, e.g. %s" % (len(problems), problems[0]))
    sys.exit(1)
print("PASS")
