"""Parsing N-Quads / HexTuples / JSON-LD(with @context) into a plain Graph rebinds the
rdflib default prefixes over the user's bindings and leaves qname() answering with a
prefix that is no longer bound."""
import sys
from rdflib import Graph, URIRef

g = Graph(bind_namespaces="none")
g.bind("s", "https://schema.org/")
iri = "https://schema.org/Person"
assert g.qname(iri) == "s:Person"

g.parse(data="<http://x/s> <http://x/p> <http://x/o> .\n", format="nquads")

bound = dict(g.namespaces())
q = g.qname(iri)
prefix, local = q.split(":", 1)
problems = []
if prefix not in bound:
    problems.append("qname(%r) = %r uses prefix %r which is not bound (bound prefix for that namespace is now %r)"
                    % (iri, q, prefix, g.store.prefix(URIRef("https://schema.org/"))))
elif str(bound[prefix]) + local != iri:
    problems.append("qname %r expands to %r" % (q, str(bound[prefix]) + local))
if len(bound) != 1 and "s" not in bound:
    problems.append("parsing a prefix-less N-Quads document replaced the binding s: by %d default bindings" % len(bound))
if problems:
    print("FAIL: " + "; ".join(problems))
    sys.exit(1)
print("PASS")
