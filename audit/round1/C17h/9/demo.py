"""The qname memo of a NamespaceManager is only dropped by its own bind(); a second
graph over the same store (or store.bind) changes the bindings behind its back."""
import sys
from rdflib import Graph
from rdflib.plugins.stores.memory import Memory

store = Memory()
g1 = Graph(store, identifier="urn:g1", bind_namespaces="none")
g2 = Graph(store, identifier="urn:g2", bind_namespaces="none")

iri = "http://e/a/x"
first = g1.qname(iri)                      # generates ns1 -> http://e/a/
g2.bind("ns1", "http://other/", replace=True)   # same store: ns1 now means something else

bound = dict(g1.namespaces())
q = g1.qname(iri)
prefix, local = q.split(":", 1)
if prefix not in bound or str(bound[prefix]) + local != iri:
    print("FAIL: g1.qname(%r) = %r but g1.namespaces() = %r, so it expands to %r"
          % (iri, q, {p: str(n) for p, n in bound.items()}, str(bound.get(prefix, "?")) + local))
    sys.exit(1)
print("PASS")
