"""JSON-LD (auto_compact): an absolute IRI whose scheme equals a bound prefix is written
verbatim next to a context that defines that prefix, so it is *expanded* on reading.
'geo' is bound by default in Graph() and geo: is a registered URI scheme."""
import sys
from rdflib import Graph, URIRef

g = Graph()   # default bindings include geo: <http://www.opengis.net/ont/geosparql#>
t = (URIRef("http://e/place"), URIRef("http://e/location"), URIRef("geo:37.786971,-122.399677"))
g.add(t)
doc = g.serialize(format="json-ld", auto_compact=True)
h = Graph().parse(data=doc, format="json-ld")
if set(h) != {t}:
    print("FAIL: <geo:37.786971,-122.399677> is written as \"geo:37.786971,-122.399677\" under a context with "
          "\"geo\": \"http://www.opengis.net/ont/geosparql#\" and reads back as %s" % [str(o) for o in h.objects()])
    sys.exit(1)
print("PASS")
