"""SPARQLStore.bind ignores override=False: it binds the pair even if the namespace
already has a prefix, so a namespace ends up listed under two prefixes."""
import sys
from rdflib import Graph, URIRef
from rdflib.plugins.stores.sparqlstore import SPARQLStore

g = Graph(SPARQLStore("http://localhost:1/sparql"), bind_namespaces="none")  # no request is made
g.bind("b", "http://b/")
g.bind("a", "http://a/")
g.bind("a", "http://b/", override=False)   # prefix a is taken, namespace already has prefix b: nothing to do
l = [(p, str(n)) for p, n in g.namespaces()]
nss = [n for p, n in l]
problems = []
if len(set(nss)) != len(nss):
    problems.append("namespaces() lists a namespace twice: %r" % l)
for p, n in l:
    if g.store.prefix(URIRef(n)) != p:
        problems.append("namespaces() has (%r, %r) but store.prefix() says %r" % (p, n, g.store.prefix(URIRef(n))))
        break
if problems:
    print("FAIL: " + "; ".join(problems))
    sys.exit(1)
print("PASS")
