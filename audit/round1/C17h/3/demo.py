"""pretty-xml computes the names of xml:lang / xml:base through the namespace manager;
when the XML namespace is not bound to the prefix 'xml' it writes a generated / user
prefix that is never declared."""
import sys
from rdflib import Graph, URIRef, Literal

problems = []
for label, make in [
    ("Graph(bind_namespaces='none')", lambda: Graph(bind_namespaces="none")),
    ("Graph() after bind('x', XML namespace)", lambda: (lambda g: (g.bind("x", "http://www.w3.org/XML/1998/namespace"), g)[1])(Graph())),
]:
    g = make()
    t = (URIRef("http://e/s"), URIRef("http://e/p"), Literal("hi", lang="en"))
    g.add(t)
    doc = g.serialize(format="pretty-xml")
    try:
        h = Graph().parse(data=doc, format="xml")
        if set(h) != {t}:
            problems.append("%s: read back %r" % (label, list(h)))
    except Exception as e:
        line = [l.strip() for l in doc.splitlines() if "lang" in l][0]
        problems.append("%s: output %r does not parse (%s: %s)" % (label, line, type(e).__name__, e))
if problems:
    print("FAIL: " + "; ".join(problems))
    sys.exit(1)
print("PASS")
