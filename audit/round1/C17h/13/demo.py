"""A prefix such as 'a.b' (legal PN_PREFIX, legal XML NCName) is written by the Turtle
serializer but a prefixed name with it in predicate position does not read back:
the leading 'a' is taken for the keyword `a`."""
import sys
from rdflib import Graph, URIRef

g = Graph(bind_namespaces="none")
g.bind("a.b", "http://e/")
t = (URIRef("http://e/s"), URIRef("http://e/p"), URIRef("http://e/o"))
g.add(t)
problems = []
for fmt in ("turtle", "n3"):
    doc = g.serialize(format=fmt)
    try:
        h = Graph().parse(data=doc, format=fmt)
        if set(h) != {t}:
            problems.append("%s read back %r" % (fmt, list(h)))
    except Exception as e:
        problems.append("%s output %r does not parse: %s" % (fmt, doc.strip().splitlines()[-1], str(e).split(" at ^")[0].replace("\n", " ")[-45:]))
if problems:
    print("FAIL: " + "; ".join(problems))
    sys.exit(1)
print("PASS")
