"""The plain RDF/XML serializer asserts that the prefix 'rdf' means the RDF namespace."""
import sys
from rdflib import Graph, URIRef, Literal

g = Graph(bind_namespaces="none")
g.bind("rdf", "http://e/records/")          # a legal binding; 'rdf' is not reserved
t = (URIRef("http://e/s"), URIRef("http://e/records/p"), Literal("x"))
g.add(t)
try:
    doc = g.serialize(format="xml")
    h = Graph().parse(data=doc, format="xml")
    ok = set(h) == {t}
    msg = "read back %r" % (list(h),)
except Exception as e:
    ok = False
    msg = "serialize(format='xml') raises %s(%s); pretty-xml and turtle cope with the same graph" % (type(e).__name__, e)
if not ok:
    print("FAIL: " + msg)
    sys.exit(1)
print("PASS")
