"""URIRef.n3(namespace_manager) returns prefixed names that are not N3/Turtle names
(trailing dot, unescaped parentheses); read back they give another term or a syntax error.
The Turtle serializer itself avoids these forms."""
import sys
from rdflib import Graph, URIRef

g = Graph(bind_namespaces="none")
g.bind("p", "http://e/")
nm = g.namespace_manager
problems = []
for iri in ["http://e/v1.", "http://e/f(x)"]:
    term = URIRef(iri)
    text = term.n3(nm)
    doc = "@prefix p: <http://e/> .\n<http://e/s> <http://e/q> %s .\n" % text
    try:
        objs = list(Graph().parse(data=doc, format="turtle").objects())
    except Exception as e:
        objs = "%s" % type(e).__name__
    if objs != [term]:
        ser = [l for l in Graph(bind_namespaces="none").add((URIRef("http://e/s"), URIRef("http://e/q"), term)).serialize(format="turtle").splitlines() if l.strip()][-1]
        problems.append("<%s>.n3(nm) = %r reads back as %s (turtle serializer writes %r)" % (iri, text, objs, ser))
if problems:
    print("FAIL: " + "; ".join(problems))
    sys.exit(1)
print("PASS")
