"""SPARQLStore.bind: a namespace bound to the empty prefix is not unbound when the
namespace is re-bound (override=True) to another prefix -> namespace listed twice."""
import sys
from rdflib import Graph, URIRef
from rdflib.plugins.stores.sparqlstore import SPARQLStore

g = Graph(SPARQLStore("http://localhost:1/sparql"), bind_namespaces="none")  # no request is made
g.bind("", "http://c/")
g.bind("c", "http://c/")          # override=True: must move the namespace to prefix c
l = [(p, str(n)) for p, n in g.namespaces()]
nss = [n for p, n in l]
problems = []
if len(set(nss)) != len(nss):
    problems.append("namespaces() lists a namespace twice: %r" % l)
for p, n in l:
    if g.store.prefix(URIRef(n)) != p:
        problems.append("namespaces() has (%r, %r) but store.prefix(%r) = %r" % (p, n, n, g.store.prefix(URIRef(n))))
        break
if problems:
    print("FAIL: " + "; ".join(problems))
    sys.exit(1)
print("PASS")
