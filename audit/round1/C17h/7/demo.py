"""An IRI that is itself a bound namespace is compacted to 'prefix:' - unless the
prefix is the empty one, then compute_qname raises."""
import sys
from rdflib import Graph

ns = "http://e/vocab#"
problems = []
for prefix in ("p", ""):
    g = Graph(bind_namespaces="none")
    g.bind(prefix, ns)
    nm = g.namespace_manager
    try:
        c = nm.curie(ns)
        if str(nm.expand_curie(c)) != ns:
            problems.append("prefix %r: curie %r expands to %r" % (prefix, c, str(nm.expand_curie(c))))
    except Exception as e:
        problems.append("namespace bound to prefix %r: curie(%r) raises %s(%s) (with prefix 'p' it returns 'p:')"
                        % (prefix, ns, type(e).__name__, e))
if problems:
    print("FAIL: " + "; ".join(problems))
    sys.exit(1)
print("PASS")
