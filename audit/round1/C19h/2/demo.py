# On a cyclic rdf:rest chain, len()/iteration raise, but positional reads
# c[k] silently walk round the cycle and return a member for ANY k >= 0
# (c[7] on a two-cell cycle), and c[7] = x / del c[7] then mutate the graph.
import sys
from rdflib import Graph, BNode, Literal, RDF
from rdflib.collection import Collection

g = Graph()
a, b = BNode("a"), BNode("b")
g.add((a, RDF.first, Literal(1))); g.add((a, RDF.rest, b))
g.add((b, RDF.first, Literal(2))); g.add((b, RDF.rest, a))   # b -> a : cycle
c = Collection(g, a)

try:
    len(c)
    print("FAIL: len() did not raise on the cyclic chain"); sys.exit(1)
except ValueError:
    pass

try:
    v = c[7]
except Exception:
    print("PASS"); sys.exit(0)
print("FAIL: c[7] on a cyclic 2-cell chain returned %r instead of raising" % (v,))
sys.exit(1)
