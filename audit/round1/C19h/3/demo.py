# Broken chain: the middle cell has rdf:rest but no rdf:first.
# len()/iteration/`in`/n3() silently skip the cell instead of raising, and so
# disagree with positional reads of the same list.
import sys
from rdflib import Graph, BNode, Literal, RDF
from rdflib.collection import Collection

g = Graph()
a, b, d = BNode("a"), BNode("b"), BNode("d")
g.add((a, RDF.first, Literal(1))); g.add((a, RDF.rest, b))
g.add((b, RDF.rest, d))                                   # b has no rdf:first
g.add((d, RDF.first, Literal(3))); g.add((d, RDF.rest, RDF.nil))
c = Collection(g, a)

try:
    n = len(c)
    items = list(c)
except Exception:
    print("PASS"); sys.exit(0)          # reads on a broken chain raise

problems = []
try:
    by_index = [c[i] for i in range(n)]
    if by_index != items:
        problems.append("[c[i] for i in range(len(c))] = %r but list(c) = %r" % (by_index, items))
except Exception as e:
    problems.append("len(c) == %d and list(c) == %r, yet c[1] raises %s" % (n, items, type(e).__name__))
try:
    extra = c[n]
    problems.append("c[len(c)] returns %r" % (extra,))
except IndexError:
    pass
if problems:
    print("FAIL: broken chain read without error, and inconsistently: " + "; ".join(problems))
    sys.exit(1)
print("PASS")
