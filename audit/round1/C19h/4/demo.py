# A list node that is falsy as a Python str (the legal relative IRI <>, i.e.
# URIRef("")) is treated as "no node": as head it is silently swapped for a
# fresh blank node, and as an inner cell it ends iteration early.
import sys
from rdflib import Graph, BNode, Literal, URIRef, RDF
from rdflib.collection import Collection

problems = []

# (1) head: the list is written under some other node and cannot be re-opened
g = Graph()
head = URIRef("")
Collection(g, head, [Literal(1), Literal(2)])
again = list(Collection(g, head))
if again != [Literal(1), Literal(2)]:
    problems.append("list built at URIRef('') reads back as %r (head has %d triples)"
                    % (again, len(list(g.triples((head, None, None))))))

# (2) inner cell: well-formed chain a -> <> -> nil
g = Graph()
a, m = BNode("a"), URIRef("")
g.add((a, RDF.first, Literal(1))); g.add((a, RDF.rest, m))
g.add((m, RDF.first, Literal(2))); g.add((m, RDF.rest, RDF.nil))
c = Collection(g, a)
if len(c) != 2 or list(c) != [Literal(1), Literal(2)]:
    problems.append("chain a -> <> -> nil: len=%d list=%r although c[1]=%r and index(2)=%d"
                    % (len(c), list(c), c[1], c.index(Literal(2))))

if problems:
    print("FAIL: " + "; ".join(problems)); sys.exit(1)
print("PASS")
