# Deleting the only member of a list wipes every triple whose subject is the
# list node, not just its rdf:first/rdf:rest cell (clear() and del on longer
# lists keep them).
import sys
from rdflib import Graph, URIRef, Literal, RDF, RDFS
from rdflib.collection import Collection

def build():
    g = Graph()
    head = URIRef("http://example.org/list")
    g.add((head, RDFS.label, Literal("my list")))
    g.add((head, RDF.type, RDF.List))
    return g, head

# reference: same end state (empty list) reached through clear()
g1, head = build()
c1 = Collection(g1, head, [Literal(0)])
c1.clear()
via_clear = set(g1)

g2, head = build()
c2 = Collection(g2, head, [Literal(0)])
del c2[0]            # a list [0] after `del l[0]` is just []
via_del = set(g2)

if list(c2) != []:
    print("FAIL: list not empty after del"); sys.exit(1)
if via_del != via_clear or (head, RDFS.label, Literal("my list")) not in g2:
    print("FAIL: del c[0] on a one-member list removed unrelated triples of the list node: lost %r"
          % sorted(via_clear - via_del))
    sys.exit(1)
print("PASS")
