"""Swapping the operands of a join must not change the answers, also when one
operand is a grouped sub-query."""
import sys
from collections import Counter
from rdflib import Graph

g = Graph()
g.parse(
    data="""
@prefix : <http://e/> .
:a :p :b . :b :p :c . :c :p :a .
:a :q 1 . :a :q 2 . :b :q 3 .
""",
    format="turtle",
)


def ms(q):
    return Counter(
        tuple(sorted((str(k), v.n3()) for k, v in b.items()))
        for b in g.query("PREFIX : <http://e/> " + q).bindings
    )


SUB = "{ SELECT ?s (COUNT(*) AS ?n) { ?s :q ?y } GROUP BY ?s }"
r1 = ms("SELECT * { %s { ?s :p ?o } }" % SUB)
r2 = ms("SELECT * { { ?s :p ?o } %s }" % SUB)
# :c has no :q triple, so the sub-query has no group for it and the join has
# two solutions (s=:a n=2, s=:b n=1) whatever the operand order
if r1 != r2 or sum(r2.values()) != 2:
    extra = r2 - r1
    print(
        "FAIL sub-query first: %d rows, sub-query second: %d rows; extra row(s) %r"
        % (sum(r1.values()), sum(r2.values()), sorted(extra.elements()))
    )
    sys.exit(1)
print("PASS")
