"""Swapping the operands of a join must not change the answers (GRAPH ?g {...} joined with VALUES ?g)."""
import sys
from collections import Counter
from rdflib import Dataset

ds = Dataset()
ds.parse(
    data="""
@prefix : <http://e/> .
:g1 { :a :p :b }
:d0 :p :d1 .
""",
    format="trig",
)


def ms(q):
    return Counter(
        tuple(sorted((str(k), v.n3()) for k, v in b.items()))
        for b in ds.query("PREFIX : <http://e/> " + q).bindings
    )


pairs = [
    # the default graph is not a named graph: GRAPH ?g never binds ?g to its identifier ...
    ("SELECT * { GRAPH ?g { ?s :p ?o } VALUES ?g { <urn:x-rdflib:default> } }",
     "SELECT * { VALUES ?g { <urn:x-rdflib:default> } GRAPH ?g { ?s :p ?o } }"),
    # a name that is no graph of the dataset
    ("SELECT * { GRAPH ?g { } VALUES ?g { :nope } }",
     "SELECT * { VALUES ?g { :nope } GRAPH ?g { } }"),
    # not even an IRI
    ("SELECT * { { GRAPH ?g { } } { VALUES ?g { 1 } } }",
     "SELECT * { { VALUES ?g { 1 } } { GRAPH ?g { } } }"),
]
bad = []
for a, b in pairs:
    ra, rb = ms(a), ms(b)
    if ra != rb:
        bad.append("%s -> %d row(s) but %s -> %d row(s)" % (a, sum(ra.values()), b, sum(rb.values())))
if bad:
    print("FAIL join operand order changes the answer: " + bad[0] + " (%d of %d pairs differ)" % (len(bad), len(pairs)))
    sys.exit(1)
print("PASS")
