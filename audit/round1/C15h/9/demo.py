"""Renaming a variable consistently must not change the answers."""
import sys
from collections import Counter
from rdflib import Graph

g = Graph()
g.parse(data="@prefix : <http://e/> . :a :p :b , :c . :b :p :c .", format="turtle")


def ms(q, ren):
    return Counter(
        tuple(sorted((ren.get(str(k), str(k)), v.n3()) for k, v in b.items()))
        for b in g.query("PREFIX : <http://e/> " + q).bindings
    )


r1 = ms("SELECT ?s (COUNT(*) AS ?c) { ?s :p ?o } GROUP BY ?s", {})
# the same query with ?s consistently renamed to ?__agg_1__
r2 = ms("SELECT ?__agg_1__ (COUNT(*) AS ?c) { ?__agg_1__ :p ?o } GROUP BY ?__agg_1__", {"__agg_1__": "s"})
if r1 != r2:
    print("FAIL after renaming ?s to ?__agg_1__ the counts change: %r vs %r" % (sorted(r1.elements()), sorted(r2.elements())))
    sys.exit(1)
print("PASS")
