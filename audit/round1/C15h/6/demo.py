"""The same data held as a read-only aggregate of graphs must give the same answers."""
import sys
import warnings
from collections import Counter
from rdflib import Graph, URIRef, ConjunctiveGraph
from rdflib.graph import ReadOnlyGraphAggregate

warnings.simplefilter("ignore")
A, B, C, P = (URIRef("http://e/" + x) for x in "abcp")
g1 = Graph(identifier=URIRef("http://e/g1"))
g2 = Graph(identifier=URIRef("http://e/g2"))
g1.add((A, P, B))
g1.add((B, P, C))
g2.add((A, P, B))  # the same triple is also in the second member graph
agg = ReadOnlyGraphAggregate([g1, g2])

union = Graph()  # the same data (an RDF graph is a set of triples) in one in-memory graph
for t in list(g1) + list(g2):
    union.add(t)
cg = ConjunctiveGraph()  # and as a union over named graphs of one store
for t in g1:
    cg.get_context(g1.identifier).add(t)
for t in g2:
    cg.get_context(g2.identifier).add(t)


def ms(g, q):
    return Counter(tuple(sorted((str(k), v.n3()) for k, v in b.items())) for b in g.query(q).bindings)


problems = []
for q in (
    "SELECT * { ?s <http://e/p> ?o }",
    "SELECT (COUNT(*) AS ?c) { ?s ?p ?o }",
    "SELECT * { ?s <http://e/p>/<http://e/p> ?o }",
):
    ra, ru, rc = ms(agg, q), ms(union, q), ms(cg, q)
    if not (ra == ru == rc):
        problems.append("%s -> aggregate %r, plain graph %r" % (q, sorted(ra.elements()), sorted(ru.elements())))
if problems:
    print("FAIL ReadOnlyGraphAggregate answers differ: " + problems[1 if len(problems) > 1 else 0])
    sys.exit(1)
print("PASS")
