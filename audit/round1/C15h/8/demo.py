"""Spelling an IRI relative to BASE, or through a prefix whose namespace is given
relative to BASE, must give the same answers as writing the IRI in full."""
import sys
from rdflib import Graph, URIRef, Literal

g = Graph()
g.add((URIRef("http://e/x#a:b"), URIRef("http://e/p"), Literal(1)))
g.add((URIRef("http://e/a:b"), URIRef("http://e/p"), Literal(2)))

full1 = sorted(r[0] for r in g.query("SELECT ?o { <http://e/x#a:b> <http://e/p> ?o }"))
full2 = sorted(r[0] for r in g.query("SELECT ?o { <http://e/a:b> <http://e/p> ?o }"))
variants = {
    "BASE <http://e/x> SELECT ?o { <#a:b> <p> ?o }": full1,
    "BASE <http://e/x> PREFIX f: <#a:> SELECT ?o { f:b <p> ?o }": full1,
    "BASE <http://e/x> SELECT ?o { <./a:b> <p> ?o }": full2,
    "BASE <http://e/x> SELECT ?o { </a:b> <p> ?o }": full2,
}
bad = []
for q, expected in variants.items():
    got = sorted(r[0] for r in g.query(q))
    if got != expected:
        bad.append("%s -> %r (full IRI gives %r)" % (q, got, expected))
if bad:
    print("FAIL %d of %d relative spellings are not resolved against BASE, e.g. %s" % (len(bad), len(variants), bad[0]))
    sys.exit(1)
print("PASS")
