"""Swapping join operands / triple-pattern order must not change the answers.
A sub-query grouped by a variable that its pattern leaves unbound projects
?s -> None, which makes the enclosing join raise or lose rows depending on order."""
import sys
from collections import Counter
from rdflib import Graph

g = Graph()
g.parse(
    data="""
@prefix : <http://e/> .
:a :r :a . :b :p :c .
""",
    format="turtle",
)


def ms(q):
    try:
        return Counter(
            tuple(sorted((str(k), v.n3() if v is not None else "None") for k, v in b.items()))
            for b in g.query("PREFIX : <http://e/> " + q).bindings
        )
    except Exception as e:  # noqa
        return "raised %s" % type(e).__name__


SUB = "{ SELECT ?s (COUNT(*) AS ?n) { ?x :r ?y } GROUP BY ?s }"   # ?s is never bound inside
r1 = ms("SELECT * { ?s :r ?o %s }" % SUB)
r2 = ms("SELECT * { %s ?s :r ?o }" % SUB)
r3 = ms("SELECT * { %s VALUES ?s { :a } }" % SUB)
r4 = ms("SELECT * { VALUES ?s { :a } %s }" % SUB)
# the sub-query has one solution {n=1} with ?s unbound, so it joins with anything
ok = (
    r1 == r2 == Counter({(("n", '"1"^^<http://www.w3.org/2001/XMLSchema#integer>'), ("o", "<http://e/a>"), ("s", "<http://e/a>")): 1})
    and r3 == r4 == Counter({(("n", '"1"^^<http://www.w3.org/2001/XMLSchema#integer>'), ("s", "<http://e/a>")): 1})
)
if not ok:
    print("FAIL BGP-then-subquery: %r; subquery-then-BGP: %r; subquery-then-VALUES: %r; VALUES-then-subquery: %r" % (r1, r2, r3, r4))
    sys.exit(1)
print("PASS")
