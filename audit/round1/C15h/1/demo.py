"""initBindings for a variable bound by the outermost BGP must equal a VALUES row;
with a MINUS in the query it does not."""
import sys
from collections import Counter
from rdflib import Graph, URIRef

g = Graph()
g.parse(
    data="""
@prefix : <http://e/> .
:a :p :b . :b :p :c . :b :q 2 .
""",
    format="turtle",
)


def ms(res):
    return Counter(
        tuple(sorted((str(k), v.n3()) for k, v in b.items())) for b in res.bindings
    )


P = "PREFIX : <http://e/> "
# ?s is bound by the outermost BGP and used nowhere else; the MINUS operand
# shares no variable with it, so MINUS must not remove anything.
with_values = ms(g.query(P + "SELECT * { ?s :q ?o MINUS { ?x :p ?z } VALUES ?s { :b } }"))
with_init = ms(
    g.query(
        P + "SELECT * { ?s :q ?o MINUS { ?x :p ?z } }",
        initBindings={"s": URIRef("http://e/b")},
    )
)
if with_values != with_init:
    print(
        "FAIL initBindings {s: :b} gives %r but VALUES ?s { :b } gives %r"
        % (sorted(with_init.elements()), sorted(with_values.elements()))
    )
    sys.exit(1)
print("PASS")
