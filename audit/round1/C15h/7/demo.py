"""The same named graphs held as a read-only aggregate must give the same answers
to GRAPH patterns as when held in one context-aware in-memory store."""
import sys
import warnings
from collections import Counter
from rdflib import Graph, URIRef, Literal, ConjunctiveGraph
from rdflib.graph import ReadOnlyGraphAggregate

warnings.simplefilter("ignore")
A, B, P = (URIRef("http://e/" + x) for x in "abp")
G1, G2 = URIRef("http://e/g1"), URIRef("http://e/g2")
g1 = Graph(identifier=G1)
g2 = Graph(identifier=G2)
g1.add((A, P, Literal(1)))
g2.add((B, P, Literal(2)))
agg = ReadOnlyGraphAggregate([g1, g2])
cg = ConjunctiveGraph()
cg.get_context(G1).add((A, P, Literal(1)))
cg.get_context(G2).add((B, P, Literal(2)))


def ms(g, q):
    return Counter(tuple(sorted((str(k), v.n3()) for k, v in b.items())) for b in g.query(q).bindings)


# sanity: the default (union) graph is the same
assert ms(agg, "SELECT * {?s ?p ?o}") == ms(cg, "SELECT * {?s ?p ?o}")
problems = []
for q in ("SELECT * { GRAPH ?g { ?s ?p ?o } }", "SELECT * { GRAPH <http://e/g1> { ?s ?p ?o } }"):
    ra, rc = ms(agg, q), ms(cg, q)
    if ra != rc:
        problems.append("%s: aggregate %d row(s), ConjunctiveGraph %d row(s)" % (q, sum(ra.values()), sum(rc.values())))
if problems:
    print("FAIL " + "; ".join(problems))
    sys.exit(1)
print("PASS")
