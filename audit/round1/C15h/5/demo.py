"""Join order / initBindings-vs-VALUES must not matter, also for zero-length paths."""
import sys
from collections import Counter
from rdflib import Graph, URIRef

g = Graph()
g.parse(data="@prefix : <http://e/> . :a :p :b . :b :p :c .", format="turtle")


def ms(q, **kw):
    return Counter(
        tuple(sorted((str(k), v.n3()) for k, v in b.items()))
        for b in g.query("PREFIX : <http://e/> " + q, **kw).bindings
    )


# :zz does not occur in the graph
first = ms("SELECT * { VALUES ?s { :zz } ?s :p* ?o }")
after = ms("SELECT * { ?s :p* ?o VALUES ?s { :zz } }")
grp1 = ms("SELECT * { { VALUES ?s { :zz } } { ?s :p? ?o } }")
grp2 = ms("SELECT * { { ?s :p? ?o } { VALUES ?s { :zz } } }")
init = ms("SELECT * { ?s :p* ?o }", initBindings={"s": URIRef("http://e/zz")})
problems = []
if first != after:
    problems.append("VALUES before the path pattern: %d row(s), after it: %d row(s)" % (sum(first.values()), sum(after.values())))
if grp1 != grp2:
    problems.append("{VALUES}{path}: %d row(s), {path}{VALUES}: %d row(s)" % (sum(grp1.values()), sum(grp2.values())))
if init != after:
    problems.append("initBindings: %d row(s), VALUES row: %d row(s)" % (sum(init.values()), sum(after.values())))
if problems:
    print("FAIL " + "; ".join(problems))
    sys.exit(1)
print("PASS")
