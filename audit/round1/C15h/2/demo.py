"""Swapping the operands of a join must not change the answers.
{ {BIND(:a AS ?s)} {?s :p ?o} }  ==  { {?s :p ?o} {BIND(:a AS ?s)} }"""
import sys
from collections import Counter
from rdflib import Graph

g = Graph()
g.parse(
    data="""
@prefix : <http://e/> .
:a :p :b . :b :p :c . :c :p :a .
""",
    format="turtle",
)


def ms(q):
    return Counter(
        tuple(sorted((str(k), v.n3()) for k, v in b.items()))
        for b in g.query("PREFIX : <http://e/> " + q).bindings
    )


r1 = ms("SELECT * { { BIND(:a AS ?s) } { ?s :p ?o } }")
r2 = ms("SELECT * { { ?s :p ?o } { BIND(:a AS ?s) } }")
# same thing with a sub-select that projects an expression
r3 = ms("SELECT * { { SELECT (:a AS ?s) {} } { ?s :p ?o } }")
r4 = ms("SELECT * { { ?s :p ?o } { SELECT (:a AS ?s) {} } }")
expected = Counter({(("o", "<http://e/b>"), ("s", "<http://e/a>")): 1})
bad = [n for n, r in (("BIND first", r1), ("BIND second", r2), ("sub-select first", r3), ("sub-select second", r4)) if r != expected]
if bad:
    print(
        "FAIL join operands swapped give different answers: %s return %d/%d/%d/%d rows, expected 1 each"
        % (", ".join(bad), sum(r1.values()), sum(r2.values()), sum(r3.values()), sum(r4.values()))
    )
    sys.exit(1)
print("PASS")
