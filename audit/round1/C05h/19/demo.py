"""JSON-LD: relative IRIs must be resolved against the base IRI whatever its scheme.  With a base whose
scheme urllib does not list as 'uses_relative' (s3://, foo://, tag:, ...) every node whose @id is relative
is silently dropped; with a urn: base '#f' becomes urn:ex:doc/#f."""
import json, sys
from rdflib import Graph, URIRef

bad = []
for base, ref, want in [("s3://bucket/dir/doc.jsonld", "other", "s3://bucket/dir/other"),
                        ("s3://bucket/dir/doc.jsonld", "#me", "s3://bucket/dir/doc.jsonld#me"),
                        ("urn:ex:doc", "#f", "urn:ex:doc#f")]:
    doc = {"@context": {"@base": base}, "@id": ref, "http://e/p": "v"}
    g = Graph().parse(data=json.dumps(doc), format="json-ld")
    got = sorted(str(s) for s in g.subjects())
    if got != [want]:
        bad.append("@base %s, @id %r -> subjects %r (expected <%s>)" % (base, ref, got, want))
    # Turtle resolves the same reference
    t = Graph().parse(data="@base <%s> .\n<%s> <http://e/p> 'v' ." % (base, ref), format="turtle")
    assert [str(s) for s in t.subjects()] == [want]
if bad:
    print("FAIL: " + "; ".join(bad))
    sys.exit(1)
print("PASS")
