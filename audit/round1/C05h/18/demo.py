"""Turtle/TriG: RDFLiteral ::= String (LANGTAG | '^^' iri)? - these are separate terminals, so white space
(and comments) may appear between the string and the language tag / '^^' (it is accepted after '^^')."""
import sys
from rdflib import Graph, Literal, URIRef, XSD

P = "@prefix xsd: <http://www.w3.org/2001/XMLSchema#> .\n"
cases = [('<http://e/s> <http://e/p> "x" @en .', Literal("x", lang="en")),
         ('<http://e/s> <http://e/p> "1" ^^ xsd:integer .', Literal("1", datatype=XSD.integer)),
         ('<http://e/s> <http://e/p> "1"\n  ^^xsd:integer .', Literal("1", datatype=XSD.integer)),
         ('<http://e/s> <http://e/p> "1"^^ xsd:integer .', Literal("1", datatype=XSD.integer))]
bad = []
for doc, want in cases:
    try:
        got = list(Graph().parse(data=P + doc, format="turtle").objects())
        if got != [want]:
            bad.append("%r -> %r" % (doc, got))
    except Exception as e:
        bad.append("%r -> %s" % (doc, type(e).__name__))
if bad:
    print("FAIL: white space between a string and its language tag / datatype marker is rejected: " + "; ".join(bad))
    sys.exit(1)
print("PASS")
