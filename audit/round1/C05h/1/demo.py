"""N-Triples: white space between terms is optional (W3C test nt-syntax 'minimal_whitespace')."""
import sys
from rdflib import Graph, URIRef, Literal

doc = '<http://e/s><http://e/p><http://e/o>.\n<http://e/s><http://e/p>"x".\n'
expected = {
    (URIRef("http://e/s"), URIRef("http://e/p"), URIRef("http://e/o")),
    (URIRef("http://e/s"), URIRef("http://e/p"), Literal("x")),
}
try:
    got = set(Graph().parse(data=doc, format="nt"))
except Exception as e:
    print("FAIL: legal N-Triples without optional white space is rejected: %s: %s" % (type(e).__name__, str(e).strip()[:80]))
    sys.exit(1)
if got != expected:
    print("FAIL: wrong graph %r" % (got,))
    sys.exit(1)
print("PASS")
