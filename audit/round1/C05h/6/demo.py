"""Turtle: WS ::= #x20 | #x9 | #xD | #xA and a comment ends at #xA *or* #xD.
A document with CR-only line ends is legal and must give the same graph as with LF."""
import sys
from rdflib import Graph

lf = "<http://e/s> <http://e/p> <http://e/o1> . # comment\n<http://e/s> <http://e/p> <http://e/o2> .\n<http://e/s> <http://e/p> <http://e/o3> .\n"
cr = lf.replace("\n", "\r")
want = set(Graph().parse(data=lf, format="turtle"))
assert len(want) == 3
msgs = []
try:
    got = set(Graph().parse(data=cr, format="turtle"))
    if got != want:
        msgs.append("CR-terminated comment: %d of 3 triples read, no error" % len(got))
except Exception as e:
    msgs.append("CR line ends (with comment): %s" % type(e).__name__)
try:
    got = set(Graph().parse(data="<http://e/s> <http://e/p> <http://e/o1> .\r<http://e/s> <http://e/p> <http://e/o2> .\r", format="turtle"))
    if len(got) != 2:
        msgs.append("CR between statements: %d of 2 triples" % len(got))
except Exception as e:
    msgs.append("CR between statements: %s" % type(e).__name__)
if msgs:
    print("FAIL: carriage return is not handled as white space / comment end in Turtle: " + "; ".join(msgs))
    sys.exit(1)
print("PASS")
