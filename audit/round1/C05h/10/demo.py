"""The same Turtle document handed to parse() as str and as bytes must give the same graph.
With data=<bytes> the CR / CRLF inside a long string literal are turned into LF."""
import sys
from rdflib import Graph

doc = '<http://e/s> <http://e/p> """a\r\nb\rc""" .\n'
as_str = [str(o) for o in Graph().parse(data=doc, format="turtle").objects()]
as_bytes = [str(o) for o in Graph().parse(data=doc.encode("utf-8"), format="turtle").objects()]
if as_str != ["a\r\nb\rc"] or as_bytes != as_str:
    print("FAIL: literal read from str = %r, from bytes = %r (expected 'a\\r\\nb\\rc' both times)" % (as_str, as_bytes))
    sys.exit(1)
print("PASS")
