"""Turtle/TriG: a relative IRI reference whose query or fragment contains ':' (e.g. <#a:b>, <?x=a:b>)
must be resolved against the base; rdflib takes the ':' for a scheme delimiter and keeps the reference
unresolved, so the graph contains a relative IRI."""
import sys
from rdflib import Graph, URIRef

doc = "@base <http://b/a/doc> .\n<http://e/s> <http://e/p> <#a:b> , <?x=a:b> .\n"
want = {URIRef("http://b/a/doc#a:b"), URIRef("http://b/a/doc?x=a:b")}
got = set(Graph().parse(data=doc, format="turtle").objects())
# the same references in RDF/XML, for comparison
xml = ('<rdf:RDF xmlns:rdf="http://www.w3.org/1999/02/22-rdf-syntax-ns#" xmlns:ex="http://e/" xml:base="http://b/a/doc">'
       '<rdf:Description rdf:about="http://e/s"><ex:p rdf:resource="#a:b"/><ex:p rdf:resource="?x=a:b"/></rdf:Description></rdf:RDF>')
got_xml = set(Graph().parse(data=xml, format="xml").objects())
if got != want:
    print("FAIL: Turtle <#a:b>, <?x=a:b> with @base <http://b/a/doc> gave %s (RDF/XML parser gives %s)"
          % (sorted(map(str, got)), sorted(map(str, got_xml))))
    sys.exit(1)
print("PASS")
