"""The same RDF/XML file given as a path and as an open file object (positional source) must give the same graph.
With the file object the base is the bare file name, so relative IRIs come out without a scheme."""
import os, sys, tempfile
from rdflib import Graph

doc = ('<rdf:RDF xmlns:rdf="http://www.w3.org/1999/02/22-rdf-syntax-ns#" xmlns:ex="http://e/">'
       '<rdf:Description rdf:about="http://e/s"><ex:p rdf:resource="rel"/></rdf:Description></rdf:RDF>')
d = tempfile.mkdtemp()
path = os.path.join(d, "doc.rdf")
with open(path, "w") as f:
    f.write(doc)
by_path = sorted(str(o) for o in Graph().parse(path, format="xml").objects())
with open(path, "rb") as f:
    by_file = sorted(str(o) for o in Graph().parse(f, format="xml").objects())
with open(path, "rb") as f:
    by_file_kw = sorted(str(o) for o in Graph().parse(file=f, format="xml").objects())
# Turtle, for comparison, is consistent
ttl = os.path.join(d, "doc.ttl")
with open(ttl, "w") as f:
    f.write("<http://e/s> <http://e/p> <rel> .")
with open(ttl, "rb") as f:
    assert sorted(str(o) for o in Graph().parse(f, format="turtle").objects()) == sorted(str(o) for o in Graph().parse(ttl, format="turtle").objects())
os.unlink(path); os.unlink(ttl); os.rmdir(d)
if not (by_path == by_file == by_file_kw) or ":" not in by_file[0]:
    print("FAIL: rdf:resource=\"rel\": parse(path) -> %s, parse(file=f) -> %s, parse(f) -> %s" % (by_path, by_file_kw, by_file))
    sys.exit(1)
print("PASS")
