"""Turtle/TriG relative IRI resolution ignores the query and fragment components (RFC 3986 5.2.2):
  - a query-only reference <?y> must keep the base path      (base http://b/a/c  -> http://b/a/c?y)
  - the base's query must not take part in path merging       (base http://b/a/c?q=1/2 + <x> -> http://b/a/x)
  - the base's fragment must be dropped                       (base http://b/a/c#frag + <> -> http://b/a/c)
"""
import sys
from urllib.parse import urljoin
from rdflib import Graph, URIRef

cases = [
    ("http://b/a/c", "?y", "http://b/a/c?y"),
    ("http://b/a/c?q=1/2", "x", "http://b/a/x"),
    ("http://b/a/c?q=1/2", "#f", "http://b/a/c?q=1/2#f"),
    ("http://b/a/c#frag", "", "http://b/a/c"),
    ("http://b/a/c#frag", "#f", "http://b/a/c#f"),
]
bad = []
for base, ref, want in cases:
    assert ref == "" or urljoin(base, ref) == want      # independent RFC 3986 implementation agrees
    doc = "@base <%s> .\n<http://e/s> <http://e/p> <%s> .\n" % (base, ref)
    got = str(next(iter(Graph().parse(data=doc, format="turtle").objects())))
    if got != want:
        bad.append("base <%s> + <%s> -> <%s> (expected <%s>)" % (base, ref, got, want))
if bad:
    print("FAIL: " + "; ".join(bad))
    sys.exit(1)
print("PASS")
