"""Turtle: PN_PREFIX may contain '.', so 'a.b:' and 'true.x:' are legal prefixes; the keyword tests for
'a' / 'true' / 'false' fire on them because '.' is treated as a keyword terminator."""
import sys
from rdflib import Graph, URIRef, Literal

msgs = []
doc1 = "@prefix a.b: <http://ab/> .\n<http://e/s> a.b:c <http://e/o> .\n"
try:
    got = set(Graph().parse(data=doc1, format="turtle"))
    if got != {(URIRef("http://e/s"), URIRef("http://ab/c"), URIRef("http://e/o"))}:
        msgs.append("predicate a.b:c -> %r" % (got,))
except Exception as e:
    msgs.append("predicate a.b:c rejected (%s)" % type(e).__name__)
doc2 = "@prefix true.x: <http://t/> .\n<http://e/s> <http://e/p> true.x:c .\n"
try:
    got = set(Graph().parse(data=doc2, format="turtle"))
    if got != {(URIRef("http://e/s"), URIRef("http://e/p"), URIRef("http://t/c"))}:
        msgs.append("object true.x:c -> %r" % (got,))
except Exception as e:
    msgs.append("object true.x:c rejected (%s)" % type(e).__name__)
if msgs:
    print("FAIL: prefixed names whose prefix starts with a keyword followed by '.' are misread: " + "; ".join(msgs))
    sys.exit(1)
print("PASS")
