"""JSON-LD: a list item that expands to nothing (e.g. {"@value": null}) is dropped from the list
(JSON-LD expansion 13.4.16 / value objects with null @value are removed).  rdflib drops the item
but leaves a cell that points to itself with rdf:rest (and also to rdf:nil)."""
import json, sys
from rdflib import Graph, RDF, URIRef, Literal
from rdflib.compare import isomorphic

doc = {"@id": "http://e/s", "http://e/p": {"@list": ["a", {"@value": None}, "b"]}}
g = Graph().parse(data=json.dumps(doc), format="json-ld")
want = Graph().parse(data='<http://e/s> <http://e/p> ("a" "b") .', format="turtle")
loops = [s for s, o in g.subject_objects(RDF.rest) if s == o]
multi = [s for s in set(g.subjects(RDF.rest)) if len(list(g.objects(s, RDF.rest))) > 1]
if loops or multi or not isomorphic(g, want):
    print("FAIL: {'@list': ['a', {'@value': null}, 'b']} gives a malformed list: %d cell(s) with rdf:rest pointing to itself, "
          "%d cell(s) with two rdf:rest values (expected the list ('a' 'b'))" % (len(loops), len(multi)))
    sys.exit(1)
print("PASS")
