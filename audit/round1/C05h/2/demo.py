"""N-Triples / N-Quads: BLANK_NODE_LABEL may contain non-ASCII PN_CHARS (e.g. U+00E9, U+00B7)."""
import sys
from rdflib import Graph, Dataset, BNode

problems = []
for fmt, G, doc in [
    ("nt", Graph, "_:bé <http://e/p> _:bé .\n"),
    ("nt", Graph, "_:a·b <http://e/p> _:a·b .\n"),
    ("nquads", Dataset, "_:bé <http://e/p> _:bé <http://e/g> .\n"),
]:
    try:
        g = G().parse(data=doc, format=fmt)
        ts = [t[:3] for t in g]
        if len(ts) != 1 or not isinstance(ts[0][0], BNode) or ts[0][0] != ts[0][2]:
            problems.append("%s %r -> %r" % (fmt, doc, ts))
    except Exception as e:
        problems.append("%s %r -> %s" % (fmt, doc, type(e).__name__))
if problems:
    print("FAIL: legal non-ASCII blank node labels are rejected: " + "; ".join(problems))
    sys.exit(1)
print("PASS")
