"""RDF/XML: an rdf:type property attribute on an (empty) property element is an IRI reference that must be
resolved against the in-scope base (RDF/XML syntax 7.2.21: u := uri(resolve(e, a.string-value)));
rdflib resolves it on node elements but not on property elements."""
import sys
from rdflib import Graph, URIRef, RDF

doc = ('<rdf:RDF xmlns:rdf="http://www.w3.org/1999/02/22-rdf-syntax-ns#" xmlns:ex="http://e/" xml:base="http://b/x/">'
       '<rdf:Description rdf:about="http://e/s"><ex:p rdf:resource="http://e/o" rdf:type="Foo"/></rdf:Description>'
       '<rdf:Description rdf:about="http://e/o2" rdf:type="Foo"/>'
       '</rdf:RDF>')
g = Graph().parse(data=doc, format="xml")
t_prop = g.value(URIRef("http://e/o"), RDF.type)
t_node = g.value(URIRef("http://e/o2"), RDF.type)
want = URIRef("http://b/x/Foo")
if t_prop != want or t_node != want:
    print("FAIL: rdf:type=\"Foo\" under xml:base http://b/x/ gave %r on the property element (node element: %r)" % (t_prop, t_node))
    sys.exit(1)
print("PASS")
