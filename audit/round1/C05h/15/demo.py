"""JSON-LD: relative @id resolution passes the resolved IRI through posixpath.normpath, which turns the
empty path of a base such as http://b (or http://example.org) into '.':
   ""   -> http://b/.      "#f" -> http://b/.#f      "?q" -> http://b/.?q
"""
import json, sys
from rdflib import Graph, URIRef

P = "http://e/p"
def resolve(base, ref):
    doc = {"@id": "http://e/s", P: {"@id": ref}}
    g = Graph().parse(data=json.dumps(doc), format="json-ld", publicID=base)
    return str(g.value(URIRef("http://e/s"), URIRef(P)))

cases = [("http://b", "", "http://b"), ("http://b", "#f", "http://b#f"), ("http://b", "?q", "http://b?q")]
bad = []
for base, ref, want in cases:
    got = resolve(base, ref)
    if got != want:
        bad.append("base <%s> + %r -> <%s> (expected <%s>)" % (base, ref, got, want))
# same document, same base, Turtle spelling
t = Graph().parse(data="<http://e/s> <http://e/p> <> , <#f> .", format="turtle", publicID="http://b")
assert sorted(map(str, t.objects())) == ["http://b", "http://b#f"]
if bad:
    print("FAIL: " + "; ".join(bad))
    sys.exit(1)
print("PASS")
