"""Turtle/TriG relative IRI resolution must remove dot segments wherever they occur in the merged path
(RFC 3986 5.2.4), not only at the start of the reference: <x/../y>, <x/./y>, <x/.>, <x/..>."""
import sys
from urllib.parse import urljoin
from rdflib import Graph

base = "http://b/a/"
cases = [("x/../y", "http://b/a/y"), ("x/./y", "http://b/a/x/y"), ("x/.", "http://b/a/x/"), ("x/..", "http://b/a/"),
         ("g;x=1/../y", "http://b/a/y")]
bad = []
for ref, want in cases:
    assert urljoin(base, ref) == want
    doc = "@base <%s> .\n<http://e/s> <http://e/p> <%s> .\n" % (base, ref)
    got = str(next(iter(Graph().parse(data=doc, format="turtle").objects())))
    if got != want:
        bad.append("<%s> -> <%s> (expected <%s>)" % (ref, got, want))
if bad:
    print("FAIL: with @base <%s>: " % base + "; ".join(bad))
    sys.exit(1)
print("PASS")
