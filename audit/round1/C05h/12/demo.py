"""RDF/XML (and JSON-LD): relative IRI references must be resolved against the in-scope base whatever its
scheme (RFC 3986 5.2 is scheme independent).  With xml:base="urn:ex:doc" / "tag:..." / "foo://h/x/" the
references are left relative."""
import sys
from rdflib import Graph, URIRef

T = ('<rdf:RDF xmlns:rdf="http://www.w3.org/1999/02/22-rdf-syntax-ns#" xmlns:ex="http://e/" xml:base="%s">'
     '<rdf:Description rdf:about="%s"><ex:p rdf:resource="%s"/></rdf:Description></rdf:RDF>')
cases = [("urn:ex:doc", "#a", "", "urn:ex:doc#a", "urn:ex:doc"),
         ("foo://h/x/y", "z", "../w", "foo://h/x/z", "foo://h/w")]
bad = []
for base, s_ref, o_ref, s_want, o_want in cases:
    g = Graph().parse(data=T % (base, s_ref, o_ref), format="xml")
    (s, p, o), = list(g)
    if (str(s), str(o)) != (s_want, o_want):
        bad.append("xml:base=%r: about=%r -> <%s>, resource=%r -> <%s>" % (base, s_ref, s, o_ref, o))
    # the Turtle parser resolves the same references
    t = Graph().parse(data="@base <%s> .\n<%s> <http://e/p> <%s> ." % (base, s_ref, o_ref), format="turtle")
    (s2, p2, o2), = list(t)
    assert (str(s2), str(o2)) == (s_want, o_want), (s2, o2)
if bad:
    print("FAIL: relative IRIs not resolved: " + "; ".join(bad))
    sys.exit(1)
print("PASS")
