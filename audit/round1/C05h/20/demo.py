"""RDF/XML and JSON-LD: empty path segments of a relative IRI reference must survive resolution
(RFC 3986: merge + remove_dot_segments never removes empty segments):  base http://b/a/b + "c//d" = http://b/a/c//d."""
import json, sys
from rdflib import Graph, URIRef

base, ref, want = "http://b/a/b", "c//d", "http://b/a/c//d"
xml = ('<rdf:RDF xmlns:rdf="http://www.w3.org/1999/02/22-rdf-syntax-ns#" xmlns:ex="http://e/">'
       '<rdf:Description rdf:about="http://e/s"><ex:p rdf:resource="%s"/></rdf:Description></rdf:RDF>' % ref)
jld = json.dumps({"@id": "http://e/s", "http://e/p": {"@id": ref}})
ttl = "<http://e/s> <http://e/p> <%s> ." % ref
got = {}
for fmt, doc in [("turtle", ttl), ("xml", xml), ("json-ld", jld)]:
    g = Graph().parse(data=doc, format=fmt, publicID=base)
    got[fmt] = str(g.value(URIRef("http://e/s"), URIRef("http://e/p")))
bad = {k: v for k, v in got.items() if v != want}
if bad:
    print("FAIL: <%s> against base <%s> should be <%s>; got %r" % (ref, base, want, bad))
    sys.exit(1)
print("PASS")
