"""rdflib's XML outputs (RDF/XML, pretty-xml, TriX) must be well-formed XML.  A literal that contains a
character outside the XML Char production (e.g. U+0001, U+000B, U+FFFE) is written raw, giving a document
that no XML parser accepts (the library neither escapes nor refuses)."""
import sys
import xml.dom.minidom
from rdflib import Graph, Dataset, URIRef, Literal

bad = []
for fmt, G in [("xml", Graph), ("pretty-xml", Graph), ("trix", Dataset)]:
    for ch in ["\x01", "\x0b", "\ufffe"]:
        g = G()
        g.add((URIRef("http://e/s"), URIRef("http://e/p"), Literal("a" + ch + "b")))
        try:
            out = g.serialize(format=fmt)
        except Exception:
            continue        # refusing to serialize would be acceptable
        try:
            xml.dom.minidom.parseString(out.encode("utf-8"))
        except Exception as e:
            bad.append("%s U+%04X" % (fmt, ord(ch)))
if bad:
    print("FAIL: serializer output is not well-formed XML for: " + ", ".join(bad))
    sys.exit(1)
print("PASS")
