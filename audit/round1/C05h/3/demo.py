"""N-Triples: an IRI may contain U+00A0 / U+3000 etc. (IRIREF only excludes #x00-#x20 and <>"{}|^`\\);
rdflib rejects such IRIs and cannot read back its own N-Triples output."""
import sys
from rdflib import Graph, URIRef

o = URIRef("http://e/a b")          # NO-BREAK SPACE is an RFC 3987 ucschar
g = Graph()
g.add((URIRef("http://e/s"), URIRef("http://e/p"), o))
nt = g.serialize(format="nt")
problems = []
for label, doc in [("rdflib's own NT output", nt),
                   ("U+3000 in IRI", "<http://e/s> <http://e/p> <http://e/a　b> .\n"),
                   ("U+00A0 in datatype IRI", '<http://e/s> <http://e/p> "x"^^<http://e/d t> .\n')]:
    try:
        g2 = Graph().parse(data=doc, format="nt")
        if len(g2) != 1:
            problems.append("%s: %d triples" % (label, len(g2)))
    except Exception as e:
        problems.append("%s: %s" % (label, type(e).__name__))
if problems:
    print("FAIL: N-Triples IRIs containing non-ASCII white space characters are rejected (" + "; ".join(problems) + ")")
    sys.exit(1)
print("PASS")
