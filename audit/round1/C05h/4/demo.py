"""Turtle: a local name may end in an escaped dot (PN_LOCAL_ESC '\\.'), e.g. ex:a\\.  ==  <http://e/a.>"""
import sys
from rdflib import Graph, URIRef

A = URIRef("http://e/a.")
P = URIRef("http://e/p")
msgs = []

doc1 = "@prefix ex: <http://e/> .\nex:s ex:p ex:a\\. .\n"
try:
    got = set(Graph().parse(data=doc1, format="turtle"))
    if got != {(URIRef("http://e/s"), P, A)}:
        msgs.append("object ex:a\\. parsed to %r" % (got,))
except Exception as e:
    msgs.append("object ex:a\\. rejected with %s" % type(e).__name__)

doc2 = "@prefix ex: <http://e/> .\nex:a\\. ex:a\\. <http://e/o> .\n"
try:
    got = set(Graph().parse(data=doc2, format="turtle"))
    if got != {(A, A, URIRef("http://e/o"))}:
        msgs.append("'ex:a\\. ex:a\\. <http://e/o> .' silently parsed to %r" % (got,))
except Exception as e:
    msgs.append("subject ex:a\\. rejected with %s" % type(e).__name__)

if msgs:
    print("FAIL: " + "; ".join(msgs))
    sys.exit(1)
print("PASS")
