"""An RDF/XML document in a non-UTF-8 encoding (declared in the XML declaration) parses from a path,
from a binary file object and from BytesIO, but not when the same bytes are given as data=."""
import io, os, sys, tempfile
from rdflib import Graph, Literal

doc = ('<?xml version="1.0" encoding="iso-8859-1"?>\n'
       '<rdf:RDF xmlns:rdf="http://www.w3.org/1999/02/22-rdf-syntax-ns#" xmlns:ex="http://e/">'
       '<rdf:Description rdf:about="http://e/s"><ex:p>café</ex:p></rdf:Description></rdf:RDF>')
raw = doc.encode("iso-8859-1")
want = [Literal("café")]
fd, path = tempfile.mkstemp(suffix=".rdf")
os.write(fd, raw); os.close(fd)
results = {}
for label, call in [("path", lambda: Graph().parse(path, format="xml")),
                    ("BytesIO", lambda: Graph().parse(io.BytesIO(raw), format="xml")),
                    ("data=bytes", lambda: Graph().parse(data=raw, format="xml"))]:
    try:
        results[label] = list(call().objects())
    except Exception as e:
        results[label] = "%s" % type(e).__name__
os.unlink(path)
bad = {k: v for k, v in results.items() if v != want}
if bad:
    print("FAIL: ISO-8859-1 RDF/XML: %r (other input methods give the literal 'caf\\xe9')" % (bad,))
    sys.exit(1)
print("PASS")
