"""White space between a path element and its modifier (`:p *`, `(:p) +`, `:p ?`)
is legal SPARQL (tokens may always be separated by white space) but is rejected."""
import sys
from rdflib import Graph, URIRef

g = Graph()
a, b, c = (URIRef("http://ex/" + x) for x in "abc")
p = URIRef("http://ex/p")
g.add((a, p, b))
g.add((b, p, c))

cases = [
    ("SELECT ?o WHERE { <http://ex/a> <http://ex/p>* ?o }", {a, b, c}),     # baseline
    ("SELECT ?o WHERE { <http://ex/a> <http://ex/p> * ?o }", {a, b, c}),
    ("SELECT ?o WHERE { <http://ex/a> (<http://ex/p>) + ?o }", {b, c}),
    ("SELECT ?o WHERE { <http://ex/a> <http://ex/p> ? <http://ex/b> . <http://ex/b> <http://ex/p> ?o }", {c}),
    ("SELECT ?o WHERE { <http://ex/a> ( <http://ex/p>\n)\n* ?o }", {a, b, c}),
]
problems = []
for q, expected in cases:
    try:
        got = {r[0] for r in g.query(q)}
    except Exception as e:  # noqa
        problems.append("%r raised %s" % (q, type(e).__name__))
        continue
    if got != expected:
        problems.append("%r -> %r" % (q, got))
if problems:
    print("FAIL: path modifier separated from its element by white space is not evaluated: " + "; ".join(problems))
    sys.exit(1)
print("PASS")
