"""Transitive closure over a long simple chain (e.g. a 3000-member rdf:List walked
with rdf:rest*) dies with RecursionError instead of returning the relation."""
import sys
from rdflib import Graph, URIRef

N = 3000
p = URIRef("http://ex/p")
n = [URIRef("http://ex/n%d" % i) for i in range(N + 1)]
g = Graph()
for i in range(N):
    g.add((n[i], p, n[i + 1]))

problems = []
for label, call, expected in [
    ("g.objects(n0, p+)", lambda: len(set(g.objects(n[0], p * "+"))), N),
    ("g.subjects(p*, nN)", lambda: len(set(g.subjects(p * "*", n[N]))), N + 1),
    ("(n0, p+, nN) in g", lambda: len(list(g.triples((n[0], p * "+", n[N])))), 1),
    ("SPARQL { <n0> p+ ?o }", lambda: len(g.query("SELECT ?o WHERE { <http://ex/n0> <http://ex/p>+ ?o }")), N),
]:
    try:
        got = call()
        if got != expected:
            problems.append("%s -> %r, expected %r" % (label, got, expected))
    except RecursionError:
        problems.append("%s raised RecursionError" % label)

if problems:
    print("FAIL: closure over an acyclic chain of %d edges does not evaluate: %s" % (N, "; ".join(problems)))
    sys.exit(1)
print("PASS")
