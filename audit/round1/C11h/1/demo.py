"""Sequence path of three or more steps, only the END bound, zero-length match on
a term that does not occur in the graph."""
import sys
from rdflib import Graph, Literal, URIRef
from rdflib.paths import MulPath, SequencePath

p, q, r = (URIRef("http://ex/" + x) for x in "pqr")
g = Graph()
g.add((URIRef("http://ex/a"), p, URIRef("http://ex/b")))

absent = Literal("absent")  # not in the graph
two = SequencePath(MulPath(p, "?"), MulPath(q, "?"))
three = SequencePath(MulPath(p, "?"), MulPath(q, "?"), MulPath(r, "?"))

problems = []
# every step can match with length zero, so (absent, absent) is in the relation
fwd3 = list(g.objects(absent, three))     # start bound  -> works
bwd2 = list(g.subjects(two, absent))      # two steps    -> works
bwd3 = list(g.subjects(three, absent))    # three steps, end bound
if fwd3 != [absent] or bwd2 != [absent]:
    problems.append("unexpected baseline: %r %r" % (fwd3, bwd2))
if bwd3 != [absent]:
    problems.append("g.subjects(p?/q?/r?, 'absent') -> %r, expected ['absent']" % (bwd3,))

rows = [tuple(x) for x in g.query(
    "SELECT ?x WHERE { ?x <http://ex/p>?/<http://ex/q>?/<http://ex/r>? 'absent' }")]
if rows != [(absent,)]:
    problems.append("SPARQL { ?x p?/q?/r? 'absent' } -> %r, expected one row" % (rows,))

if problems:
    print("FAIL: zero-length match on an absent term is lost for a 3-step sequence with only the end bound: "
          + "; ".join(problems))
    sys.exit(1)
print("PASS")
