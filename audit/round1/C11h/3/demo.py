"""The empty negated property set `!()` is legal SPARQL 1.1 (grammar rule [95]) and
denotes 'any predicate'; rdflib accepts it in the parser but then crashes."""
import sys
from rdflib import Graph, URIRef

g = Graph()
a, b, c = (URIRef("http://ex/" + x) for x in "abc")
g.add((a, URIRef("http://ex/p"), b))
g.add((b, URIRef("http://ex/q"), c))

expected = {(a, b), (b, c)}
try:
    got = {tuple(r) for r in g.query("SELECT ?s ?o WHERE { ?s !() ?o }")}
except Exception as e:  # noqa
    print("FAIL: { ?s !() ?o } raised %s: %s" % (type(e).__name__, str(e)[:100]))
    sys.exit(1)
if got != expected:
    print("FAIL: { ?s !() ?o } -> %r, expected %r" % (got, expected))
    sys.exit(1)
try:
    got2 = {tuple(r) for r in g.query("SELECT ?o WHERE { <http://ex/a> (!())+ ?o }")}
except Exception as e:  # noqa
    print("FAIL: { <a> (!())+ ?o } raised %s: %s" % (type(e).__name__, str(e)[:100]))
    sys.exit(1)
if got2 != {(b,), (c,)}:
    print("FAIL: { <a> (!())+ ?o } -> %r" % (got2,))
    sys.exit(1)
print("PASS")
