# ---------------------------------------------------------------------------
# A minimal in-process SPARQL 1.1 protocol endpoint (query + update) used as the
# "endpoint" of the property.  Its dataset lives in a plain in-memory rdflib
# ConjunctiveGraph whose default graph has a neutral name, so nothing in it is
# special-cased for rdflib's internal <urn:x-rdflib:default> identifier.
# Result documents (SPARQL XML results) are written by hand.
# ---------------------------------------------------------------------------
import os, sys, threading, warnings
from http.server import BaseHTTPRequestHandler, HTTPServer
from urllib.parse import urlparse, parse_qs
from xml.sax.saxutils import escape, quoteattr
from rdflib import ConjunctiveGraph, Graph, URIRef, BNode, Literal

warnings.simplefilter("ignore")
os.environ["no_proxy"] = "*"


def _term(t):
    if isinstance(t, URIRef):
        return "<uri>%s</uri>" % escape(str(t))
    if isinstance(t, BNode):
        return "<bnode>%s</bnode>" % escape(str(t))
    a = ""
    if t.language:
        a = " xml:lang=%s" % quoteattr(t.language)
    elif t.datatype is not None:
        a = " datatype=%s" % quoteattr(str(t.datatype))
    return "<literal%s>%s</literal>" % (a, escape(str(t)).replace("\r", "&#13;"))


def _xml(res):
    out = ['<?xml version="1.0" encoding="utf-8"?><sparql xmlns="http://www.w3.org/2005/sparql-results#">']
    if res.type == "ASK":
        out.append("<head/><boolean>%s</boolean>" % ("true" if res.askAnswer else "false"))
    else:
        out.append("<head>%s</head><results>" % "".join("<variable name=%s/>" % quoteattr(str(v)) for v in res.vars))
        for b in res.bindings:
            out.append("<result>%s</result>" % "".join(
                "<binding name=%s>%s</binding>" % (quoteattr(str(k)), _term(v)) for k, v in b.items() if v is not None))
        out.append("</results>")
    return ("".join(out) + "</sparql>").encode("utf-8")


class Endpoint:
    DEFAULT = URIRef("urn:endpoint:the-default-graph")

    def __init__(self):
        self.ds = ConjunctiveGraph(identifier=self.DEFAULT)
        self.ds.default_union = False
        self.updates = []  # text of every update request received
        self.queries = []  # (text, default-graph-uri list) of every query received
        ep = self

        class H(BaseHTTPRequestHandler):
            def log_message(self, *a):
                pass

            def _reply(self, code, body=b"", ctype="text/plain"):
                self.send_response(code)
                self.send_header("Content-Type", ctype)
                self.send_header("Content-Length", str(len(body)))
                self.end_headers()
                self.wfile.write(body)

            def _query(self, q, params):
                dg = params.get("default-graph-uri")
                ep.queries.append((q, dg))
                try:
                    tgt = Graph(store=ep.ds.store, identifier=URIRef(dg[0])) if dg else ep.ds
                    body = _xml(tgt.query(q))
                except Exception as e:
                    return self._reply(400, repr(e).encode())
                self._reply(200, body, "application/sparql-results+xml; charset=utf-8")

            def do_GET(self):
                params = parse_qs(urlparse(self.path).query, keep_blank_values=True)
                self._query(params["query"][0], params)

            def do_POST(self):
                params = parse_qs(urlparse(self.path).query, keep_blank_values=True)
                data = self.rfile.read(int(self.headers.get("Content-Length", 0))).decode("utf-8")
                ctype = self.headers.get("Content-Type", "").split(";")[0].strip()
                if ctype == "application/sparql-update":
                    ep.updates.append(data)
                    try:
                        ep.ds.update(data)
                    except Exception as e:
                        return self._reply(400, repr(e).encode())
                    return self._reply(204)
                if ctype == "application/sparql-query":
                    return self._query(data, params)
                params.update(parse_qs(data, keep_blank_values=True))
                self._query(params["query"][0], params)

        self.httpd = HTTPServer(("127.0.0.1", 0), H)
        self.url = "http://127.0.0.1:%d/sparql" % self.httpd.server_address[1]
        threading.Thread(target=self.httpd.serve_forever, daemon=True).start()

    def graph(self, name=None):
        """The endpoint's own view of one of its graphs (None = default graph)."""
        return self.ds.get_context(self.DEFAULT if name is None else name)

    def quads(self):
        """Everything the endpoint holds, as (s, p, o, graph-name-or-None)."""
        return {
            (s, p, o, None if c.identifier == self.DEFAULT else c.identifier)
            for c in self.ds.contexts() for s, p, o in c
        }


def finish(ok, msg):
    print(("PASS: " if ok else "FAIL: ") + msg)
    sys.exit(0 if ok else 1)
# ---------------------------------------------------------------------------

from rdflib.plugins.stores.sparqlstore import SPARQLUpdateStore

ep = Endpoint()
G1 = URIRef("urn:g1")
A, P, R = URIRef("urn:a"), URIRef("urn:p"), URIRef("urn:r")
UPDATE = "INSERT { ?s <urn:r> ?z } WHERE { ?s <urn:p> ?o }"
# a Windows path, a regex and a TeX snippet: ordinary strings that contain a backslash
values = [Literal("a\\nb"), Literal("C:\\temp"), Literal("\\d+")]

problems = []
for v in values:
    ep.graph(G1).remove((None, None, None))
    ep.graph(G1).add((A, P, Literal("x")))
    local = Graph()
    local.add((A, P, Literal("x")))
    local.update(UPDATE, initBindings={"z": v})

    remote = Graph(SPARQLUpdateStore(ep.url, ep.url), identifier=G1)
    try:
        remote.update(UPDATE, initBindings={"z": v})
        err = None
    except Exception as e:  # endpoint rejected the mangled request
        err = repr(e)
        remote.store.rollback()
    got = set(ep.graph(G1).objects(A, R))
    want = set(local.objects(A, R))
    if got != want:
        problems.append("initBindings z=%r stored %r%s" % (str(v), [str(x) for x in got], " (%s)" % err if err else ""))
finish(not problems, "; ".join(problems) or "update() initBindings literals with backslashes reach the endpoint unchanged")
