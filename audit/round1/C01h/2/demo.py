"""Two graphs over one default (Memory) store.  While g1.triples() is open, a
triple that only ever lived in g2 is removed from g2; the open g1 iterator then
yields that triple although it was never in g1."""
import sys
from rdflib import Graph, URIRef, Literal
from rdflib.plugins.stores.memory import Memory

store = Memory()
g1 = Graph(store=store, identifier=URIRef("http://g/1"))
g2 = Graph(store=store, identifier=URIRef("http://g/2"))
s, p = URIRef("http://e/s"), URIRef("http://e/p")
t1 = (s, p, Literal(1))
t2 = (s, p, Literal(2))
g1.add(t1)          # g1 = {t1}
g2.add(t2)          # g2 = {t2}; t2 is never added to g1
assert set(g1) == {t1} and set(g2) == {t2}

it = g1.triples((s, p, None))
got = [next(it)]            # t1
g2.remove(t2)               # mutation in the same store, other graph
try:
    got += list(it)
except Exception as e:      # must never raise either
    print("FAIL: iteration raised %r" % (e,))
    sys.exit(1)

if t2 in got:
    print("FAIL: g1.triples((s,p,None)) yielded %r, which was never in g1 (only in g2)" % (t2,))
    sys.exit(1)
if got != [t1]:
    print("FAIL: unexpected iteration result %r" % (got,))
    sys.exit(1)
print("PASS")
