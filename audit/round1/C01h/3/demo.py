"""Graph.addN silently drops quads whose context graph is *equal* to the
receiving graph (same store, same identifier) but whose identifier is not the
very same Python object: the filter uses `is` instead of `==`."""
import sys
from rdflib import Graph, URIRef, Literal
from rdflib.plugins.stores.memory import Memory, SimpleMemory

s, p = URIRef("http://e/s"), URIRef("http://e/p")
failed = False
for cls in (Memory, SimpleMemory):
    store = cls()
    g = Graph(store=store, identifier=URIRef("http://g/" + "1"))
    same = Graph(store=store, identifier=URIRef("http://g/" + "1"))  # the same graph: same store, equal name
    assert same == g and same.identifier == g.identifier and same.store is g.store
    quads = [(s, p, Literal(0), same), (s, p, Literal(""), same)]
    g.addN(quads)
    expected = {(s, p, Literal(0)), (s, p, Literal(""))}
    if set(g) != expected or len(g) != 2:
        print("FAIL: %s: g.addN(quads naming graph <http://g/1>) on graph <http://g/1> added %d of 2 triples"
              % (cls.__name__, len(g)))
        failed = True
if failed:
    sys.exit(1)
print("PASS")
