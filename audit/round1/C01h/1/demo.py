"""`g -= g` (history: add, add, -= self) must leave the empty set on both
in-memory stores.  On the simple store it raises RuntimeError half way."""
import sys
from rdflib import Graph, URIRef, Literal
from rdflib.plugins.stores.memory import Memory, SimpleMemory

s, p = URIRef("http://e/s"), URIRef("http://e/p")
failed = False
for cls in (Memory, SimpleMemory):
    g = Graph(store=cls())
    g.add((s, p, Literal(0)))
    g.add((s, p, Literal("")))
    try:
        g -= g
    except Exception as e:
        print("FAIL: `g -= g` on %s raised %s: %s (graph left with %d triple(s))"
              % (cls.__name__, type(e).__name__, e, len(g)))
        failed = True
        continue
    if len(g) != 0 or list(g):
        print("FAIL: `g -= g` on %s left %d triples" % (cls.__name__, len(g)))
        failed = True
if failed:
    sys.exit(1)
print("PASS")
