"""Effective boolean value: NaN must be false (and an ill-typed numeric literal is false, not an error)."""
import sys
import logging
from rdflib import Graph

logging.disable(logging.CRITICAL)  # the ill-typed literal logs a warning when parsed

g = Graph()
g.parse(data='''@prefix : <http://e/> . @prefix xsd: <http://www.w3.org/2001/XMLSchema#> .
:nan :v "NaN"^^xsd:double . :one :v 1.0e0 . :zero :v 0.0e0 . :bad :v "abc"^^xsd:integer .''', format="turtle")
P = "PREFIX : <http://e/> "

def subj(q):
    return sorted(str(r["s"]).rsplit("/", 1)[1] for r in g.query(P + q).bindings)

problems = []
# SPARQL 17.2.2: numeric -> EBV false if the value is NaN or zero; invalid lexical form -> EBV false
t = subj("SELECT ?s { ?s :v ?o FILTER(?o) }")
if t != ["one"]:
    problems.append("FILTER(?o) keeps %r, expected ['one']" % t)
f = subj("SELECT ?s { ?s :v ?o FILTER(!?o) }")
if "nan" not in f:
    problems.append("FILTER(!?o) keeps %r, expected it to contain 'nan' (and 'zero', 'bad')" % f)
t = subj("SELECT ?s { ?s :v ?o FILTER(?o && true) }")
if "nan" in t:
    problems.append("FILTER(?o && true) keeps 'nan'")

if problems:
    print("FAIL: EBV of NaN is true: " + "; ".join(problems))
    sys.exit(1)
print("PASS")
