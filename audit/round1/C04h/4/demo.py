"""OPTIONAL { { SELECT ... } FILTER(...) }: the LeftJoin filter cannot see the left-hand side's variables
when the optional part is a sub-SELECT."""
import sys
from rdflib import Graph

g = Graph()
g.parse(data="@prefix : <http://e/> . :a :p 1 . :a :q 5 .", format="turtle")
P = "PREFIX : <http://e/> "

plain = list(g.query(P + "SELECT * { ?s :p ?v OPTIONAL { ?s :q ?x FILTER(?x > ?v) } }").bindings)
sub = list(g.query(P + "SELECT * { ?s :p ?v OPTIONAL { { SELECT ?s ?x { ?s :q ?x } } FILTER(?x > ?v) } }").bindings)

# LeftJoin(BGP(?s :p ?v), ToMultiSet(Project(...)), ?x > ?v): the filter is evaluated on the
# merged solution {s=:a, v=1, x=5}, 5 > 1 holds, so ?x = 5 in both formulations.
def xs(rows):
    return sorted(str(r.get("x")) for r in rows)

if xs(plain) != ["5"] or xs(sub) != ["5"]:
    print("FAIL: ?x values with a plain pattern %r, with the equivalent sub-SELECT %r (expected ['5'] for both)"
          % (xs(plain), xs(sub)))
    sys.exit(1)
print("PASS")
