"""&& does not implement the SPARQL three-valued truth table: (error && false) must be false, rdflib makes it an error."""
import sys
from rdflib import Graph

g = Graph()
g.parse(data="@prefix : <http://e/> . :a :p 1 .", format="turtle")
P = "PREFIX : <http://e/> "

problems = []
# ?s is an IRI: (?s < 1) is a type error.  error && false = false, so !(...) is true and the row is kept.
for q in [
    "SELECT * { ?s :p ?o FILTER(!((?s < 1) && false)) }",
    "SELECT * { ?s :p ?o FILTER(!((?s < 1) && (?o = 2))) }",
    "SELECT * { ?s :p ?o FILTER(((?s < 1) && (?o = 2)) || true) }",
]:
    n = len(list(g.query(P + q).bindings))
    if n != 1:
        problems.append("%s -> %d rows, expected 1" % (q, n))
# the value itself: BIND(error && false) must bind false
rows = list(g.query(P + "SELECT * { ?s :p ?o BIND(((?s < 1) && (?o = 2)) AS ?b) }").bindings)
if [str(r.get("b")) for r in rows] != ["false"]:
    problems.append("BIND((?s < 1) && (?o = 2) AS ?b) -> ?b = %r, expected false" % [r.get("b") for r in rows])
# sanity: the mirrored operand order already works
n = len(list(g.query(P + "SELECT * { ?s :p ?o FILTER(!((?o = 2) && (?s < 1))) }").bindings))
if n != 1:
    problems.append("false && error also wrong")

if problems:
    print("FAIL: (error && false) is not false: " + "; ".join(problems))
    sys.exit(1)
print("PASS")
