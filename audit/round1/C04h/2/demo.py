"""VALUES with an empty data block (legal: `VALUES ?x { }`) crashes instead of giving no solutions."""
import sys
from rdflib import Graph

g = Graph()
g.parse(data="@prefix : <http://e/> . :a :p 1 .", format="turtle")

problems = []
for q, expected in [
    ("SELECT * { VALUES ?x { } }", 0),                      # empty multiset
    ("SELECT * { ?s ?p ?o VALUES (?x ?y) { } }", 0),        # join with the empty multiset
    ("SELECT * { ?s ?p ?o OPTIONAL { VALUES ?x { } } }", 1),  # left side survives
    ("SELECT * { ?s ?p ?o MINUS { VALUES ?s { } } }", 1),   # nothing to subtract
    ("SELECT * { ?s ?p ?o } VALUES ?s { }", 0),             # trailing VALUES clause
]:
    try:
        n = len(list(g.query(q).bindings))
    except Exception as e:  # noqa
        problems.append("%s raised %s: %s" % (q, type(e).__name__, e))
        continue
    if n != expected:
        problems.append("%s -> %d rows, expected %d" % (q, n, expected))

if problems:
    print("FAIL: empty VALUES block not evaluated as the empty multiset: " + "; ".join(problems))
    sys.exit(1)
print("PASS")
