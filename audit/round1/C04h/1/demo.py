"""FILTER with a constant falsy expression (false, 0, "") is silently dropped."""
import sys
from rdflib import Graph

g = Graph()
g.parse(data="@prefix : <http://e/> . :a :p 1 . :b :p 2 .", format="turtle")

problems = []
for q, expected in [
    ("SELECT * { ?s ?p ?o FILTER(false) }", 0),
    ("SELECT * { ?s ?p ?o FILTER(0) }", 0),
    ('SELECT * { ?s ?p ?o FILTER("") }', 0),
    # a disabled UNION branch
    ("SELECT * { { ?s ?p 1 } UNION { ?s ?p 2 FILTER(false) } }", 1),
    # OPTIONAL whose filter is constantly false never extends the left side
    ("SELECT * { ?s ?p 1 OPTIONAL { ?s ?p ?z FILTER(false) } }", None),
]:
    rows = list(g.query(q).bindings)
    if expected is None:
        if any("z" in {str(k) for k in r} for r in rows):
            problems.append("%s -> ?z was bound: %r" % (q, rows))
    elif len(rows) != expected:
        problems.append("%s -> %d rows, expected %d" % (q, len(rows), expected))
if g.query("ASK { FILTER(false) }").askAnswer is not False:
    problems.append("ASK { FILTER(false) } -> True")

if problems:
    print("FAIL: constant-false FILTER is ignored: " + "; ".join(problems))
    sys.exit(1)
print("PASS")
