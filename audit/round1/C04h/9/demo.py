"""GRAPH with a name that is not a graph of the dataset is evaluated as if an empty graph of that name existed."""
import sys
from rdflib import Dataset, URIRef, Literal

E = "http://e/"
d = Dataset()
d.add((URIRef(E + "a"), URIRef(E + "p"), Literal(1)))              # default graph
d.add((URIRef(E + "a"), URIRef(E + "in"), URIRef(E + "nosuch")))   # default graph
d.graph(URIRef(E + "g1")).add((URIRef(E + "a"), URIRef(E + "q"), Literal(2)))
P = "PREFIX : <http://e/> "

problems = []
# SPARQL 1.1 18.5: eval(D(G), Graph(IRI, P)) is the empty multiset if IRI is not a graph name in D
if d.query(P + "ASK { GRAPH :nosuch { } }").askAnswer is not False:
    problems.append("ASK { GRAPH :nosuch { } } is true")
r = list(d.query(P + "SELECT * { GRAPH :nosuch { OPTIONAL { ?s ?p ?o } } }").bindings)
if len(r) != 0:
    problems.append("GRAPH :nosuch { OPTIONAL {...} } -> %r" % r)
# Graph(?g, P) ranges over the graph names only: {g=:g1}; joining with g=:nosuch / g=1 gives nothing
names = sorted(str(b["g"]) for b in d.query(P + "SELECT ?g { GRAPH ?g { } }").bindings)
if names != [E + "g1"]:
    problems.append("GRAPH ?g { } alone -> %r" % names)
r = list(d.query(P + "SELECT * { ?s :in ?g . GRAPH ?g { } }").bindings)
if len(r) != 0:
    problems.append("?s :in ?g . GRAPH ?g { } -> %r (no graph :nosuch)" % r)
r = list(d.query(P + "SELECT * { ?s :p ?g . GRAPH ?g { } }").bindings)
if len(r) != 0:
    problems.append("?s :p ?g . GRAPH ?g { } -> %r (a literal names no graph)" % r)
# sanity: commuted join is correct
r = list(d.query(P + "SELECT * { GRAPH ?g { } ?s :in ?g . }").bindings)
if len(r) != 0:
    problems.append("commuted: %r" % r)

if problems:
    print("FAIL: GRAPH over a non-existent graph name yields solutions: " + "; ".join(problems))
    sys.exit(1)
print("PASS")
