"""Variables bound by VALUES are missing from the algebra's `_vars`, so inside a nested group a FILTER / BIND
after VALUES cannot see them (when the sibling pattern binds the same variable) and an OPTIONAL after VALUES
drops left rows."""
import sys
from rdflib import Graph

g = Graph()
g.parse(data="@prefix : <http://e/> . :a :p 1 . :b :q 2 .", format="turtle")
P = "PREFIX : <http://e/> "

def rows(q):
    return [dict((str(k), v.toPython() if hasattr(v, "toPython") else v) for k, v in r.items())
            for r in g.query(P + q).bindings]

problems = []
# inner group = {x=1} (filter true); joined with {s=:a, x=1} -> one row
r = rows("SELECT * { ?s :p ?x . { VALUES ?x { 1 } FILTER(?x = 1) } }")
if len(r) != 1:
    problems.append("VALUES+FILTER in nested group -> %r, expected 1 row" % r)
# inner group = {x=1, y=2}
r = rows("SELECT * { ?s :p ?x . { VALUES ?x { 1 } BIND(?x + 1 AS ?y) } }")
if len(r) != 1 or r[0].get("y") != 2:
    problems.append("VALUES+BIND in nested group -> %r, expected ?y = 2" % r)
# LeftJoin keeps every left row; :a has no :q triple, :b has one
r = rows("SELECT * { VALUES ?s { :a :b } OPTIONAL { ?s :q ?o } }")
if len(r) != 2:
    problems.append("VALUES ?s {:a :b} OPTIONAL { ?s :q ?o } -> %r, expected 2 rows" % r)

if problems:
    print("FAIL: VALUES variables not tracked: " + "; ".join(problems))
    sys.exit(1)
print("PASS")
