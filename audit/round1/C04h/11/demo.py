"""IN / NOT IN compare with RDF term identity instead of the SPARQL '=' operator and do not follow
the (x = e1) || (x = e2) || ... error rules."""
import sys
from rdflib import Graph

g = Graph()
g.parse(data="@prefix : <http://e/> . :a :p 1 . :b :p 1.0 . :c :p 2 .", format="turtle")
P = "PREFIX : <http://e/> "

def subj(q):
    return sorted(str(r["s"])[-1] for r in g.query(P + q).bindings)

problems = []
# SPARQL 17.4.1.9:  x IN (e1, ...)  is  (x = e1) || ...     1 = 1.0 is true
eq = subj("SELECT ?s { ?s :p ?o FILTER(?o = 1.0) }")
inn = subj("SELECT ?s { ?s :p ?o FILTER(?o IN (1.0)) }")
if eq != ["a", "b"] or inn != eq:
    problems.append("?o = 1.0 -> %r but ?o IN (1.0) -> %r" % (eq, inn))
nin = subj("SELECT ?s { ?s :p ?o FILTER(?o NOT IN (1.0)) }")
if nin != ["c"]:
    problems.append("?o NOT IN (1.0) -> %r, expected ['c']" % nin)
inn = subj('SELECT ?s { ?s :p ?o FILTER(?o IN ("01"^^<http://www.w3.org/2001/XMLSchema#integer>)) }')
if inn != ["a", "b"]:
    problems.append('?o IN ("01"^^xsd:integer) -> %r, expected a and b' % inn)
# an error in one list member does not hide a match in another: (?o = ?unbound) || (?o = 2) is true for :c
inn = subj("SELECT ?s { ?s :p ?o FILTER(?o IN (?unbound, 2)) }")
if inn != ["c"]:
    problems.append("?o IN (?unbound, 2) -> %r, expected ['c']" % inn)

if problems:
    print("FAIL: IN is not defined through '=': " + "; ".join(problems))
    sys.exit(1)
print("PASS")
