"""BIND (or `SELECT (expr AS ?v)`) in a nested group does not join on the bound variable:
a conflicting value coming from the sibling pattern is silently kept instead of eliminating the row."""
import sys
from rdflib import Graph

g = Graph()
g.parse(data="@prefix : <http://e/> . :a :p 1 . :a :q 7 .", format="turtle")
P = "PREFIX : <http://e/> "

problems = []

def rows(q):
    return list(g.query(P + q).bindings)

# Join({x=1}, {x=2}) is empty
for q in [
    "SELECT * { ?s :p ?x . { BIND(2 AS ?x) } }",
    "SELECT * { { BIND(2 AS ?x) } { BIND(3 AS ?x) } }",
    "SELECT * { VALUES ?x { 1 } { BIND(2 AS ?x) } }",
    "SELECT * { ?s :p ?x . { SELECT (2 AS ?x) { } } }",
]:
    r = rows(q)
    if len(r) != 0:
        problems.append("%s -> %r, expected no solution" % (q, r))
# sanity: the commuted join is (correctly) empty
if len(rows("SELECT * { { BIND(2 AS ?x) } ?s :p ?x . }")) != 0:
    problems.append("commuted join not empty either")
# LeftJoin: the optional part {y=7, x=2} is incompatible with {s=:a, x=1}, so ?y stays unbound
r = rows("SELECT * { ?s :p ?x OPTIONAL { ?s :q ?y BIND(2 AS ?x) } }")
if len(r) != 1 or r[0].get("y") is not None:
    problems.append("OPTIONAL { ?s :q ?y BIND(2 AS ?x) } -> %r, expected ?y unbound" % r)

if problems:
    print("FAIL: BIND ignores an incompatible existing binding: " + "; ".join(problems))
    sys.exit(1)
print("PASS")
