"""OPTIONAL { ... FILTER(...) } inside a nested group: the filter loses a variable bound by the
OPTIONAL's own left-hand side when that variable is also bound outside the group; the row vanishes."""
import sys
from rdflib import Graph

g = Graph()
g.parse(data="@prefix : <http://e/> . :a :p 1 .", format="turtle")
P = "PREFIX : <http://e/> "

inner = "{ ?s2 :p ?x OPTIONAL { ?s2 :p ?z FILTER(?x = ?z) } }"
alone = list(g.query(P + "SELECT * { %s }" % inner).bindings)
joined = list(g.query(P + "SELECT * { ?s :p ?x . %s }" % inner).bindings)

# bottom-up: the inner group evaluates to {s2=:a, x=1, z=1}; joining it with {s=:a, x=1}
# gives exactly one solution with ?z = 1
ok_alone = len(alone) == 1 and str(alone[0].get("z")) == "1"
ok_joined = len(joined) == 1 and str(joined[0].get("z")) == "1"
if not (ok_alone and ok_joined):
    print("FAIL: group alone gives %d row(s) %r but joined with '?s :p ?x' gives %d row(s) %r (expected 1 row with ?z=1)"
          % (len(alone), alone, len(joined), joined))
    sys.exit(1)
print("PASS")
