"""CONSTRUCT emits triples with a literal in subject or predicate position instead of skipping them."""
import sys
from rdflib import Graph, Literal

g = Graph()
g.parse(data="@prefix : <http://e/> . :a :p 1 . :a :p :b .", format="turtle")
P = "PREFIX : <http://e/> "

problems = []
# SPARQL 1.1 16.2: an instantiation that is an illegal RDF construct (literal as subject or predicate)
# is not included in the output graph
out = g.query(P + "CONSTRUCT { ?o :rev ?s } WHERE { ?s :p ?o }").graph
bad = [t for t in out if isinstance(t[0], Literal)]
if bad or len(out) != 1:
    problems.append("literal subject: %r" % sorted(out))
out = g.query(P + "CONSTRUCT { ?s ?o ?s } WHERE { ?s :p ?o }").graph
bad = [t for t in out if isinstance(t[1], Literal)]
if bad or len(out) != 1:
    problems.append("literal predicate: %r" % sorted(out))
# the result does not even survive a serialisation round trip
try:
    out = g.query(P + "CONSTRUCT { ?o :rev ?s } WHERE { ?s :p ?o }").graph
    back = Graph().parse(data=out.serialize(format="nt"), format="nt")
    if len(back) != len(out):
        problems.append("n-triples round trip %d -> %d triples" % (len(out), len(back)))
except Exception as e:  # noqa
    problems.append("n-triples round trip raised %s" % type(e).__name__)

if problems:
    print("FAIL: CONSTRUCT keeps illegal triples: " + "; ".join(problems))
    sys.exit(1)
print("PASS")
