"""A bare unbound variable as operand of || (or &&) makes the whole expression an error,
even when the other operand alone decides the result (error || true = true, error && false = false)."""
import sys
from rdflib import Graph

g = Graph()
g.parse(data="@prefix : <http://e/> . :a :p 1 .", format="turtle")
P = "PREFIX : <http://e/> "

problems = []
for q in [
    "SELECT * { ?s :p ?o FILTER(?u || true) }",          # error || true  = true
    "SELECT * { ?s :p ?o FILTER(true || ?u) }",          # true  || error = true
    "SELECT * { ?s :p ?o FILTER((?o = 1) || ?u) }",
    "SELECT * { ?s :p ?o OPTIONAL { ?s :q ?u } FILTER(?u || ?o = 1) }",   # ?u left unbound by OPTIONAL
    "SELECT * { ?s :p ?o FILTER(!(false && ?u)) }",      # false && error = false
]:
    n = len(list(g.query(P + q).bindings))
    if n != 1:
        problems.append("%s -> %d rows, expected 1" % (q, n))
# sanity: the same with an error produced by a sub-expression instead of a bare variable works
n = len(list(g.query(P + "SELECT * { ?s :p ?o FILTER((?u = 1) || true) }").bindings))
if n != 1:
    problems.append("(?u = 1) || true also wrong")

if problems:
    print("FAIL: unbound variable operand poisons ||/&&: " + "; ".join(problems))
    sys.exit(1)
print("PASS")
