import logging, sys, warnings
logging.disable(logging.CRITICAL)
warnings.simplefilter("ignore")
from rdflib import Literal, XSD, RDF, Graph
def fail(msg):
    print("FAIL", msg); sys.exit(1)

try:
    l = Literal("-P1Y1D", datatype=XSD.duration)
except Exception as e:
    fail("Literal('-P1Y1D', datatype=XSD.duration) raises %s: %s (valid xsd:duration; parsing a Turtle file containing it aborts too)" % (type(e).__name__, e))
if l.ill_typed or l.value is None:
    fail("valid xsd:duration '-P1Y1D' flagged ill-typed")
if l.normalize() != l:
    fail("normalize() of normalised literal changed it")
print("PASS")
