import logging, sys, warnings
logging.disable(logging.CRITICAL)
warnings.simplefilter("ignore")
from rdflib import Literal, XSD, RDF, Graph
def fail(msg):
    print("FAIL", msg); sys.exit(1)

a = Literal("2020-01-01+05:00", datatype=XSD.date)
b = Literal("2020-01-01-05:00", datatype=XSD.date)
c = Literal("2020-01-01", datatype=XSD.date)
# three different XSD values (time-zoned dates ten hours apart, and a date without time zone);
# normalisation may only replace a form by another form of the same value
if a == b or a == c or str(a) == "2020-01-01":
    fail("xsd:date normalisation drops the time zone: %r, %r and %r all became %r" % ("2020-01-01+05:00", "2020-01-01-05:00", "2020-01-01", str(a)))
print("PASS")
