import logging, sys, warnings
logging.disable(logging.CRITICAL)
warnings.simplefilter("ignore")
from rdflib import Literal, XSD, RDF, Graph
def fail(msg):
    print("FAIL", msg); sys.exit(1)

import datetime
t = Literal("24:00:00", datatype=XSD.time)
d = Literal("2020-12-31T24:00:00", datatype=XSD.dateTime)
if t.ill_typed or d.ill_typed:
    fail("valid XSD end-of-day forms flagged ill-typed: '24:00:00'^^xsd:time ill_typed=%r value=%r, '2020-12-31T24:00:00'^^xsd:dateTime ill_typed=%r value=%r" % (t.ill_typed, t.value, d.ill_typed, d.value))
if t.value != datetime.time(0, 0) or d.value != datetime.datetime(2021, 1, 1):
    fail("wrong value %r %r" % (t.value, d.value))
print("PASS")
