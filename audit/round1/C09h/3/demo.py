import logging, sys, warnings
logging.disable(logging.CRITICAL)
warnings.simplefilter("ignore")
from rdflib import Literal, XSD, RDF, Graph
def fail(msg):
    print("FAIL", msg); sys.exit(1)

a = Literal("a\tb", datatype=XSD.normalizedString)
b = Literal("a b", datatype=XSD.normalizedString)
c = Literal("  a   b ", datatype=XSD.token)
d = Literal("a b", datatype=XSD.token)
for x, y in ((a, b), (c, d)):
    if x == y and x.eq(y) is not True:
        fail("%r == %r (same term) but .eq() is %r: .value is %r, not the normalised %r" % (x, y, x.eq(y), x.value, str(x)))
    if x.value != str(x):
        fail("value %r differs from lexical form %r" % (x.value, str(x)))
print("PASS")
