import logging, sys, warnings
logging.disable(logging.CRITICAL)
warnings.simplefilter("ignore")
from rdflib import Literal, XSD, RDF, Graph
def fail(msg):
    print("FAIL", msg); sys.exit(1)

from decimal import Decimal
cases = [(Literal(True), True, True), (Literal(False), True, False), (Literal(False), False, True),
         (Literal(Decimal("1.5")), Decimal("1.5"), True), (Literal(Decimal("1.5")), Decimal("2.5"), False)]
for lit, py, expected in cases:
    r = lit.eq(py)
    if r is not expected:
        fail("%r.eq(%r) returns %r, expected %r (value %r == %r is %r)" % (lit, py, r, expected, lit.value, py, lit.value == py))
print("PASS")
