import logging, sys, warnings
logging.disable(logging.CRITICAL)
warnings.simplefilter("ignore")
from datetime import timedelta
from rdflib import Literal, XSD
def fail(msg):
    print("FAIL", msg); sys.exit(1)
src = "PT72695909812.408878S"
expected = timedelta(seconds=72695909812, microseconds=408878)   # exactly representable
l = Literal(src, datatype=XSD.dayTimeDuration)
if l.value != expected:
    fail("%r^^xsd:dayTimeDuration gets value %r and is normalised to %r; the XSD value is %r (%s)" % (src, l.value, str(l), expected, Literal(expected)))
if not l.eq(Literal(expected)):
    fail("not eq to the literal made from the exact timedelta")
print("PASS")
