import logging, sys, warnings
logging.disable(logging.CRITICAL)
warnings.simplefilter("ignore")
from rdflib import Literal, XSD, RDF, Graph
def fail(msg):
    print("FAIL", msg); sys.exit(1)

import re
l = Literal("P0Y", datatype=XSD.yearMonthDuration)
# lexical space of xsd:yearMonthDuration: duration forms matching [^DT]*
if not re.fullmatch(r"-?P(\d+Y)?(\d+M)?", str(l)) or str(l) in ("P", "-P"):
    fail("'P0Y'^^xsd:yearMonthDuration is normalised to %r, which is not in the lexical space of xsd:yearMonthDuration" % str(l))
print("PASS")
