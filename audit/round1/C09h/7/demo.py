import logging, sys, warnings
logging.disable(logging.CRITICAL)
warnings.simplefilter("ignore")
from rdflib import Literal, XSD, RDF, Graph
def fail(msg):
    print("FAIL", msg); sys.exit(1)

for src in ("yes", " true ", "TRUE", "2"):
    l = Literal(src, datatype=XSD.boolean)
    if str(l) != src and l.ill_typed:
        fail("ill-typed %r^^xsd:boolean is rewritten to the valid form %r (an invented value); written out and read back it is a well-typed %r" % (src, str(l), str(l)))
    if not l.ill_typed and str(l) not in ("true", "false"):
        fail("unexpected %r" % l)
print("PASS")
