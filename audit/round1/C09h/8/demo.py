import logging, sys, warnings
logging.disable(logging.CRITICAL)
warnings.simplefilter("ignore")
from rdflib import Literal, XSD, RDF, Graph
def fail(msg):
    print("FAIL", msg); sys.exit(1)

n = 10 ** 5000
try:
    l = Literal(n)
except Exception as e:
    fail("Literal(10**5000) raises %s: %s" % (type(e).__name__, str(e)[:60]))
if l.datatype != XSD.integer or l.value != n:
    fail("wrong literal")
back = Literal(str(l), datatype=XSD.integer)
if back.ill_typed or back.value != n:
    fail("valid xsd:integer with 5001 digits flagged ill-typed / no value")
print("PASS")
