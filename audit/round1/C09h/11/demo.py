import logging, sys, warnings
logging.disable(logging.CRITICAL)
warnings.simplefilter("ignore")
from rdflib import Literal, XSD, RDF, Graph
def fail(msg):
    print("FAIL", msg); sys.exit(1)

from datetime import timedelta
a = Literal(timedelta(days=1))                      # "P1D"^^xsd:dayTimeDuration
b = Literal("P1D", datatype=XSD.duration)           # same point of the duration value space
if a.value != b.value:
    fail("values differ?")
if a.eq(b) is not True:
    fail("%r .eq. %r is %r although both map to %r (dayTimeDuration is derived from duration; integer subtypes do compare equal)" % (a.n3(), b.n3(), a.eq(b), a.value))
print("PASS")
