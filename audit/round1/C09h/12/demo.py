import logging, sys, warnings
logging.disable(logging.CRITICAL)
warnings.simplefilter("ignore")
from rdflib import Literal, XSD, RDF, Graph
def fail(msg):
    print("FAIL", msg); sys.exit(1)

import struct
def f32(x):  # the xsd:float (IEEE single) value of a number
    return struct.unpack("f", struct.pack("f", x))[0]
a = Literal("16777217", datatype=XSD.float)
b = Literal("16777216", datatype=XSD.float)
# XSD: the lexical mapping of xsd:float rounds to the nearest 32-bit float, so both forms denote 16777216
if a.value != f32(16777217) or not a.eq(b):
    fail("'16777217'^^xsd:float has value %r (XSD value: %r) and is not eq '16777216'^^xsd:float; it is normalised to %r" % (a.value, f32(16777217), str(a)))
c = Literal("0.1", datatype=XSD.float)
if c.eq(Literal("0.1", datatype=XSD.double)):
    fail("'0.1'^^xsd:float eq '0.1'^^xsd:double, but the float value is %r" % f32(0.1))
print("PASS")
