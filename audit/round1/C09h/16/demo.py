import logging, sys, warnings
logging.disable(logging.CRITICAL)
warnings.simplefilter("ignore")
from rdflib import Literal, XSD, RDF, Graph
def fail(msg):
    print("FAIL", msg); sys.exit(1)

for v in (123456789.123, 0.123456789):
    l = Literal(v)
    g = Graph(); g.add((RDF.type, RDF.value, l))
    for fmt in ("turtle", "n3"):
        back = list(Graph().parse(data=g.serialize(format=fmt), format=fmt).objects())[0]
        if back.value != v:
            fail("Literal(%r) written as %s and read back is %r (token used: %s)" % (v, fmt, back.value, l._literal_n3(use_plain=True)))
print("PASS")
