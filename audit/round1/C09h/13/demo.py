import logging, sys, warnings
logging.disable(logging.CRITICAL)
warnings.simplefilter("ignore")
from rdflib import Literal, XSD, RDF, Graph
def fail(msg):
    print("FAIL", msg); sys.exit(1)

from decimal import Decimal
def secs(lex):  # seconds field of an xsd:time / xsd:dateTime lexical form as exact decimal
    return Decimal(lex.rsplit(":", 1)[1])
for src, dt in (("12:00:00.1234567", XSD.time), ("2020-01-01T00:00:00.0000009", XSD.dateTime)):
    l = Literal(src, datatype=dt)
    if not l.ill_typed and secs(str(l)) != secs(src):
        fail("%r^^%s is silently normalised to %r: a different value (fraction truncated to microseconds)" % (src, dt.split("#")[1], str(l)))
d = Literal("PT0.0000001S", datatype=XSD.duration)
if str(d) == "P0D":
    fail("'PT0.0000001S' normalised to 'P0D'")
print("PASS")
