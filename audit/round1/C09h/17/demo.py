import logging, sys, warnings
logging.disable(logging.CRITICAL)
warnings.simplefilter("ignore")
from rdflib import Literal, XSD, RDF, Graph
def fail(msg):
    print("FAIL", msg); sys.exit(1)

a = Literal(float("nan")); b = Literal("NaN", datatype=XSD.double)
if a == b and a.eq(b) is not True:
    fail("%s == %s (same term) but .eq() is %r" % (a.n3(), b.n3(), a.eq(b)))
print("PASS")
