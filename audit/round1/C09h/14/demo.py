import logging, sys, warnings
logging.disable(logging.CRITICAL)
warnings.simplefilter("ignore")
from rdflib import Literal, XSD, RDF, Graph
def fail(msg):
    print("FAIL", msg); sys.exit(1)

bad = []
for src, dt in (("1_000", XSD.integer), ("١٢٣", XSD.integer), ("1e2", XSD.decimal), ("NaN", XSD.decimal),
                ("inf", XSD.double), ("nan", XSD.double), ("1_0", XSD.double), ("2020-W01-1", XSD.date), ("12", XSD.time),
                ("2020-01-01", XSD.dateTime), ("P1W", XSD.duration), ("PT", XSD.duration), ("P1Y", XSD.dayTimeDuration),
                ("9223372036854775808", XSD.long)):
    l = Literal(src, datatype=dt)
    if l.ill_typed is not True:
        bad.append("%r^^%s -> %r" % (src, dt.split("#")[1], str(l)))
if bad:
    fail("forms outside the lexical space accepted as well-typed and rewritten: " + "; ".join(bad))
print("PASS")
