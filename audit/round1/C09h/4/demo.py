import logging, sys, warnings
logging.disable(logging.CRITICAL)
warnings.simplefilter("ignore")
from rdflib import Literal, XSD, RDF, Graph
def fail(msg):
    print("FAIL", msg); sys.exit(1)

l = Literal("6162", datatype=XSD.hexBinary)      # value b'ab', already normalised
try:
    n = l.normalize()
except Exception as e:
    fail("normalize() raised %r" % e)
if n != l or n.value != l.value:
    fail("normalize() of the normalised literal %r gives %r with value %r (was %r)" % (l, n, n.value, l.value))
l2 = Literal("YWJj", datatype=XSD.base64Binary)  # value b'abc'
n2 = l2.normalize()
if n2 != l2 or n2.value != l2.value or n2.ill_typed:
    fail("normalize() of %r gives %r value %r ill_typed %r" % (l2, n2, n2.value, n2.ill_typed))
try:
    Literal("0FB7", datatype=XSD.hexBinary).normalize()
except Exception as e:
    fail("Literal('0FB7', hexBinary).normalize() raised %s" % type(e).__name__)
print("PASS")
