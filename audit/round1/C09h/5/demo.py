import logging, sys, warnings
logging.disable(logging.CRITICAL)
warnings.simplefilter("ignore")
from rdflib import Literal, XSD, RDF, Graph
def fail(msg):
    print("FAIL", msg); sys.exit(1)

for src in ("a&#13;b", "<a b='x&#10;y'/>", "<a b='x&#9;y'/>"):
    raw = Literal(src, datatype=RDF.XMLLiteral, normalize=False)   # the value of the given form
    norm = Literal(src, datatype=RDF.XMLLiteral)                    # normalised form
    again = Literal(str(norm), datatype=RDF.XMLLiteral)             # what the normalised form denotes
    if not again.eq(raw) or str(again) != str(norm):
        fail("rdf:XMLLiteral %r is normalised to %r, which denotes a different value (re-normalises to %r)" % (src, str(norm), str(again)))
print("PASS")
