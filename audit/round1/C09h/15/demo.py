import logging, sys, warnings
logging.disable(logging.CRITICAL)
warnings.simplefilter("ignore")
from rdflib import Literal, XSD, RDF, Graph
def fail(msg):
    print("FAIL", msg); sys.exit(1)

import re
from decimal import Decimal
DEC = re.compile(r"[+-]?(\d+(\.\d*)?|\.\d+)")   # lexical space of xsd:decimal
for v in (1e-7, 1e22, Decimal("NaN"), Decimal("Infinity")):
    try:
        l = Literal(v, datatype=XSD.decimal)
    except Exception:
        continue   # refusing an unrepresentable value would be fine
    if not DEC.fullmatch(str(l)):
        g = Graph(); g.add((RDF.type, RDF.value, l))
        back = list(Graph().parse(data=g.serialize(format="turtle"), format="turtle").objects())[0]
        fail("Literal(%r, datatype=XSD.decimal) has lexical form %r, not a valid xsd:decimal; via Turtle it reads back as %s" % (v, str(l), back.n3()))
print("PASS")
