"""Graph.addN silently drops a quad whose context is another (equal) view of the very same named graph."""
import sys, warnings
warnings.simplefilter("ignore")
from rdflib import Dataset, URIRef, Literal

s, p = URIRef("urn:s"), URIRef("urn:p")
ds = Dataset()
view_a = ds.graph(URIRef("urn:g1"))
view_b = ds.graph(URIRef("urn:g1"))     # independently obtained view of the same graph on the same store
assert view_a == view_b and view_a.store is view_b.store

view_a.addN([(s, p, Literal(1), view_b)])

if (s, p, Literal(1)) not in view_a or (s, p, Literal(1), URIRef("urn:g1")) not in ds:
    print("FAIL: view_a.addN([(s,p,1,view_b)]) added nothing although view_b is the same graph <urn:g1>; quads=%s"
          % list(ds.quads()))
    sys.exit(1)
print("PASS")
