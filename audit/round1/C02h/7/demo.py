"""Serializing a Dataset with default_union=False as N-Triples writes the triples of every named graph
(a merged view, with duplicates) although no union was asked for; turtle / xml / n3 write the default graph only."""
import sys, warnings
warnings.simplefilter("ignore")
from rdflib import Dataset, Graph, URIRef, Literal

s, p = URIRef("urn:s"), URIRef("urn:p")
ds = Dataset(default_union=False)
ds.add((s, p, Literal("in default")))
ds.add((s, p, Literal("in g1"), URIRef("urn:g1")))
ds.add((s, p, Literal("shared"), URIRef("urn:g1")))
ds.add((s, p, Literal("shared"), URIRef("urn:g2")))

nt = ds.serialize(format="nt")
lines = [l for l in nt.splitlines() if l.strip()]
via_nt = sorted(str(o) for o in Graph().parse(data=nt, format="nt").objects())
via_ttl = sorted(str(o) for o in Graph().parse(data=ds.serialize(format="turtle"), format="turtle").objects())
triple_view = sorted(str(o) for _, _, o in ds.triples((None, None, None)))   # what the dataset itself shows as triples

if via_nt != triple_view or via_nt != via_ttl or len(lines) != len(set(lines)):
    print("FAIL: nt output of a non-union Dataset contains %s (lines: %d, distinct: %d) but its triple view / turtle output is %s"
          % (via_nt, len(lines), len(set(lines)), triple_view))
    sys.exit(1)
print("PASS")
