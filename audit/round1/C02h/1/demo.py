"""DELETE WHERE { GRAPH ?g { ... } } is a silent no-op: nothing is removed from any named graph."""
import sys, warnings
warnings.simplefilter("ignore")
from rdflib import Dataset, URIRef, Literal

s, p = URIRef("urn:s"), URIRef("urn:p")
g1, g2 = URIRef("urn:g1"), URIRef("urn:g2")

ds = Dataset()
ds.add((s, p, Literal(1), g1))
ds.add((s, p, Literal(1), g2))
ds.add((s, p, Literal(2), g2))
ds.add((s, p, Literal(1)))  # default graph: must survive (GRAPH ?g ranges over named graphs only)

ds.update("DELETE WHERE { GRAPH ?g { ?s ?p 1 } }")

got = {(o.toPython(), str(c) if c is not None else None) for _, _, o, c in ds.quads()}
expected = {(2, "urn:g2"), (1, "urn:x-rdflib:default")}
got = {(o, "urn:x-rdflib:default" if c is None else c) for o, c in got}
if got != expected:
    print("FAIL: DELETE WHERE { GRAPH ?g { ?s ?p 1 } } removed nothing / wrong quads; left: %s" % sorted(got))
    sys.exit(1)
print("PASS")
