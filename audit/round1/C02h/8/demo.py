"""A query restricted with FROM / FROM NAMED to a graph that exists in the dataset but is empty does not
return 'nothing': it raises (the engine tries to download the graph name from the web)."""
import sys, warnings
warnings.simplefilter("ignore")
from rdflib import Dataset, URIRef, Literal

s, p = URIRef("urn:s"), URIRef("urn:p")
ds = Dataset()
ds.add((s, p, Literal("d")))
ds.add((s, p, Literal("g1"), URIRef("urn:g1")))
empty = ds.graph(URIRef("urn:empty"))           # a known, registered, empty named graph
assert URIRef("urn:empty") in [g.identifier for g in ds.graphs()] and len(empty) == 0

problems = []
for q in ("SELECT ?o FROM <urn:empty> { ?s ?p ?o }",
          "SELECT ?o FROM NAMED <urn:empty> { GRAPH ?g { ?s ?p ?o } }",
          "SELECT ?o FROM <urn:g1> FROM NAMED <urn:empty> { GRAPH <urn:empty> { ?s ?p ?o } }"):
    try:
        rows = list(ds.query(q))
        if rows:
            problems.append("%s -> %r" % (q, rows))
    except Exception as e:
        problems.append("%s raised %r" % (q, e))

if problems:
    print("FAIL: query over an existing empty graph did not simply return nothing: " + " | ".join(problems))
    sys.exit(1)
print("PASS")
