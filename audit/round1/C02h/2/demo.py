"""A triple added to a Dataset through BatchAddGraph (or as a quad whose context is the dataset itself)
lands in a hidden blank-node graph named after the Dataset object instead of the default graph."""
import sys, warnings
warnings.simplefilter("ignore")
from rdflib import Dataset, URIRef, Literal
from rdflib.graph import BatchAddGraph, DATASET_DEFAULT_GRAPH_ID

s, p = URIRef("urn:s"), URIRef("urn:p")

ds = Dataset()
with BatchAddGraph(ds, batch_size=10) as batch:
    batch.add((s, p, Literal(1)))          # a plain triple: belongs in the default graph, like ds.add(triple)

names = sorted(str(g.identifier) for g in ds.graphs())
in_default = (s, p, Literal(1)) in ds.default_graph
quads = [(o.toPython(), c) for _, _, o, c in ds.quads()]

if not in_default or names != [str(DATASET_DEFAULT_GRAPH_ID)]:
    print("FAIL: triple added via BatchAddGraph(ds) is not in the default graph; graphs=%s quads=%s" % (names, quads))
    sys.exit(1)
print("PASS")
