"""Dataset.graphs(triple) ("all graphs the triple is in") always lists the default graph too,
even when the triple is only in a named graph or in no graph at all."""
import sys, warnings
warnings.simplefilter("ignore")
from rdflib import Dataset, URIRef, Literal

s, p = URIRef("urn:s"), URIRef("urn:p")
g1 = URIRef("urn:g1")
t = (s, p, Literal("only in g1"))
absent = (s, p, Literal("nowhere"))

ds = Dataset()
ds.add(t + (g1,))

holding = sorted(str(g.identifier) for g in ds.graphs(t))
holding_absent = sorted(str(g.identifier) for g in ds.graphs(absent))
truth = sorted(str(g.identifier) for g in ds.graphs() if t in g)

if holding != truth or holding_absent != []:
    print("FAIL: graphs(triple) reports %s for a triple that is only in %s, and %s for a triple in no graph"
          % (holding, truth, holding_absent))
    sys.exit(1)
print("PASS")
