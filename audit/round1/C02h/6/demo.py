"""SPARQL Update: USING / USING NAMED do not restrict the dataset the WHERE clause sees.
With USING NAMED <urn:g1>, GRAPH ?g still ranges over every graph of the store and the default graph is not
emptied; with USING <urn:g1> the named graphs are still all visible."""
import sys, warnings
warnings.simplefilter("ignore")
import rdflib.plugins.sparql as sparql_plugin
from rdflib import Dataset, URIRef, Literal

# documented switch: do not try to fetch FROM/USING graphs from the web, use the graphs of the dataset
sparql_plugin.SPARQL_LOAD_GRAPHS = False

s, p = URIRef("urn:s"), URIRef("urn:p")
ds = Dataset()
ds.add((s, p, Literal("d")))                       # default graph
ds.add((s, p, Literal("g1"), URIRef("urn:g1")))
ds.add((s, p, Literal("g2"), URIRef("urn:g2")))

ds.update("INSERT { GRAPH <urn:outA> { ?s ?p ?o } } USING NAMED <urn:g1> WHERE { GRAPH ?g { ?s ?p ?o } }")
ds.update("INSERT { GRAPH <urn:outB> { ?s ?p ?o } } USING <urn:g1> WHERE { GRAPH ?g { ?s ?p ?o } }")
ds.update("INSERT { GRAPH <urn:outC> { ?s ?p ?o } } USING NAMED <urn:g1> WHERE { ?s ?p ?o }")

def content(name):
    return sorted(str(o) for o in ds.graph(URIRef(name)).objects())

a, b, c = content("urn:outA"), content("urn:outB"), content("urn:outC")
# USING NAMED <g1>: the only named graph is g1; USING <g1>: no named graphs at all;
# USING NAMED <g1> only: the default graph of the WHERE dataset is empty.
if (a, b, c) != (["g1"], [], []):
    print("FAIL: WHERE clause not restricted by USING: outA=%s (want ['g1']) outB=%s (want []) outC=%s (want [])" % (a, b, c))
    sys.exit(1)
print("PASS")
