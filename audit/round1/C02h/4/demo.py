"""GRAPH ?g with ?g bound to a *literal* is evaluated against the IRI-named graph with the same spelling:
a query restricted to something that names no graph falls back to another graph."""
import sys, warnings
warnings.simplefilter("ignore")
from rdflib import Dataset, URIRef, Literal

s, p = URIRef("urn:s"), URIRef("urn:p")
ds = Dataset()
ds.add((s, p, Literal("secret"), URIRef("urn:g1")))        # named graph <urn:g1>
ds.add((s, URIRef("urn:label"), Literal("urn:g1")))        # default graph: a plain string "urn:g1"

rows1 = list(ds.query('SELECT ?o { ?x <urn:label> ?g . GRAPH ?g { ?s ?p ?o } }'))
rows2 = list(ds.query('SELECT ?o { VALUES ?g { "urn:g1" } GRAPH ?g { ?s ?p ?o } }'))
rows3 = list(ds.query('SELECT ?o { GRAPH ?g { ?s ?p ?o } }', initBindings={"g": Literal("urn:g1")}))

# No graph is named by the literal "urn:g1" (graph names are IRIs or blank nodes), so all three must be empty,
# exactly as 'GRAPH ?g {..} FILTER(?g = "urn:g1")' is.
if rows1 or rows2 or rows3:
    print('FAIL: GRAPH ?g with ?g = the literal "urn:g1" returned the content of graph <urn:g1>: %s %s %s'
          % ([tuple(r) for r in rows1], [tuple(r) for r in rows2], [tuple(r) for r in rows3]))
    sys.exit(1)
print("PASS")
