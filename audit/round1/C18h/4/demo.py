"""AuditableStore.add accepts context=None (it handles it explicitly, as remove
does) and logs the undo entry with context None, but rollback() replays it
against Graph(store, None) -- a graph with a brand-new blank-node name -- so
nothing is removed and the added triple survives the rollback."""
import sys

from rdflib import URIRef
from rdflib.plugins.stores.auditable import AuditableStore
from rdflib.plugins.stores.memory import Memory

t = (URIRef("urn:s"), URIRef("urn:p"), URIRef("urn:o"))

base = Memory()
aud = AuditableStore(base)
before = sorted(tr for tr, _ in base.triples((None, None, None), None))

aud.add(t, None)
aud.rollback()

after = sorted(tr for tr, _ in base.triples((None, None, None), None))
if after != before or len(base) != 0:
    print("FAIL: triple added with context=None is still in the store after rollback: %r" % (after,))
    sys.exit(1)
print("PASS")
