"""Over a context-unaware store (SimpleMemory) all graphs share one triple set,
but AuditableStore keys its undo log by graph identifier.  An add through one
Graph object and a remove of the same triple through another do not cancel,
and rollback() (which replays the log in forward order) leaves the triple in a
store that was empty when the transaction began."""
import sys

from rdflib import Graph, URIRef
from rdflib.plugins.stores.auditable import AuditableStore
from rdflib.plugins.stores.memory import SimpleMemory

t = (URIRef("urn:s"), URIRef("urn:p"), URIRef("urn:o"))

base = SimpleMemory()
aud = AuditableStore(base)
before = sorted(tr for tr, _ in base.triples((None, None, None)))  # []

g1 = Graph(aud, URIRef("urn:g1"))
g2 = Graph(aud, URIRef("urn:g2"))  # same store, same (only) triple set
g1.add(t)
assert t in g2  # the store is not context aware: g2 sees the triple
g2.remove(t)
assert t not in g1
aud.rollback()

after = sorted(tr for tr, _ in base.triples((None, None, None)))
if after != before:
    print("FAIL: store was empty at transaction start, after rollback it holds %r" % (after,))
    sys.exit(1)
print("PASS")
