"""A pattern remove whose context is the ConjunctiveGraph itself
(cg.remove((None, None, None, cg)) or cg.remove_context(cg)) only touches the
graph named cg.identifier in the store, but AuditableStore works out "what
will be removed" with context.triples(), which for a ConjunctiveGraph is the
union of all graphs.  It therefore logs undo entries for triples of other
graphs under the default graph's name and rollback() copies them there."""
import sys
import warnings

warnings.simplefilter("ignore")

from rdflib import ConjunctiveGraph, Graph, URIRef
from rdflib.plugins.stores.auditable import AuditableStore
from rdflib.plugins.stores.memory import Memory

D = URIRef("urn:default")
t = (URIRef("urn:s"), URIRef("urn:p"), URIRef("urn:o"))


def content(store):
    cg = ConjunctiveGraph(store=store, identifier=D)
    return sorted((s, p, o, c.identifier) for s, p, o, c in cg.quads((None, None, None)))


base = Memory()
Graph(base, URIRef("urn:g1")).add(t)  # one triple, in <urn:g1>; default graph empty
before = content(base)

cg = ConjunctiveGraph(store=AuditableStore(base), identifier=D)
cg.remove((None, None, None, cg))  # clear the (empty) default graph: a no-op
mid = content(base)
cg.rollback()
after = content(base)

if mid != before:
    print("FAIL: unexpected change by the remove itself: %r" % (mid,))
    sys.exit(1)
if after != before:
    extra = [q for q in after if q not in before]
    print("FAIL: rollback after a no-op remove added quads that were never there: %r" % (extra,))
    sys.exit(1)
print("PASS")
