"""Graphs handed out by a ConjunctiveGraph over an AuditableStore (contexts(),
get_graph(), the graph column of quads()) are bound to the *underlying* store,
so changes made through them escape the transaction log and survive rollback().
The same happens inside the library for SPARQL `CLEAR NAMED` / `CLEAR ALL` / `DROP ALL`."""
import sys
import warnings

warnings.simplefilter("ignore")

from rdflib import ConjunctiveGraph, Graph, URIRef
from rdflib.plugins.stores.auditable import AuditableStore
from rdflib.plugins.stores.memory import Memory

D = URIRef("urn:default")
G1 = URIRef("urn:g1")
t = (URIRef("urn:s"), URIRef("urn:p"), URIRef("urn:o"))


def content(store):
    cg = ConjunctiveGraph(store=store, identifier=D)
    return sorted((s, p, o, c.identifier) for s, p, o, c in cg.quads((None, None, None)))


def fresh():
    base = Memory()
    Graph(base, G1).add(t)
    return base, ConjunctiveGraph(store=AuditableStore(base), identifier=D)


problems = []

# (a) clear every graph listed by contexts(), then roll back
base, cg = fresh()
before = content(base)
for g in cg.contexts():
    g.remove((None, None, None))
cg.rollback()
if content(base) != before:
    problems.append("contexts(): removal through a listed graph survived rollback")

# (b) the same through SPARQL Update
base, cg = fresh()
before = content(base)
cg.update("CLEAR NAMED")
cg.rollback()
if content(base) != before:
    problems.append("SPARQL 'CLEAR NAMED' survived rollback")

# (c) an add through get_graph()
base, cg = fresh()
before = content(base)
cg.get_graph(G1).add((URIRef("urn:s2"), URIRef("urn:p"), URIRef("urn:o")))
cg.rollback()
if content(base) != before:
    problems.append("get_graph().add() survived rollback")

if problems:
    print("FAIL: rollback() did not restore the store: " + "; ".join(problems))
    sys.exit(1)
print("PASS")
