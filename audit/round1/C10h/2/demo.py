"""A blank node label in an INSERT template denotes ONE fresh node per solution, also
when it is used both outside and inside a GRAPH block of the same template."""
import sys
from rdflib import Dataset, URIRef

ds = Dataset()
ds.update(
    """PREFIX : <http://e/>
    INSERT { _:b :p 1 . GRAPH :g { _:b :q 2 } } WHERE {}
    """
)
s_default = set(ds.default_context.subjects(URIRef("http://e/p"), None))
s_g = set(ds.get_context(URIRef("http://e/g")).subjects(URIRef("http://e/q"), None))
if len(s_default) != 1 or len(s_g) != 1:
    print("FAIL: unexpected triples", s_default, s_g)
    sys.exit(1)
if s_default != s_g:
    print("FAIL: _:b in the default-graph part and _:b in the GRAPH :g part of one INSERT template became two different blank nodes: %s vs %s" % (s_default.pop(), s_g.pop()))
    sys.exit(1)
print("PASS")
