"""USING / USING NAMED define the *whole* dataset for WHERE:
 - only USING NAMED given  -> default graph is empty, only the listed named graphs are visible
 - only USING given        -> there are no named graphs."""
import sys
import rdflib.plugins.sparql as sparql
from rdflib import Dataset, URIRef

sparql.SPARQL_LOAD_GRAPHS = False  # make USING read graphs of the store (see other finding)
E = "http://e/"
PFX = "PREFIX : <http://e/> "


def fresh():
    ds = Dataset()
    ds.update(PFX + "INSERT DATA { :d :p 0 . GRAPH :g1 { :a :p 1 } GRAPH :g2 { :b :p 2 } }")
    return ds


def out(ds):
    return sorted(t[0].n3() + " " + t[2].n3() for t in ds.get_context(URIRef(E + "out")))


problems = []
ds = fresh()
ds.update(PFX + "INSERT { GRAPH :out { ?s :in ?g } } USING NAMED :g1 WHERE { GRAPH ?g { ?s :p ?o } }")
if out(ds) != ["<http://e/a> <http://e/g1>"]:
    problems.append("USING NAMED :g1 ... GRAPH ?g saw %s" % out(ds))
ds = fresh()
ds.update(PFX + "INSERT { GRAPH :out { ?s :in :default } } USING NAMED :g1 WHERE { ?s :p ?o }")
if out(ds) != []:
    problems.append("USING NAMED only: default graph of WHERE not empty, saw %s" % out(ds))
ds = fresh()
ds.update(PFX + "INSERT { GRAPH :out { ?s :in ?g } } USING :g1 WHERE { GRAPH ?g { ?s :p ?o } }")
if out(ds) != []:
    problems.append("USING :g1 only: named graphs still visible, saw %s" % out(ds))
if problems:
    print("FAIL: " + " | ".join(problems))
    sys.exit(1)
print("PASS")
