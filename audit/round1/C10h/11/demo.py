"""DELETE/INSERT ... WHERE through a Graph must work for any Graph instance,
including instances of a user subclass of Graph."""
import sys
from rdflib import Graph, URIRef, Literal


class MyGraph(Graph):
    pass


g = MyGraph()
g.update("PREFIX : <http://e/> INSERT DATA { :a :p 1 }")  # fine
try:
    g.update("PREFIX : <http://e/> DELETE { ?s :p ?o } INSERT { ?s :q ?o } WHERE { ?s :p ?o }")
except Exception as e:
    print("FAIL: DELETE/INSERT WHERE on a Graph subclass raised %s: %s" % (type(e).__name__, str(e)[:75]))
    sys.exit(1)
if set(g) != {(URIRef("http://e/a"), URIRef("http://e/q"), Literal(1))}:
    print("FAIL: wrong content %r" % set(g))
    sys.exit(1)
print("PASS")
