"""Blank nodes in INSERT DATA are fresh: two separate requests that both say _:x must
create two distinct nodes (SPARQL 1.1 Update 3.1.1: 'Blank nodes in QuadDatas are assumed to
be disjoint from the blank nodes in the Graph Store, i.e., will be inserted with "fresh" blank nodes')."""
import sys
from rdflib import Graph, BNode

g = Graph()
g.update("PREFIX : <http://e/> INSERT DATA { _:x :name 'alice' }")
g.update("PREFIX : <http://e/> INSERT DATA { _:x :name 'bob' }")
subjects = set(g.subjects())
if len(subjects) != 2:
    print("FAIL: two independent INSERT DATA requests using the label _:x wrote to the SAME node %r (now has both names)" % (subjects,))
    sys.exit(1)
if BNode("x") in subjects:
    print("FAIL: the syntactic label was used as the node identifier")
    sys.exit(1)
print("PASS")
