"""INSERT DATA / DELETE DATA take ground quads only: a variable is a syntax error
(grammar note 8 of SPARQL 1.1) - in no case may a Variable end up as a term in the store."""
import sys
from rdflib import Graph, Variable

g = Graph()
try:
    g.update("PREFIX : <http://e/> INSERT DATA { ?x :p 1 . :a :q ?y }")
except Exception:
    pass  # rejecting the request is the right outcome
bad = [t for t in g if any(isinstance(x, Variable) for x in t)]
if bad:
    print("FAIL: INSERT DATA with variables was accepted and stored Variable terms: %r" % (bad,))
    sys.exit(1)
print("PASS")
