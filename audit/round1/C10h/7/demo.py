"""OPTIONAL / FILTER NOT EXISTS inside GRAPH { } of an update's WHERE must be evaluated
against that graph, exactly as the same pattern is in a SELECT query."""
import sys
from rdflib import Dataset, URIRef

E = "http://e/"
PFX = "PREFIX : <http://e/> "
# inside :g1 neither :b nor :b2 has a :p triple; they only have one in the default graph
DATA = PFX + "INSERT DATA { :b :p :W . :b2 :p :W2 . GRAPH :g1 { :a :p :b . :a2 :p :b2 } }"
problems = []

ds = Dataset()
ds.update(DATA)
pattern = "{ GRAPH :g1 { ?s :p ?o OPTIONAL { ?o :p ?x } } }"
q = sorted((r.s.n3(), r.x.n3()) for r in ds.query(PFX + "SELECT ?s ?x WHERE " + pattern) if r.x is not None)
assert q == [], q  # the query engine gets it right: ?x is never bound
ds.update(PFX + "INSERT { GRAPH :out { ?s :x ?x } } WHERE " + pattern)
u = sorted((s.n3(), o.n3()) for s, _, o in ds.get_context(URIRef(E + "out")))
if u != []:
    problems.append("OPTIONAL inside GRAPH :g1 bound ?x from outside :g1: inserted %s, expected nothing" % u)

ds = Dataset()
ds.update(DATA)
ds.update(PFX + "DELETE { GRAPH :g1 { ?s :p ?o } } WHERE { GRAPH :g1 { ?s :p ?o FILTER NOT EXISTS { ?o :p ?x } } }")
left = sorted(s.n3() for s in ds.get_context(URIRef(E + "g1")).subjects())
if left:
    problems.append("FILTER NOT EXISTS inside GRAPH :g1 looked at the default graph: triples of %s not deleted" % left)

if problems:
    print("FAIL: " + " | ".join(problems))
    sys.exit(1)
print("PASS")
