"""DELETE WHERE { GRAPH ?g { ... } } must delete the matching triples from every named graph."""
import sys
from rdflib import Dataset

ds = Dataset()
ds.update(
    """PREFIX : <http://e/>
    INSERT DATA { GRAPH :g1 { :a :p 1 . :a :q 2 } GRAPH :g2 { :b :p 3 } }"""
)
ds.update("PREFIX : <http://e/> DELETE WHERE { GRAPH ?g { ?s :p ?o } }")
left = sorted((s.n3(), p.n3(), o.n3(), c.n3() if hasattr(c, "n3") else str(c)) for s, p, o, c in ds.quads((None, None, None, None)))
if len(left) != 1:
    print("FAIL: DELETE WHERE { GRAPH ?g { ?s :p ?o } } left %d quads (expected only the :q triple): %s" % (len(left), left))
    sys.exit(1)
# the equivalent long form works:
print("PASS")
