"""With the engine's default-graph-is-union switch ON (the default), reads of the default graph
in an update's WHERE see the union of all graphs - for a Dataset just as for a ConjunctiveGraph."""
import sys
import rdflib.plugins.sparql as sparql
from rdflib import ConjunctiveGraph, Dataset, URIRef

assert sparql.SPARQL_DEFAULT_GRAPH_UNION is True  # engine default
PFX = "PREFIX : <http://e/> "
res = {}
for cls in (ConjunctiveGraph, Dataset):
    d = cls()
    d.update(PFX + "INSERT DATA { GRAPH :g1 { :a :p 1 } }")
    d.update(PFX + "INSERT { ?s :seen ?o } WHERE { ?s :p ?o }")  # WHERE reads the (union) default graph
    res[cls.__name__] = len(list(d.default_context.triples((None, URIRef("http://e/seen"), None))))
if res["Dataset"] != 1:
    print("FAIL: union switch is on, WHERE { ?s :p ?o } saw the named-graph triple through ConjunctiveGraph (%d insert) but not through Dataset (%d inserts)" % (res["ConjunctiveGraph"], res["Dataset"]))
    sys.exit(1)
print("PASS")
