"""Template quads whose graph term is unbound or not an IRI must be skipped."""
import sys
from rdflib import Dataset, URIRef

E = "http://e/"
ds = Dataset()
ds.update("PREFIX : <http://e/> INSERT DATA { :a :p 1 }")
# ?g is never bound -> the quad must be skipped
ds.update("PREFIX : <http://e/> INSERT { GRAPH ?g { :s1 :p :o } } WHERE { OPTIONAL { :none :p ?g } }")
# ?g is bound to the literal 1 -> illegal graph name, the quad must be skipped
ds.update("PREFIX : <http://e/> INSERT { GRAPH ?g { :s2 :p :o } } WHERE { :a :p ?g }")

problems = []
for s, p, o, c in ds.quads((None, None, None, None)):
    if s in (URIRef(E + "s1"), URIRef(E + "s2")):
        problems.append("%s was inserted into graph %r" % (s.n3(), c))
if problems:
    print("FAIL: " + "; ".join(sorted(problems)))
    sys.exit(1)
print("PASS")
