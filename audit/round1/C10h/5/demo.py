"""USING <g> names a graph OF THE GRAPH STORE as the default graph for WHERE.
With default settings rdflib instead tries to fetch <g> from the network."""
import sys
from rdflib import Dataset, URIRef, Literal

ds = Dataset()
ds.update("PREFIX : <http://e/> INSERT DATA { GRAPH :g1 { :a :p 1 } GRAPH :g2 { :b :p 2 } }")
try:
    ds.update("PREFIX : <http://e/> INSERT { ?s :seen ?o } USING :g1 WHERE { ?s :p ?o }")
except Exception as e:
    print("FAIL: USING <http://e/g1> (a graph present in the dataset) raised %s: %s" % (type(e).__name__, str(e)[:90]))
    sys.exit(1)
got = set(ds.default_context)
want = {(URIRef("http://e/a"), URIRef("http://e/seen"), Literal(1))}
if got != want:
    print("FAIL: default graph is %r, expected %r" % (got, want))
    sys.exit(1)
print("PASS")
