"""DROP DEFAULT applied through a plain Graph must empty it (like CLEAR DEFAULT does)."""
import sys
from rdflib import Graph

g = Graph()
g.update("PREFIX : <http://e/> INSERT DATA { :a :p 1 }")
try:
    g.update("DROP DEFAULT")
except Exception as e:
    print("FAIL: Graph().update('DROP DEFAULT') raised %s: %s (graph still has %d triple)" % (type(e).__name__, str(e)[:70], len(g)))
    sys.exit(1)
if len(g):
    print("FAIL: graph not emptied")
    sys.exit(1)
print("PASS")
