"""INSERT template triples whose instantiation has an illegal term (literal subject,
literal predicate) must be skipped; rdflib inserts them."""
import sys
from rdflib import Dataset, Literal, URIRef

ds = Dataset()
ds.update(
    """PREFIX : <http://e/>
    INSERT DATA { :a :p 1 . :a :q "x" } ;
    # ?o is a literal: (?o :inv ?s) has a literal subject, (?s ?o ?s) a literal predicate
    INSERT { ?o :inv ?s . ?s ?o ?s . ?s :ok ?o } WHERE { ?s ?p ?o }
    """
)
bad = [t for t in ds.default_context if isinstance(t[0], Literal) or not isinstance(t[1], URIRef)]
ok = (URIRef("http://e/a"), URIRef("http://e/ok"), Literal(1)) in ds.default_context
if bad or not ok:
    print("FAIL: INSERT template produced %d triples with a literal subject/predicate, e.g. %r" % (len(bad), bad[0] if bad else None))
    sys.exit(1)
print("PASS")
