import sys, warnings
warnings.filterwarnings("ignore")
from rdflib import Dataset, URIRef, BNode, Literal, RDF, XSD
from rdflib.graph import DATASET_DEFAULT_GRAPH_ID
EX = "http://example.org/"
def U(x): return URIRef(EX + x)
def quads(ds):
    out = set()
    for g in ds.graphs():
        name = None if g.identifier == DATASET_DEFAULT_GRAPH_ID else g.identifier
        for t in g:
            out.add(t + (name,))
    return out
def fail(msg):
    print("FAIL: " + msg); sys.exit(1)

ds = Dataset()
g = ds.graph(U("g"))
for v in (Literal(0), Literal(False), Literal("")):
    g.add((U("s"), U("p"), v))
data = ds.serialize(format="json-ld", auto_compact=True)
d2 = Dataset().parse(data=data, format="json-ld")
got = sorted(o.n3() for s, p, o, c in quads(d2))
if len(got) != 3:
    fail("3 values of <s> <p> (0, false, \"\") written with auto_compact=True, only %r read back" % got)
print("PASS")
