import sys, warnings
warnings.filterwarnings("ignore")
from rdflib import Dataset, URIRef, BNode, Literal, RDF, XSD
from rdflib.graph import DATASET_DEFAULT_GRAPH_ID
EX = "http://example.org/"
def U(x): return URIRef(EX + x)
def quads(ds):
    out = set()
    for g in ds.graphs():
        name = None if g.identifier == DATASET_DEFAULT_GRAPH_ID else g.identifier
        for t in g:
            out.add(t + (name,))
    return out
def fail(msg):
    print("FAIL: " + msg); sys.exit(1)

iri = EX + "a\u00a0"   # ends in U+00A0, a legal ucschar
ds = Dataset(); ds.graph(U("g")).add((URIRef(iri), U("p"), URIRef(iri)))
data = ds.serialize(format="trix")
d2 = Dataset().parse(data=data, format="trix")
if quads(d2) != quads(ds):
    fail("TriX round trip turns %r into %r" % (iri, sorted({str(s) for s, p, o, c in quads(d2)})))
print("PASS")
