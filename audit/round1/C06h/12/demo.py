import sys, warnings
warnings.filterwarnings("ignore")
from rdflib import Dataset, URIRef, BNode, Literal, RDF, XSD
from rdflib.graph import DATASET_DEFAULT_GRAPH_ID
EX = "http://example.org/"
def U(x): return URIRef(EX + x)
def quads(ds):
    out = set()
    for g in ds.graphs():
        name = None if g.identifier == DATASET_DEFAULT_GRAPH_ID else g.identifier
        for t in g:
            out.add(t + (name,))
    return out
def fail(msg):
    print("FAIL: " + msg); sys.exit(1)

# U+00A0 / U+3000 are ucschar, i.e. legal in an IRI (and in an N-Quads IRIREF)
bad = []
for fmt in ("nquads", "patch"):
    for iri in (EX + "a\u00a0b", EX + "a\u3000b"):
        ds = Dataset(); ds.graph(U("g")).add((U("s"), U("p"), URIRef(iri)))
        data = ds.serialize(format=fmt)
        try:
            d2 = Dataset().parse(data=data, format=fmt)
            if quads(d2) != quads(ds): bad.append("%s %r: differs" % (fmt, iri))
        except Exception as e:
            bad.append("%s %r: %s" % (fmt, iri, type(e).__name__))
if bad:
    fail("output does not read back for IRIs containing Unicode white space: " + "; ".join(bad))
print("PASS")
