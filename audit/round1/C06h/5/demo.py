import sys, warnings
warnings.filterwarnings("ignore")
from rdflib import Dataset, URIRef, BNode, Literal, RDF, XSD
from rdflib.graph import DATASET_DEFAULT_GRAPH_ID
EX = "http://example.org/"
def U(x): return URIRef(EX + x)
def quads(ds):
    out = set()
    for g in ds.graphs():
        name = None if g.identifier == DATASET_DEFAULT_GRAPH_ID else g.identifier
        for t in g:
            out.add(t + (name,))
    return out
def fail(msg):
    print("FAIL: " + msg); sys.exit(1)

a, b = BNode("a"), BNode("b")
ds = Dataset()
g = ds.graph(U("g"))
g.add((U("s"), U("p"), a)); g.add((a, RDF.first, Literal(1))); g.add((a, RDF.rest, b)); g.add((b, RDF.rest, RDF.nil))  # cell b has no rdf:first
data = ds.serialize(format="json-ld")
d2 = Dataset().parse(data=data, format="json-ld")
q = quads(d2)
if len(q) != 4 or not any(p == RDF.rest and isinstance(o, BNode) for s, p, o, c in q):
    fail("chain  a -rest-> b -rest-> nil  (b without rdf:first) is folded into a one-element @list; the link a rdf:rest b is lost: %r" % sorted((s.n3(), p.n3(), o.n3()) for s, p, o, c in q))
print("PASS")
