import sys, warnings
warnings.filterwarnings("ignore")
from rdflib import Dataset, URIRef, BNode, Literal, RDF, XSD
from rdflib.graph import DATASET_DEFAULT_GRAPH_ID
EX = "http://example.org/"
def U(x): return URIRef(EX + x)
def quads(ds):
    out = set()
    for g in ds.graphs():
        name = None if g.identifier == DATASET_DEFAULT_GRAPH_ID else g.identifier
        for t in g:
            out.add(t + (name,))
    return out
def fail(msg):
    print("FAIL: " + msg); sys.exit(1)

BASE = "http://example.org/doc"
bad = []
for iri in ("http://example.org:8080/x", "http://example.organic/x", "http://example.org"):
    ds = Dataset()
    ds.graph(U("g")).add((URIRef(iri), U("p"), Literal("v")))
    data = ds.serialize(format="json-ld", context={"@base": BASE})
    d2 = Dataset().parse(data=data, format="json-ld")
    got = [s for s, p, o, c in quads(d2)]
    if got != [URIRef(iri)]:
        bad.append("%s -> %s" % (iri, ", ".join(got)))
if bad:
    fail("with @base %s the JSON-LD serializer relativises IRIs that merely start with the string 'http://example.org': %s" % (BASE, "; ".join(bad)))
print("PASS")
