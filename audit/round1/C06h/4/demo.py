import sys, warnings
warnings.filterwarnings("ignore")
from rdflib import Dataset, URIRef, BNode, Literal, RDF, XSD
from rdflib.graph import DATASET_DEFAULT_GRAPH_ID
EX = "http://example.org/"
def U(x): return URIRef(EX + x)
def quads(ds):
    out = set()
    for g in ds.graphs():
        name = None if g.identifier == DATASET_DEFAULT_GRAPH_ID else g.identifier
        for t in g:
            out.add(t + (name,))
    return out
def fail(msg):
    print("FAIL: " + msg); sys.exit(1)

a = BNode("a")
ds = Dataset()
g = ds.graph(U("g"))
g.add((U("s"), U("p"), a)); g.add((a, RDF.first, Literal(1))); g.add((a, RDF.rest, RDF.nil)); g.add((a, RDF.type, RDF.List))
data = ds.serialize(format="json-ld")
d2 = Dataset().parse(data=data, format="json-ld")
q = quads(d2)
if len(q) != 4 or not any(p == RDF.type and o == RDF.List for s, p, o, c in q):
    fail("the quad  _:a rdf:type rdf:List <g>  is dropped when the cell is folded into @list (%d of 4 quads read back)" % len(q))
print("PASS")
