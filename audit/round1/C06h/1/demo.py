import sys, warnings
warnings.filterwarnings("ignore")
from rdflib import Dataset, URIRef, BNode, Literal, RDF, XSD
from rdflib.graph import DATASET_DEFAULT_GRAPH_ID
EX = "http://example.org/"
def U(x): return URIRef(EX + x)
def quads(ds):
    out = set()
    for g in ds.graphs():
        name = None if g.identifier == DATASET_DEFAULT_GRAPH_ID else g.identifier
        for t in g:
            out.add(t + (name,))
    return out
def fail(msg):
    print("FAIL: " + msg); sys.exit(1)

# A blank node that is a list cell in graph <g> and is also used in graph <h>.
a = BNode("a")
ds = Dataset()
g = ds.graph(U("g")); g.add((U("s"), U("p"), a)); g.add((a, RDF.first, Literal(1))); g.add((a, RDF.rest, RDF.nil))
ds.graph(U("h")).add((a, U("q"), U("o")))
data = ds.serialize(format="json-ld")
d2 = Dataset().parse(data=data, format="json-ld")
q = quads(d2)
heads = {o for s, p, o, c in q if p == U("p") and c == U("g")}
subj_h = {s for s, p, o, c in q if p == U("q") and c == U("h")}
if len(q) != 4 or heads != subj_h:
    fail("blank node shared by graphs <g> (list cell) and <h> comes back as two different blank nodes: %r vs %r" % (heads, subj_h))
print("PASS")
