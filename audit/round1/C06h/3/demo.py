import sys, warnings
warnings.filterwarnings("ignore")
from rdflib import Dataset, URIRef, BNode, Literal, RDF, XSD
from rdflib.graph import DATASET_DEFAULT_GRAPH_ID
EX = "http://example.org/"
def U(x): return URIRef(EX + x)
def quads(ds):
    out = set()
    for g in ds.graphs():
        name = None if g.identifier == DATASET_DEFAULT_GRAPH_ID else g.identifier
        for t in g:
            out.add(t + (name,))
    return out
def fail(msg):
    print("FAIL: " + msg); sys.exit(1)

# a (legal) RDF list whose only member is its own head cell
a = BNode("a")
ds = Dataset()
g = ds.graph(U("g")); g.add((a, RDF.first, a)); g.add((a, RDF.rest, RDF.nil))
try:
    data = ds.serialize(format="json-ld")
except RecursionError:
    fail("JSON-LD serializer hits RecursionError on  _:a rdf:first _:a ; rdf:rest rdf:nil")
d2 = Dataset().parse(data=data, format="json-ld")
q = quads(d2)
ok = len(q) == 2 and all(c == U("g") for *_, c in q) and any(p == RDF.first and s == o for s, p, o, c in q)
if not ok:
    fail("self-containing list not round-tripped: %r" % q)
print("PASS")
