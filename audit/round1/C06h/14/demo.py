import sys, warnings
warnings.filterwarnings("ignore")
from rdflib import Dataset, URIRef, BNode, Literal, RDF, XSD
from rdflib.graph import DATASET_DEFAULT_GRAPH_ID
EX = "http://example.org/"
def U(x): return URIRef(EX + x)
def quads(ds):
    out = set()
    for g in ds.graphs():
        name = None if g.identifier == DATASET_DEFAULT_GRAPH_ID else g.identifier
        for t in g:
            out.add(t + (name,))
    return out
def fail(msg):
    print("FAIL: " + msg); sys.exit(1)

t = (U("s"), U("p"), Literal("x"))
bad = []
# (a) the source dataset is a default_union dataset
a = Dataset(default_union=True); a.graph(U("g")).add(t)
b = Dataset(); b.graph(U("g")).add(t); b.default_graph.add(t)
want = quads(b)
a.parse(data=a.serialize(format="patch", target=b), format="patch")
if quads(a) != want: bad.append("source default_union=True: missing 'A' row for the default graph")
# (b) the target dataset is a default_union dataset
a = Dataset(); a.default_graph.add(t)
b = Dataset(default_union=True); b.graph(U("g")).add(t)
want = quads(b)
a.parse(data=a.serialize(format="patch", target=b), format="patch")
if quads(a) != want: bad.append("target default_union=True: missing 'D' row for the default graph")
if bad:
    fail("patch(a -> b) applied to a does not give b: " + "; ".join(bad))
print("PASS")
