import sys, warnings
warnings.filterwarnings("ignore")
from rdflib import Dataset, URIRef, BNode, Literal, RDF, XSD
from rdflib.graph import DATASET_DEFAULT_GRAPH_ID
EX = "http://example.org/"
def U(x): return URIRef(EX + x)
def quads(ds):
    out = set()
    for g in ds.graphs():
        name = None if g.identifier == DATASET_DEFAULT_GRAPH_ID else g.identifier
        for t in g:
            out.add(t + (name,))
    return out
def fail(msg):
    print("FAIL: " + msg); sys.exit(1)

ds = Dataset()
g = ds.graph(U("g"))
g.add((U("s"), RDF.type, U("a")))
g.add((U("s"), U("a"), Literal("v")))
ctx = {"@vocab": EX, "a": "http://other.org/a"}
data = ds.serialize(format="json-ld", context=ctx)
d2 = Dataset().parse(data=data, format="json-ld")
if quads(d2) != quads(ds):
    fail("<http://example.org/a> is shortened to the @vocab-relative name 'a', which the context defines as <http://other.org/a>: %r" % sorted((p.n3(), o.n3()) for s, p, o, c in quads(d2)))
print("PASS")
