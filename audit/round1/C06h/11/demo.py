import sys, warnings
warnings.filterwarnings("ignore")
from rdflib import Dataset, URIRef, BNode, Literal, RDF, XSD
from rdflib.graph import DATASET_DEFAULT_GRAPH_ID
EX = "http://example.org/"
def U(x): return URIRef(EX + x)
def quads(ds):
    out = set()
    for g in ds.graphs():
        name = None if g.identifier == DATASET_DEFAULT_GRAPH_ID else g.identifier
        for t in g:
            out.add(t + (name,))
    return out
def fail(msg):
    print("FAIL: " + msg); sys.exit(1)

# two lists sharing a tail; the context declares ex:items as a @list container
l, m = BNode("l"), BNode("m")
ds = Dataset()
g = ds.graph(U("g"))
g.add((U("s"), U("items"), l)); g.add((l, RDF.first, Literal(1))); g.add((l, RDF.rest, m))
g.add((m, RDF.first, Literal(2))); g.add((m, RDF.rest, RDF.nil)); g.add((U("x"), U("items"), m))
ctx = {"items": {"@id": EX + "items", "@container": "@list"}}
data = ds.serialize(format="json-ld", context=ctx)
d2 = Dataset().parse(data=data, format="json-ld")
q = quads(d2)
if len(q) != 6:
    fail("6 quads written, %d read back: the unfoldable (shared-tail) list is written as {'@id': '_:l'} under a @list-container term and is wrapped into a new list on reading" % len(q))
print("PASS")
